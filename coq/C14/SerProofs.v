(* C14 (3) — serialize/unserialize: unserialize(serialize v) = v for every value of the supported
   kinds (any nesting), and unserialize never runs out of fuel. *)
From Coq Require Import List NArith ZArith Bool Lia.
From Coq Require Import ZifyN ZifyNat ZifyBool.
From V.C14 Require Import SerModel SerSpec.
Import ListNotations.
Open Scope N_scope.
Ltac Zify.zify_post_hook ::= Z.div_mod_to_equations.

(* ------------------------------------------------------------------ decimal text *)
Definition digitP (c : N) : Prop := is_digit c = true.

Lemma dec_rev_digits : forall f n, Forall digitP (dec_rev f n).
Proof.
  induction f; intros n; cbn [dec_rev]; [constructor|].
  constructor; [unfold digitP, is_digit; lia|].
  destruct (n <? 10); [constructor|apply IHf].
Qed.

Fixpoint val_rev (l : bytes) : N := match l with [] => 0 | d :: r => (d - 48) + 10 * val_rev r end.

Lemma val_digits_app1 : forall l a, val_digits (l ++ [a]) = val_digits l * 10 + (a - 48).
Proof. intros l a. unfold val_digits. rewrite fold_left_app. reflexivity. Qed.

Lemma val_digits_rev : forall l, val_digits (rev l) = val_rev l.
Proof.
  induction l as [|a l IH]; [reflexivity|].
  cbn [rev]. rewrite val_digits_app1, IH. cbn [val_rev]. lia.
Qed.

Lemma dec_rev_S : forall f n,
  dec_rev (S f) n = (48 + n mod 10) :: (if n <? 10 then [] else dec_rev f (n / 10)).
Proof. reflexivity. Qed.

Lemma val_rev_dec : forall f n, n < 2 ^ N.of_nat f -> val_rev (dec_rev (S f) n) = n.
Proof.
  induction f; intros n H.
  - assert (n = 0) by (cbn in H; lia). subst. reflexivity.
  - rewrite dec_rev_S. destruct (n <? 10) eqn:E.
    + cbn [val_rev]. lia.
    + cbn [val_rev]. rewrite IHf; [lia|]. rewrite Nat2N.inj_succ, N.pow_succ_r' in H. lia.
Qed.

Lemma dec_N_val : forall n, val_digits (dec_N n) = n.
Proof.
  intros n. unfold dec_N. rewrite val_digits_rev. apply val_rev_dec.
  rewrite N2Nat.id. apply N.size_gt.
Qed.

Lemma dec_N_digits : forall n, Forall digitP (dec_N n).
Proof. intros n. unfold dec_N. apply Forall_rev. apply dec_rev_digits. Qed.

Lemma dec_N_cons : forall n, exists c r, dec_N n = c :: r /\ digitP c.
Proof.
  intros n. pose proof (dec_N_digits n) as H. unfold dec_N in *.
  remember (N.to_nat (N.size n)) as f. cbn [dec_rev] in *.
  destruct (rev ((48 + n mod 10) :: (if n <? 10 then [] else dec_rev f (n / 10)))) as [|c r] eqn:E.
  - apply (f_equal (@length N)) in E. rewrite rev_length in E. simpl in E. discriminate.
  - exists c, r. split; [reflexivity|]. inversion H; assumption.
Qed.

Lemma dec_N_length : forall n, (1 <= length (dec_N n))%nat.
Proof. intros n. destruct (dec_N_cons n) as (c & r & -> & _). simpl. lia. Qed.

Lemma span_digits_app : forall ds rest, Forall digitP ds ->
  match rest with [] => True | c :: _ => is_digit c = false end ->
  span_digits (ds ++ rest) = (ds, rest).
Proof.
  induction ds as [|d ds IH]; intros rest Hd Hr.
  - cbn [app]. destruct rest as [|c r]; [reflexivity|]. cbn [span_digits]. rewrite Hr. reflexivity.
  - inversion Hd; subst. cbn [app span_digits]. rewrite H1. rewrite (IH rest H2 Hr). reflexivity.
Qed.

(* ------------------------------------------------------------------ small steps of the scanner *)
Lemma expect_hit : forall c r, expect c (c :: r) = Some r.
Proof. intros. cbn [expect]. rewrite N.eqb_refl. reflexivity. Qed.

Lemma take_sign_digit : forall d r, digitP d -> take_sign (d :: r) = (false, d :: r).
Proof.
  intros d r H. unfold digitP, is_digit in H. cbn [take_sign].
  replace (d =? 45) with false by lia. replace (d =? 43) with false by lia. reflexivity.
Qed.

Lemma parse_value_S : forall f s, parse_value (S f) s =
  match s with
  | [] => PFail
  | c :: r =>
    if c =? 78 then match expect 59 r with Some r' => POk (VNull, r') | None => PFail end
    else if c =? 98 then
      match expect 58 r with
      | Some (x :: r2) =>
        match expect 59 r2 with
        | Some r' => if x =? 48 then POk (VBool false, r')
                     else if x =? 49 then POk (VBool true, r') else PFail
        | None => PFail end
      | _ => PFail end
    else if c =? 105 then
      match expect 58 r with
      | Some r1 =>
        let (neg, r2) := take_sign r1 in
        let (ds, r3) := span_digits r2 in
        match ds, expect 59 r3 with
        | _ :: _, Some r4 => match int_of_text neg ds with
                             | Some z => POk (VInt z, r4)
                             | None => PFail end
        | _, _ => PFail end
      | None => PFail end
    else if c =? 100 then
      match expect 58 r with
      | Some r1 => match split_semi r1 with
                   | Some (txt, r2) => if float_text_ok txt then POk (VFloat txt, r2) else PFail
                   | None => PFail end
      | None => PFail end
    else if c =? 115 then
      match expect 58 r with
      | Some r1 =>
        let (ds, r2) := span_digits r1 in
        match ds, expect 58 r2 with
        | _ :: _, Some r2' =>
          match expect 34 r2' with
          | Some r3 =>
            let n := val_digits ds in
            if max_int <? n then PFail
            else if N.of_nat (length r3) <? n + 2 then PFail
            else match expect 34 (skipn (N.to_nat n) r3) with
                 | Some r3' => match expect 59 r3' with
                               | Some r4 => POk (VStr (firstn (N.to_nat n) r3), r4)
                               | None => PFail end
                 | None => PFail end
          | None => PFail end
        | _, _ => PFail end
      | None => PFail end
    else if c =? 97 then
      match expect 58 r with
      | Some r1 =>
        let (ds, r2) := span_digits r1 in
        match ds, expect 58 r2 with
        | _ :: _, Some r2' =>
          match expect 123 r2' with
          | Some r3 =>
            let n := val_digits ds in
            if max_int <? n then PFail
            else if N.of_nat (length r3) / 4 <? n then PFail
            else match parse_pairs f n r3 with
                 | POk (kvs, r4) =>
                   match expect 125 r4 with
                   | Some r5 =>
                     if sequential 0 kvs then POk (VList (map snd kvs), r5)
                     else match build_map kvs [] with
                          | Some m => POk (VMap m, r5)
                          | None => PUnmodelled end
                   | None => PFail end
                 | PFail => PFail
                 | POutOfFuel => POutOfFuel
                 | PUnmodelled => PUnmodelled end
          | None => PFail end
        | _, _ => PFail end
      | None => PFail end
    else PFail
  end.
Proof. reflexivity. Qed.

Lemma parse_pairs_S : forall f n s, parse_pairs (S f) n s =
  if n =? 0 then POk ([], s)
  else match parse_value f s with
       | POk (k, s1) =>
         match parse_value f s1 with
         | POk (v, s2) =>
           match parse_pairs f (n - 1) s2 with
           | POk (kvs, s3) => POk ((k, v) :: kvs, s3)
           | PFail => PFail | POutOfFuel => POutOfFuel | PUnmodelled => PUnmodelled end
         | PFail => PFail | POutOfFuel => POutOfFuel | PUnmodelled => PUnmodelled end
       | PFail => PFail | POutOfFuel => POutOfFuel | PUnmodelled => PUnmodelled end.
Proof. reflexivity. Qed.

(* "i:" digits ";" *)
Lemma parse_nat_int : forall f i rest, i <= max_int ->
  parse_value (S f) ([105; 58] ++ dec_N i ++ [59] ++ rest) = POk (VInt (Z.of_N i), rest).
Proof.
  intros f i rest Hi. rewrite parse_value_S. cbn [app].
  change (105 =? 78) with false. change (105 =? 98) with false. change (105 =? 105) with true. cbv iota.
  rewrite expect_hit.
  destruct (dec_N_cons i) as (d & r & E & Hd).
  rewrite E. cbn [app]. rewrite take_sign_digit by exact Hd.
  change (d :: r ++ 59 :: rest) with ((d :: r) ++ 59 :: rest). rewrite <- E.
  rewrite span_digits_app; [|apply dec_N_digits|reflexivity].
  rewrite E at 1. rewrite expect_hit. unfold int_of_text. rewrite dec_N_val.
  replace (i <=? max_int) with true by lia. reflexivity.
Qed.

Lemma dec_Z_nonneg : forall i, dec_Z (Z.of_N i) = dec_N i.
Proof. intros i. unfold dec_Z. replace (Z.of_N i <? 0)%Z with false by lia. rewrite N2Z.id. reflexivity. Qed.

Lemma parse_int : forall f z rest, int64_ok z = true ->
  parse_value (S f) ([105; 58] ++ dec_Z z ++ [59] ++ rest) = POk (VInt z, rest).
Proof.
  intros f z rest Hz. unfold int64_ok in Hz. destruct (z <? 0)%Z eqn:E.
  - unfold dec_Z. rewrite E. rewrite parse_value_S. cbn [app].
    change (105 =? 78) with false. change (105 =? 98) with false. change (105 =? 105) with true. cbv iota.
    rewrite expect_hit. cbn [take_sign]. change (45 =? 45) with true. cbv iota.
    rewrite span_digits_app; [|apply dec_N_digits|reflexivity].
    destruct (dec_N_cons (Z.abs_N z)) as (d & r & E2 & Hd). rewrite E2 at 1. rewrite expect_hit.
    unfold int_of_text. rewrite dec_N_val. unfold max_int.
    replace (Z.abs_N z <=? 9223372036854775807 + 1) with true by lia.
    f_equal. f_equal. f_equal. lia.
  - replace z with (Z.of_N (Z.to_N z)) by lia. rewrite dec_Z_nonneg.
    apply parse_nat_int. unfold max_int. lia.
Qed.

Lemma firstn_app_exact : forall (a b : bytes), firstn (length a) (a ++ b) = a.
Proof. intros a b. rewrite firstn_app, Nat.sub_diag, firstn_all. simpl. apply app_nil_r. Qed.
Lemma skipn_app_exact : forall (a b : bytes), skipn (length a) (a ++ b) = b.
Proof. intros a b. rewrite skipn_app, Nat.sub_diag, skipn_all. reflexivity. Qed.

(* s:len:"bytes"; *)
Lemma parse_str : forall f k rest, len_ok k = true ->
  parse_value (S f) (str_lit k ++ rest) = POk (VStr k, rest).
Proof.
  intros f k rest Hk. unfold len_ok in Hk. unfold str_lit. rewrite parse_value_S.
  repeat rewrite <- app_assoc. cbn [app].
  change (115 =? 78) with false. change (115 =? 98) with false. change (115 =? 105) with false.
  change (115 =? 100) with false. change (115 =? 115) with true. cbv iota.
  rewrite expect_hit.
  rewrite span_digits_app; [|apply dec_N_digits|reflexivity].
  destruct (dec_N_cons (N.of_nat (length k))) as (d & r & E & Hd). rewrite E at 1.
  rewrite expect_hit, expect_hit. rewrite dec_N_val.
  replace (max_int <? N.of_nat (length k)) with false by lia.
  replace (N.of_nat (length (k ++ 34 :: 59 :: rest)) <? N.of_nat (length k) + 2) with false
    by (rewrite app_length; simpl; lia).
  rewrite Nat2N.id. rewrite skipn_app_exact, firstn_app_exact.
  rewrite expect_hit, expect_hit. reflexivity.
Qed.

(* d:text; *)
Lemma split_semi_app : forall t rest, no_semi t = true -> split_semi (t ++ 59 :: rest) = Some (t, rest).
Proof.
  induction t as [|c t IH]; intros rest H; cbn [app split_semi].
  - reflexivity.
  - cbn [no_semi forallb] in H. apply andb_prop in H. destruct H as [H1 H2].
    replace (c =? 59) with false by (destruct (c =? 59); [discriminate|reflexivity]).
    rewrite (IH rest H2). reflexivity.
Qed.

Lemma parse_float : forall f t rest, float_text_ok t = true -> no_semi t = true ->
  parse_value (S f) ([100; 58] ++ t ++ [59] ++ rest) = POk (VFloat t, rest).
Proof.
  intros f t rest Ht Hs. rewrite parse_value_S. cbn [app].
  change (100 =? 78) with false. change (100 =? 98) with false. change (100 =? 105) with false.
  change (100 =? 100) with true. cbv iota.
  rewrite expect_hit. rewrite split_semi_app by exact Hs. rewrite Ht. reflexivity.
Qed.

(* ------------------------------------------------------------------ serialize, unfolded *)
Fixpoint list_items (i : N) (l : list value) : list (option bytes) :=
  match l with
  | [] => []
  | x :: r => match ser x with
              | Some t => Some ([105; 58] ++ dec_N i ++ [59] ++ t)
              | None => None end :: list_items (i + 1) r
  end.
Fixpoint map_items (l : list (bytes * value)) : list (option bytes) :=
  match l with
  | [] => []
  | (k, x) :: r => match ser x with
                   | Some t => Some (str_lit k ++ t)
                   | None => None end :: map_items r
  end.
Definition arr_text (n : nat) (body : bytes) : bytes :=
  [97; 58] ++ dec_N (N.of_nat n) ++ [58; 123] ++ body ++ [125].

Lemma ser_list : forall l, ser (VList l) =
  match opt_concat (list_items 0 l) with Some body => Some (arr_text (length l) body) | None => None end.
Proof. intros l. reflexivity. Qed.
Lemma ser_map : forall l, ser (VMap l) =
  match opt_concat (map_items l) with Some body => Some (arr_text (length l) body) | None => None end.
Proof. intros l. reflexivity. Qed.

Lemma opt_concat_cons : forall x l, opt_concat (x :: l) =
  match x, opt_concat l with Some a, Some b => Some (a ++ b) | _, _ => None end.
Proof. reflexivity. Qed.

(* what the array loop returns for a list / a map *)
Fixpoint idx_pairs (i : N) (l : list value) : list (value * value) :=
  match l with [] => [] | x :: r => (VInt (Z.of_N i), canon x) :: idx_pairs (i + 1) r end.
Definition key_pairs (l : list (bytes * value)) : list (value * value) :=
  map (fun kv => (VStr (fst kv), canon (snd kv))) l.

(* the induction hypothesis carried for every element *)
Definition RT (v : value) : Prop :=
  serializable v = true ->
  exists t, ser v = Some t /\ (2 <= length t)%nat /\
    forall rest f, (2 * length (t ++ rest) + 1 <= f)%nat ->
      parse_value f (t ++ rest) = POk (canon v, rest).

Lemma list_items_ok : forall l, Forall RT l -> forallb serializable l = true ->
  forall i, i + N.of_nat (length l) <= max_int + 1 ->
  exists body, opt_concat (list_items i l) = Some body /\ (4 * length l <= length body)%nat /\
    forall rest f, (2 * length (body ++ rest) + 2 <= f)%nat ->
      parse_pairs f (N.of_nat (length l)) (body ++ rest) = POk (idx_pairs i l, rest).
Proof.
  induction 1 as [|x l Hx Hl IH]; intros Hs i Hi.
  - exists []. split; [reflexivity|]. split; [simpl; lia|]. intros rest f Hf.
    destruct f; [lia|]. rewrite parse_pairs_S. reflexivity.
  - cbn [forallb] in Hs. apply andb_prop in Hs. destruct Hs as [Hsx Hsl].
    destruct (Hx Hsx) as (t & Et & Lt & Pt).
    cbn [length] in Hi.
    destruct (IH Hsl (i + 1)) as (body & Eb & Lb & Pb); [lia|].
    cbn [list_items]. rewrite Et. rewrite opt_concat_cons, Eb.
    exists (([105; 58] ++ dec_N i ++ [59] ++ t) ++ body). split; [reflexivity|].
    pose proof (dec_N_length i) as Ld.
    split. { repeat rewrite app_length. cbn [length]. lia. }
    intros rest f Hf. destruct f as [|f]; [lia|]. rewrite parse_pairs_S.
    replace (N.of_nat (length (x :: l)) =? 0) with false by (cbn [length]; lia).
    repeat rewrite <- app_assoc. repeat rewrite <- app_assoc in Hf.
    repeat rewrite app_length in Hf. cbn [length] in Hf.
    destruct f as [|f]; [lia|].
    rewrite (parse_nat_int f i) by lia.
    rewrite Pt by (repeat rewrite app_length; lia).
    replace (N.of_nat (length (x :: l)) - 1) with (N.of_nat (length l)) by (cbn [length]; lia).
    rewrite Pb; [reflexivity|]. repeat rewrite app_length. lia.
Qed.

Lemma map_items_ok : forall l, Forall (fun kv => RT (snd kv)) l ->
  forallb (fun kv => len_ok (fst kv) && serializable (snd kv)) l = true ->
  exists body, opt_concat (map_items l) = Some body /\ (4 * length l <= length body)%nat /\
    forall rest f, (2 * length (body ++ rest) + 2 <= f)%nat ->
      parse_pairs f (N.of_nat (length l)) (body ++ rest) = POk (key_pairs l, rest).
Proof.
  induction 1 as [|[k x] l Hx Hl IH]; intros Hs.
  - exists []. split; [reflexivity|]. split; [simpl; lia|]. intros rest f Hf.
    destruct f; [lia|]. rewrite parse_pairs_S. reflexivity.
  - cbn [forallb fst snd] in Hs. apply andb_prop in Hs. destruct Hs as [Hsx Hsl].
    apply andb_prop in Hsx. destruct Hsx as [Hk Hsx]. cbn [snd] in Hx.
    destruct (Hx Hsx) as (t & Et & Lt & Pt).
    destruct (IH Hsl) as (body & Eb & Lb & Pb).
    cbn [map_items]. rewrite Et. rewrite opt_concat_cons, Eb.
    exists ((str_lit k ++ t) ++ body). split; [reflexivity|].
    assert (Lk : (6 <= length (str_lit k))%nat).
    { unfold str_lit. repeat rewrite app_length. cbn [length]. pose proof (dec_N_length (N.of_nat (length k))). lia. }
    split. { repeat rewrite app_length. cbn [length]. lia. }
    intros rest f Hf. destruct f as [|f]; [lia|]. rewrite parse_pairs_S.
    replace (N.of_nat (length ((k, x) :: l)) =? 0) with false by (cbn [length]; lia).
    repeat rewrite <- app_assoc. repeat rewrite <- app_assoc in Hf.
    repeat rewrite app_length in Hf.
    destruct f as [|f]; [lia|].
    rewrite (parse_str f k) by exact Hk.
    rewrite Pt by (repeat rewrite app_length; lia).
    replace (N.of_nat (length ((k, x) :: l)) - 1) with (N.of_nat (length l)) by (cbn [length]; lia).
    rewrite Pb; [reflexivity|]. repeat rewrite app_length. lia.
Qed.

Lemma sequential_idx : forall l i, sequential (Z.of_N i) (idx_pairs i l) = true.
Proof.
  induction l as [|x l IH]; intros i; [reflexivity|].
  cbn [idx_pairs sequential]. rewrite Z.eqb_refl.
  replace (Z.of_N i + 1)%Z with (Z.of_N (i + 1)) by lia. rewrite IH. reflexivity.
Qed.

Lemma map_snd_idx : forall l i, map snd (idx_pairs i l) = map canon l.
Proof. induction l as [|x l IH]; intros i; [reflexivity|]. cbn [idx_pairs map snd]. rewrite IH. reflexivity. Qed.

Lemma bytes_eqb_refl : forall a, bytes_eqb a a = true.
Proof. induction a; simpl; [reflexivity|]. rewrite N.eqb_refl, IHa. reflexivity. Qed.
Lemma bytes_eqb_sym : forall a b, bytes_eqb a b = bytes_eqb b a.
Proof.
  induction a as [|x a IH]; destruct b as [|y b]; simpl; try reflexivity.
  rewrite (N.eqb_sym x y), IH. reflexivity.
Qed.

Lemma map_set_fresh : forall acc k v, key_in k acc = false -> map_set acc k v = acc ++ [(k, v)].
Proof.
  induction acc as [|[k' v'] acc IH]; intros k v H; [reflexivity|].
  cbn [key_in existsb fst] in H. apply orb_false_elim in H. destruct H as [H1 H2].
  cbn [map_set]. rewrite H1. cbn [app]. f_equal. apply IH. exact H2.
Qed.

Lemma key_in_app : forall k a b, key_in k (a ++ b) = key_in k a || key_in k b.
Proof. intros. unfold key_in. apply existsb_app. Qed.

Lemma build_map_keys : forall l acc,
  nodup_keys l = true -> (forall kv, In kv l -> key_in (fst kv) acc = false) ->
  build_map (key_pairs l) acc = Some (acc ++ map (fun kv => (fst kv, canon (snd kv))) l).
Proof.
  induction l as [|[k x] l IH]; intros acc Hn Ha.
  - cbn. rewrite app_nil_r. reflexivity.
  - cbn [nodup_keys] in Hn. apply andb_prop in Hn. destruct Hn as [Hk Hn].
    cbn [key_pairs map build_map fst snd key_name].
    rewrite map_set_fresh by (apply (Ha (k, x)); left; reflexivity).
    fold (key_pairs l). rewrite IH; [rewrite <- app_assoc; reflexivity|exact Hn|].
    intros kv Hin. rewrite key_in_app. rewrite (Ha kv) by (right; exact Hin). cbn [orb].
    cbn [key_in existsb fst orb]. rewrite orb_false_r.
    (* fst kv differs from k because k is not among the later keys *)
    destruct (bytes_eqb (fst kv) k) eqn:E; [|reflexivity].
    exfalso. apply negb_true_iff in Hk. unfold key_in in Hk.
    assert (existsb (fun kv0 => bytes_eqb k (fst kv0)) l = true).
    { apply existsb_exists. exists kv. split; [exact Hin|]. rewrite bytes_eqb_sym. exact E. }
    congruence.
Qed.

Lemma sequential_keys : forall k x l, sequential 0 (key_pairs ((k, x) :: l)) = false.
Proof. reflexivity. Qed.

(* ------------------------------------------------------------------ induction over values *)
Section ValueInd.
  Variable P : value -> Prop.
  Hypothesis HNull : P VNull.
  Hypothesis HBool : forall b, P (VBool b).
  Hypothesis HInt : forall z, P (VInt z).
  Hypothesis HFloat : forall b, P (VFloat b).
  Hypothesis HStr : forall s, P (VStr s).
  Hypothesis HList : forall l, Forall P l -> P (VList l).
  Hypothesis HMap : forall l, Forall (fun kv => P (snd kv)) l -> P (VMap l).
  Hypothesis HArr : forall l, Forall (fun kv => P (snd kv)) l -> P (VArr l).
  Fixpoint value_ind2 (v : value) : P v :=
    match v with
    | VNull => HNull
    | VBool b => HBool b
    | VInt z => HInt z
    | VFloat b => HFloat b
    | VStr s => HStr s
    | VList l => HList l ((fix go (l : list value) : Forall P l :=
                             match l with [] => Forall_nil P
                             | x :: r => Forall_cons x (value_ind2 x) (go r) end) l)
    | VMap l => HMap l ((fix go (l : list (bytes * value)) : Forall (fun kv => P (snd kv)) l :=
                           match l with [] => Forall_nil _
                           | kv :: r => Forall_cons kv (value_ind2 (snd kv)) (go r) end) l)
    | VArr l => HArr l ((fix go (l : list (bytes * value)) : Forall (fun kv => P (snd kv)) l :=
                           match l with [] => Forall_nil _
                           | kv :: r => Forall_cons kv (value_ind2 (snd kv)) (go r) end) l)
    end.
End ValueInd.

(* ------------------------------------------------------------------ ArrayValue slots that carry names *)
Fixpoint arr_items (i : N) (l : list (bytes * value)) : list (option bytes) :=
  match l with
  | [] => []
  | (nm, x) :: r => match ser x with
                    | Some t => Some (key_text (slot_key i nm) ++ t)
                    | None => None end :: arr_items (i + 1) r
  end.
Lemma ser_arr : forall l, ser (VArr l) =
  match opt_concat (arr_items 0 l) with Some body => Some (arr_text (length l) body) | None => None end.
Proof. intros l. reflexivity. Qed.

Definition key_ok (k : value) : Prop :=
  match k with VInt z => int64_ok z = true | VStr s => len_ok s = true | _ => False end.

Lemma parse_key : forall f k rest, key_ok k -> parse_value (S f) (key_text k ++ rest) = POk (k, rest).
Proof.
  intros f k rest H. destruct k; try contradiction; cbn [key_text key_ok] in *.
  - repeat rewrite <- app_assoc. apply parse_int. exact H.
  - apply parse_str. exact H.
Qed.

Lemma key_text_len : forall k, key_ok k -> (4 <= length (key_text k))%nat.
Proof.
  intros k H. destruct k; try contradiction; cbn [key_text].
  - repeat rewrite app_length. cbn [length]. unfold dec_Z.
    destruct (z <? 0)%Z; cbn [length]; [pose proof (dec_N_length (Z.abs_N z))|pose proof (dec_N_length (Z.to_N z))]; lia.
  - unfold str_lit. repeat rewrite app_length. cbn [length]. pose proof (dec_N_length (N.of_nat (length s))). lia.
Qed.

Lemma slot_key_ok : forall i nm, i <= max_int -> len_ok nm = true -> key_ok (slot_key i nm).
Proof.
  intros i nm Hi Hn. unfold slot_key, int_name, atoi.
  destruct (take_sign0 nm) as [neg r]. destruct (span_digits r) as [ds rest].
  destruct ds as [|d ds]; [destruct nm; cbn [key_ok]; [unfold int64_ok, max_int in *; lia|exact Hn]|].
  destruct rest; [|destruct nm; cbn [key_ok]; [unfold int64_ok, max_int in *; lia|exact Hn]].
  destruct neg.
  - destruct (val_digits (d :: ds) <=? max_int + 1) eqn:E; [|destruct nm; cbn [key_ok]; [unfold int64_ok, max_int in *; lia|exact Hn]].
    destruct (bytes_eqb _ nm); [cbn [key_ok]; unfold int64_ok, max_int in *; lia|].
    destruct nm; cbn [key_ok]; [unfold int64_ok, max_int in *; lia|exact Hn].
  - destruct (val_digits (d :: ds) <=? max_int) eqn:E; [|destruct nm; cbn [key_ok]; [unfold int64_ok, max_int in *; lia|exact Hn]].
    destruct (bytes_eqb _ nm); [cbn [key_ok]; unfold int64_ok, max_int in *; lia|].
    destruct nm; cbn [key_ok]; [unfold int64_ok, max_int in *; lia|exact Hn].
Qed.

Lemma slot_key_canon : forall i nm, canon (slot_key i nm) = slot_key i nm.
Proof. intros i nm. unfold slot_key. destruct (int_name nm); [reflexivity|]. destruct nm; reflexivity. Qed.

Lemma slot_key_named : forall i nm, key_name (slot_key i nm) <> None.
Proof. intros i nm. unfold slot_key. destruct (int_name nm); [discriminate|]. destruct nm; discriminate. Qed.

Lemma arr_items_ok : forall l, Forall (fun kv => RT (snd kv)) l ->
  forallb (fun kv => len_ok (fst kv) && serializable (snd kv)) l = true ->
  forall i, i + N.of_nat (length l) <= max_int + 1 ->
  exists body, opt_concat (arr_items i l) = Some body /\ (4 * length l <= length body)%nat /\
    forall rest f, (2 * length (body ++ rest) + 2 <= f)%nat ->
      parse_pairs f (N.of_nat (length l)) (body ++ rest) = POk (slot_pairs canon i l, rest).
Proof.
  induction 1 as [|[nm x] l Hx Hl IH]; intros Hs i Hi.
  - exists []. split; [reflexivity|]. split; [simpl; lia|]. intros rest f Hf.
    destruct f; [lia|]. rewrite parse_pairs_S. reflexivity.
  - cbn [forallb fst snd] in Hs. apply andb_prop in Hs. destruct Hs as [Hsx Hsl].
    apply andb_prop in Hsx. destruct Hsx as [Hk Hsx]. cbn [snd] in Hx.
    destruct (Hx Hsx) as (t & Et & Lt & Pt). cbn [length] in Hi.
    destruct (IH Hsl (i + 1)) as (body & Eb & Lb & Pb); [lia|].
    assert (Kok : key_ok (slot_key i nm)) by (apply slot_key_ok; [lia|exact Hk]).
    pose proof (key_text_len _ Kok) as Lk.
    cbn [arr_items]. rewrite Et. rewrite opt_concat_cons, Eb.
    exists ((key_text (slot_key i nm) ++ t) ++ body). split; [reflexivity|].
    split. { repeat rewrite app_length. cbn [length]. lia. }
    intros rest f Hf. destruct f as [|f]; [lia|]. rewrite parse_pairs_S.
    replace (N.of_nat (length ((nm, x) :: l)) =? 0) with false by (cbn [length]; lia).
    repeat rewrite <- app_assoc. repeat rewrite <- app_assoc in Hf. repeat rewrite app_length in Hf.
    destruct f as [|f]; [lia|].
    rewrite (parse_key f _ _ Kok).
    rewrite Pt by (repeat rewrite app_length; lia).
    replace (N.of_nat (length ((nm, x) :: l)) - 1) with (N.of_nat (length l)) by (cbn [length]; lia).
    rewrite Pb; [|repeat rewrite app_length; lia].
    cbn [slot_pairs]. reflexivity.
Qed.

Lemma build_map_named : forall kvs acc, Forall (fun kv : value * value => key_name (fst kv) <> None) kvs ->
  exists m, build_map kvs acc = Some m.
Proof.
  induction kvs as [|[k v] kvs IH]; intros acc H; [exists acc; reflexivity|].
  inversion H; subst. cbn [build_map]. cbn [fst] in H2. destruct (key_name k); [apply IH; assumption|congruence].
Qed.

Lemma slot_pairs_named : forall l i, Forall (fun kv : value * value => key_name (fst kv) <> None) (slot_pairs canon i l).
Proof.
  induction l as [|[nm x] l IH]; intros i; [constructor|]. cbn [slot_pairs]. constructor; [apply slot_key_named|apply IH].
Qed.

(* the array header "a:" n ":{" body "}" *)
Lemma parse_array : forall f n body rest kvs,
  N.of_nat n <= max_int -> (4 * n <= length body)%nat ->
  parse_pairs f (N.of_nat n) (body ++ [125] ++ rest) = POk (kvs, [125] ++ rest) ->
  parse_value (S f) (arr_text n body ++ rest) =
    if sequential 0 kvs then POk (VList (map snd kvs), rest)
    else match build_map kvs [] with Some m => POk (VMap m, rest) | None => PUnmodelled end.
Proof.
  intros f n body rest kvs Hn Hb Hp. unfold arr_text. rewrite parse_value_S.
  repeat rewrite <- app_assoc. cbn [app].
  change (97 =? 78) with false. change (97 =? 98) with false. change (97 =? 105) with false.
  change (97 =? 100) with false. change (97 =? 115) with false. change (97 =? 97) with true. cbv iota.
  rewrite expect_hit.
  rewrite span_digits_app; [|apply dec_N_digits|reflexivity].
  destruct (dec_N_cons (N.of_nat n)) as (d & r & E & Hd). rewrite E at 1.
  rewrite expect_hit, expect_hit. rewrite dec_N_val.
  replace (max_int <? N.of_nat n) with false by lia.
  replace (N.of_nat (length (body ++ 125 :: rest)) / 4 <? N.of_nat n) with false
    by (rewrite app_length; cbn [length]; lia).
  cbn [app] in Hp. rewrite Hp. rewrite expect_hit. reflexivity.
Qed.

Lemma roundtrip_all : forall v, RT v.
Proof.
  induction v as [| b | z | b | s | l IH | l IH | l IH] using value_ind2; intros Hs.
  - exists [78; 59]. split; [reflexivity|]. split; [simpl; lia|]. intros rest f Hf.
    destruct f; [simpl in Hf; lia|]. reflexivity.
  - destruct b.
    + exists [98; 58; 49; 59]. split; [reflexivity|]. split; [simpl; lia|]. intros rest f Hf.
      destruct f; [simpl in Hf; lia|]. reflexivity.
    + exists [98; 58; 48; 59]. split; [reflexivity|]. split; [simpl; lia|]. intros rest f Hf.
      destruct f; [simpl in Hf; lia|]. reflexivity.
  - cbn [serializable] in Hs. exists ([105; 58] ++ dec_Z z ++ [59]). split; [reflexivity|].
    split; [repeat rewrite app_length; simpl; lia|]. intros rest f Hf.
    destruct f; [lia|]. repeat rewrite <- app_assoc. apply parse_int. exact Hs.
  - cbn [serializable] in Hs. apply andb_prop in Hs. destruct Hs as [Ht Hn].
    exists ([100; 58] ++ b ++ [59]). split; [reflexivity|].
    split; [repeat rewrite app_length; simpl; lia|]. intros rest f Hf.
    destruct f; [lia|]. repeat rewrite <- app_assoc. apply parse_float; assumption.
  - cbn [serializable] in Hs. exists (str_lit s). split; [reflexivity|].
    split; [unfold str_lit; repeat rewrite app_length; simpl; lia|]. intros rest f Hf.
    destruct f; [lia|]. apply parse_str. exact Hs.
  - cbn [serializable] in Hs. apply andb_prop in Hs. destruct Hs as [Hl Hs]. unfold len_ok in Hl.
    destruct (list_items_ok l IH Hs 0) as (body & Eb & Lb & Pb); [lia|].
    rewrite ser_list, Eb. exists (arr_text (length l) body). split; [reflexivity|].
    split; [unfold arr_text; repeat rewrite app_length; simpl; lia|].
    intros rest f Hf. destruct f as [|f]; [lia|].
    assert (Hlen : (length (body ++ [125%N] ++ rest) + 5 <= length (arr_text (length l) body ++ rest))%nat).
    { unfold arr_text. repeat rewrite app_length. cbn [length]. pose proof (dec_N_length (N.of_nat (length l))). lia. }
    rewrite (parse_array f (length l) body rest (idx_pairs 0 l)); [|lia|exact Lb|apply Pb; lia].
    change 0%Z with (Z.of_N 0). rewrite sequential_idx, map_snd_idx. reflexivity.
  - cbn [serializable] in Hs. apply andb_prop in Hs. destruct Hs as [Hl Hs].
    apply andb_prop in Hl. destruct Hl as [Hl Hn]. unfold len_ok in Hl.
    destruct (map_items_ok l IH Hs) as (body & Eb & Lb & Pb).
    rewrite ser_map, Eb. exists (arr_text (length l) body). split; [reflexivity|].
    split; [unfold arr_text; repeat rewrite app_length; simpl; lia|].
    intros rest f Hf. destruct f as [|f]; [lia|].
    assert (Hlen : (length (body ++ [125%N] ++ rest) + 5 <= length (arr_text (length l) body ++ rest))%nat).
    { unfold arr_text. repeat rewrite app_length. cbn [length]. pose proof (dec_N_length (N.of_nat (length l))). lia. }
    rewrite (parse_array f (length l) body rest (key_pairs l)); [|lia|exact Lb|apply Pb; lia].
    destruct l as [|[k x] l]; [reflexivity|].
    rewrite sequential_keys. rewrite build_map_keys; [reflexivity|exact Hn|reflexivity].
  - cbn [serializable] in Hs. apply andb_prop in Hs. destruct Hs as [Hl Hs]. unfold len_ok in Hl.
    destruct (arr_items_ok l IH Hs 0) as (body & Eb & Lb & Pb); [clear - Hl; unfold bytes in *; lia|].
    rewrite ser_arr, Eb. exists (arr_text (length l) body). split; [reflexivity|].
    split; [unfold arr_text; repeat rewrite app_length; simpl; lia|].
    intros rest f Hf. destruct f as [|f]; [lia|].
    assert (Hlen : (length (body ++ [125%N] ++ rest) + 5 <= length (arr_text (length l) body ++ rest))%nat).
    { unfold arr_text. repeat rewrite app_length. cbn [length]. pose proof (dec_N_length (N.of_nat (length l))). lia. }
    rewrite (parse_array f (length l) body rest (slot_pairs canon 0 l)); [|lia|exact Lb|apply Pb; lia].
    cbn [canon]. unfold arr_value. destruct (sequential 0 (slot_pairs canon 0 l)); [reflexivity|].
    destruct (build_map_named (slot_pairs canon 0 l) [] (slot_pairs_named l 0)) as (m & Em). rewrite Em. reflexivity.
Qed.

(* ------------------------------------------------------------------ unserialize (serialize v) *)
Definition starts_ok (t : bytes) : Prop :=
  exists c0 c1 r, t = c0 :: c1 :: r /\
    ((c0 = 78 /\ c1 = 59) \/ (c0 = 98 /\ c1 = 58) \/ (c0 = 105 /\ c1 = 58) \/ (c0 = 100 /\ c1 = 58)
     \/ (c0 = 115 /\ c1 = 58) \/ (c0 = 97 /\ c1 = 58)).
Definition ends_ok (t : bytes) : Prop := exists r cl, t = r ++ [cl] /\ (cl = 59 \/ cl = 125).

Lemma ser_shape : forall v t, ser v = Some t -> starts_ok t /\ ends_ok t.
Proof.
  intros v t H. destruct v as [| b | z | b | s | l | l | l].
  - inversion H; subst. split; [exists 78, 59, []; auto|exists [78], 59; auto].
  - destruct b; inversion H; subst.
    + split; [exists 98, 58, [49; 59]; split; [reflexivity|]; auto|exists [98; 58; 49], 59; auto].
    + split; [exists 98, 58, [48; 59]; split; [reflexivity|]; auto|exists [98; 58; 48], 59; auto].
  - cbn [ser] in H. inversion H; subst. split.
    + exists 105, 58, (dec_Z z ++ [59]). split; [reflexivity|]. auto 8.
    + exists ([105; 58] ++ dec_Z z), 59. split; [rewrite <- app_assoc; reflexivity|auto].
  - cbn [ser] in H. inversion H; subst. split.
    + exists 100, 58, (b ++ [59]). split; [reflexivity|]. auto 8.
    + exists ([100; 58] ++ b), 59. split; [rewrite <- app_assoc; reflexivity|auto].
  - cbn [ser] in H. inversion H; subst. unfold str_lit. split.
    + eexists 115, 58, _. split; [reflexivity|]. auto 10.
    + exists ([115; 58] ++ dec_N (N.of_nat (length s)) ++ [58; 34] ++ s ++ [34]), 59.
      split; [repeat rewrite <- app_assoc; reflexivity|auto].
  - rewrite ser_list in H. destruct (opt_concat (list_items 0 l)) as [body|]; [|discriminate].
    inversion H; subst. unfold arr_text. split.
    + eexists 97, 58, _. split; [reflexivity|]. auto 12.
    + exists ([97; 58] ++ dec_N (N.of_nat (length l)) ++ [58; 123] ++ body), 125.
      split; [repeat rewrite <- app_assoc; reflexivity|auto].
  - rewrite ser_map in H. destruct (opt_concat (map_items l)) as [body|]; [|discriminate].
    inversion H; subst. unfold arr_text. split.
    + eexists 97, 58, _. split; [reflexivity|]. auto 12.
    + exists ([97; 58] ++ dec_N (N.of_nat (length l)) ++ [58; 123] ++ body), 125.
      split; [repeat rewrite <- app_assoc; reflexivity|auto].
  - rewrite ser_arr in H. destruct (opt_concat (arr_items 0 l)) as [body|]; [|discriminate].
    inversion H; subst. unfold arr_text. split.
    + eexists 97, 58, _. split; [reflexivity|]. auto 12.
    + exists ([97; 58] ++ dec_N (N.of_nat (length l)) ++ [58; 123] ++ body), 125.
      split; [repeat rewrite <- app_assoc; reflexivity|auto].
Qed.

Lemma unserialize_of_text : forall t v,
  starts_ok t ->
  (forall rest f, (2 * length (t ++ rest) + 1 <= f)%nat -> parse_value f (t ++ rest) = POk (v, rest)) ->
  unserialize t = POk v.
Proof.
  intros t v (c0 & c1 & r & Et & Hc) Hp.
  unfold unserialize.
  assert (Hstrict : parse_strict t = POk v).
  { unfold parse_strict. specialize (Hp [] (fuel_for t)). rewrite app_nil_r in Hp.
    rewrite Hp; [reflexivity|]. unfold fuel_for. lia. }
  rewrite Et in *.
  destruct Hc as [[-> ->]|[[-> ->]|[[-> ->]|[[-> ->]|[[-> ->]|[-> ->]]]]]];
    cbn [has_prefix bytes_eqb firstn length orb N.eqb Pos.eqb andb]; rewrite Hstrict; reflexivity.
Qed.

Lemma unserialize_serialize_l : forall v, serializable v = true ->
  exists t, serialize v = Some t /\ unserialize t = POk (canon v).
Proof.
  intros v Hs. destruct (roundtrip_all v Hs) as (t & Et & _ & Hp).
  exists t. split; [exact Et|]. destruct (ser_shape v t Et) as [H1 H2].
  apply unserialize_of_text; assumption.
Qed.

(* ------------------------------------------------------------------ the scanner only moves forward; fuel suffices *)
Lemma expect_len : forall c s r, expect c s = Some r -> length s = S (length r).
Proof.
  intros c s r H. destruct s as [|x s']; [discriminate|]. cbn [expect] in H.
  destruct (x =? c); inversion H; subst. reflexivity.
Qed.
Lemma span_len : forall s a b, span_digits s = (a, b) -> length s = (length a + length b)%nat.
Proof.
  induction s as [|c s IH]; intros a b H; cbn [span_digits] in H.
  - inversion H; reflexivity.
  - destruct (is_digit c).
    + destruct (span_digits s) as [a' b'] eqn:E. inversion H; subst. cbn [length].
      rewrite (IH a' b eq_refl). reflexivity.
    + inversion H; subst. reflexivity.
Qed.
Lemma take_sign_len : forall s neg r, take_sign s = (neg, r) -> (length r <= length s)%nat.
Proof.
  intros s neg r H. destruct s as [|x t]; cbn [take_sign] in H.
  - inversion H; subst. lia.
  - destruct (x =? 45); [inversion H; subst; simpl; lia|].
    destruct (x =? 43); inversion H; subst; simpl; lia.
Qed.

Lemma split_semi_len : forall s a b, split_semi s = Some (a, b) -> length s = S (length a + length b).
Proof.
  induction s as [|c s IH]; intros a b H; cbn [split_semi] in H; [discriminate|].
  destruct (c =? 59).
  - inversion H; subst. reflexivity.
  - destruct (split_semi s) as [[a' b']|] eqn:E; [|discriminate]. inversion H; subst.
    cbn [length]. rewrite (IH a' b eq_refl). reflexivity.
Qed.

Ltac len_facts :=
  repeat match goal with
  | H : expect _ ?s = Some ?r |- _ => apply expect_len in H
  | H : span_digits ?s = (?a, ?b) |- _ => apply span_len in H
  | H : take_sign ?s = (?n, ?r) |- _ => apply take_sign_len in H
  end.

Definition A_len (f : nat) := forall s v r, parse_value f s = POk (v, r) -> (length r + 2 <= length s)%nat.
Definition B_len (f : nat) := forall n s kvs r, parse_pairs f n s = POk (kvs, r) -> (length r <= length s)%nat.

Lemma forward_all : forall f, A_len f /\ B_len f.
Proof.
  induction f as [|f [IHA IHB]]; [split; red; intros; discriminate|].
  split.
  - intros s v r H. rewrite parse_value_S in H. cbv zeta in H.
    destruct s as [|c s']; [discriminate|]. cbn [length].
    destruct (c =? 78).
    { destruct (expect 59 s') eqn:E1; [|discriminate]. inversion H; subst. len_facts. lia. }
    destruct (c =? 98).
    { destruct (expect 58 s') as [[|x r2]|] eqn:E1; try discriminate.
      destruct (expect 59 r2) eqn:E2; [|discriminate].
      destruct (x =? 48); [inversion H; subst; len_facts; simpl in *; lia|].
      destruct (x =? 49); [inversion H; subst; len_facts; simpl in *; lia|discriminate]. }
    destruct (c =? 105).
    { destruct (expect 58 s') as [r1|] eqn:E1; [|discriminate].
      destruct (take_sign r1) as [neg r2] eqn:E2. destruct (span_digits r2) as [ds r3] eqn:E3.
      destruct ds as [|d ds]; [discriminate|]. destruct (expect 59 r3) eqn:E4; [|discriminate].
      destruct (int_of_text neg (d :: ds)); [|discriminate]. inversion H; subst. len_facts. simpl in *. lia. }
    destruct (c =? 100).
    { destruct (expect 58 s') as [r1|] eqn:E1; [|discriminate].
      destruct (split_semi r1) as [[txt r2]|] eqn:E2; [|discriminate].
      destruct (float_text_ok txt); [|discriminate]. inversion H; subst.
      apply split_semi_len in E2. len_facts. simpl in *. lia. }
    destruct (c =? 115).
    { destruct (expect 58 s') as [r1|] eqn:E1; [|discriminate].
      destruct (span_digits r1) as [ds r2] eqn:E3.
      destruct ds as [|d ds]; [discriminate|]. destruct (expect 58 r2) as [r2'|] eqn:E4; [|discriminate].
      destruct (expect 34 r2') as [r3|] eqn:E5; [|discriminate].
      destruct (max_int <? val_digits (d :: ds)); [discriminate|].
      destruct (N.of_nat (length r3) <? val_digits (d :: ds) + 2); [discriminate|].
      destruct (expect 34 (skipn (N.to_nat (val_digits (d :: ds))) r3)) as [r3'|] eqn:E6; [|discriminate].
      destruct (expect 59 r3') eqn:E7; [|discriminate]. inversion H; subst.
      pose proof (skipn_length (N.to_nat (val_digits (d :: ds))) r3). len_facts. simpl in *. lia. }
    destruct (c =? 97); [|discriminate].
    destruct (expect 58 s') as [r1|] eqn:E1; [|discriminate].
    destruct (span_digits r1) as [ds r2] eqn:E3.
    destruct ds as [|d ds]; [discriminate|]. destruct (expect 58 r2) as [r2'|] eqn:E4; [|discriminate].
    destruct (expect 123 r2') as [r3|] eqn:E5; [|discriminate].
    destruct (max_int <? val_digits (d :: ds)); [discriminate|].
    destruct (N.of_nat (length r3) / 4 <? val_digits (d :: ds)); [discriminate|].
    destruct (parse_pairs f (val_digits (d :: ds)) r3) as [[kvs r4]| | |] eqn:EP; try discriminate.
    destruct (expect 125 r4) as [r5|] eqn:E6; [|discriminate].
    apply IHB in EP.
    assert (r = r5).
    { destruct (sequential 0 kvs); [inversion H; reflexivity|].
      destruct (build_map kvs []); inversion H; reflexivity. }
    subst. len_facts. simpl in *. lia.
  - intros n s kvs r H. rewrite parse_pairs_S in H.
    destruct (n =? 0); [inversion H; subst; lia|].
    destruct (parse_value f s) as [[k s1]| | |] eqn:E1; try discriminate.
    destruct (parse_value f s1) as [[v s2]| | |] eqn:E2; try discriminate.
    destruct (parse_pairs f (n - 1) s2) as [[kvs' s3]| | |] eqn:E3; try discriminate.
    inversion H; subst. apply IHA in E1. apply IHA in E2. apply IHB in E3. lia.
Qed.

Definition A_tot (f : nat) := forall s, (2 * length s + 1 <= f)%nat -> parse_value f s <> POutOfFuel.
Definition B_tot (f : nat) := forall n s, (2 * length s + 2 <= f)%nat -> parse_pairs f n s <> POutOfFuel.

Lemma total_all : forall f, A_tot f /\ B_tot f.
Proof.
  induction f as [|f [IHA IHB]]; [split; red; intros; simpl in *; lia|].
  destruct (forward_all f) as [FA FB].
  split.
  - intros s Hf. rewrite parse_value_S. cbv zeta.
    destruct s as [|c s']; [discriminate|]. cbn [length] in Hf.
    destruct (c =? 78). { destruct (expect 59 s'); discriminate. }
    destruct (c =? 98).
    { destruct (expect 58 s') as [[|x r2]|]; try discriminate.
      destruct (expect 59 r2); [|discriminate]. destruct (x =? 48); [discriminate|].
      destruct (x =? 49); discriminate. }
    destruct (c =? 105).
    { destruct (expect 58 s'); [|discriminate]. destruct (take_sign b) as [neg r2].
      destruct (span_digits r2) as [ds r3]. destruct ds; [discriminate|].
      destruct (expect 59 r3); [|discriminate]. destruct (int_of_text neg (n :: ds)); discriminate. }
    destruct (c =? 100).
    { destruct (expect 58 s') as [q1|]; [|discriminate].
      destruct (split_semi q1) as [[txt q2]|]; [|discriminate]. destruct (float_text_ok txt); discriminate. }
    destruct (c =? 115).
    { destruct (expect 58 s'); [|discriminate]. destruct (span_digits b) as [ds r2].
      destruct ds; [discriminate|]. destruct (expect 58 r2); [|discriminate].
      destruct (expect 34 b0); [|discriminate].
      destruct (max_int <? val_digits (n :: ds)); [discriminate|].
      destruct (N.of_nat (length b1) <? val_digits (n :: ds) + 2); [discriminate|].
      destruct (expect 34 (skipn (N.to_nat (val_digits (n :: ds))) b1)); [|discriminate].
      destruct (expect 59 b2); discriminate. }
    destruct (c =? 97); [|discriminate].
    destruct (expect 58 s') as [r1|] eqn:E1; [|discriminate].
    destruct (span_digits r1) as [ds r2] eqn:E3.
    destruct ds as [|d ds]; [discriminate|]. destruct (expect 58 r2) as [r2'|] eqn:E4; [|discriminate].
    destruct (expect 123 r2') as [r3|] eqn:E5; [|discriminate].
    destruct (max_int <? val_digits (d :: ds)); [discriminate|].
    destruct (N.of_nat (length r3) / 4 <? val_digits (d :: ds)); [discriminate|].
    assert (Hr3 : (2 * length r3 + 2 <= f)%nat) by (len_facts; simpl in *; lia).
    specialize (IHB (val_digits (d :: ds)) r3 Hr3).
    destruct (parse_pairs f (val_digits (d :: ds)) r3) as [[kvs r4]| | |]; try discriminate; [|congruence].
    destruct (expect 125 r4); [|discriminate].
    destruct (sequential 0 kvs); [discriminate|]. destruct (build_map kvs []); discriminate.
  - intros n s Hf. rewrite parse_pairs_S.
    destruct (n =? 0); [discriminate|].
    assert (H1 : (2 * length s + 1 <= f)%nat) by lia.
    pose proof (IHA s H1) as T1.
    destruct (parse_value f s) as [[k s1]| | |] eqn:E1; try discriminate; [|congruence].
    apply FA in E1.
    assert (H2 : (2 * length s1 + 1 <= f)%nat) by lia.
    pose proof (IHA s1 H2) as T2.
    destruct (parse_value f s1) as [[v s2]| | |] eqn:E2; try discriminate; [|congruence].
    apply FA in E2.
    assert (H3 : (2 * length s2 + 2 <= f)%nat) by lia.
    pose proof (IHB (n - 1) s2 H3) as T3.
    destruct (parse_pairs f (n - 1) s2) as [[kvs' s3]| | |]; try discriminate. congruence.
Qed.

Lemma parse_strict_total : forall s, parse_strict s <> POutOfFuel.
Proof.
  intros s. unfold parse_strict. destruct (total_all (fuel_for s)) as [TA _].
  assert (H : (2 * length s + 1 <= fuel_for s)%nat) by (unfold fuel_for; lia).
  specialize (TA s H). destruct (parse_value (fuel_for s) s) as [[v [|x r]]| | |]; try discriminate. congruence.
Qed.

Lemma unserialize_total_l : forall s, unserialize s <> POutOfFuel.
Proof.
  intros s. unfold unserialize. destruct s as [|c r] eqn:E; [discriminate|]. rewrite <- E.
  pose proof (parse_strict_total s) as T.
  destruct (has_prefix [78; 59] s || has_prefix [98; 58] s || has_prefix [105; 58] s
            || has_prefix [100; 58] s || has_prefix [115; 58] s || has_prefix [97; 58] s).
  - destruct (parse_strict s); try discriminate; [|congruence].
    destruct (has_prefix [115; 58] s); [|discriminate].
    destruct (index_byte 34 s); [|discriminate].
    destruct (index_byte 34 (rev s)); [|discriminate].
    destruct (Nat.leb _ _); [discriminate|].
    destruct (has_prefix origami_a _ || has_prefix origami_o _); discriminate.
  - destruct (has_prefix [115; 58] s); [|discriminate].
    destruct (index_byte 34 s); [|discriminate].
    destruct (index_byte 34 (rev s)); [|discriminate].
    destruct (Nat.leb _ _); [discriminate|].
    destruct (has_prefix origami_a _ || has_prefix origami_o _); discriminate.
Qed.

(* every accepted input was read to its last byte, and reading only ever moves forward *)
Lemma parse_strict_consumes_l : forall s v, parse_strict s = POk v ->
  parse_value (fuel_for s) s = POk (v, []).
Proof.
  intros s v H. unfold parse_strict in H.
  destruct (parse_value (fuel_for s) s) as [[v' [|x r]]| | |]; try discriminate. inversion H; reflexivity.
Qed.

Lemma scanner_moves_forward_l : forall f s v r, parse_value f s = POk (v, r) ->
  (length r + 2 <= length s)%nat.
Proof. intros f. exact (proj1 (forward_all f)). Qed.
