(* C14 (2) — correspondence for the byte-string codecs.  A case: which function, the input, what
   the std/php function returned, what the Go reference library returned on the same input, and
   (for decoder inputs built by encoding a known string) that string. *)
From Coq Require Import List NArith Bool.
From V.C14 Require Import Exh BytesModel BytesSpec.
Import ListNotations.
Open Scope N_scope.

(* function ids: 0 base64_encode 1 base64_decode 2 bin2hex 3 urlencode 4 urldecode
                 5 rawurlencode 6 rawurldecode *)
Inductive bout := OStr (s : bytes) | OFalse | OOther.
Definition model_out (f : N) (x : bytes) : bout :=
  match f with
  | 0 => OStr (base64_encode x)
  | 1 => match base64_decode x with Some s => OStr s | None => OFalse end
  | 2 => OStr (bin2hex x)
  | 3 => OStr (urlencode x)
  | 4 => OStr (urldecode x)
  | 5 => OStr (rawurlencode x)
  | _ => OStr (rawurldecode x)
  end.
Definition bout_eqb (a b : bout) : bool :=
  match a, b with
  | OStr s, OStr t => bytes_eqb s t
  | OFalse, OFalse => true
  | _, _ => false
  end.

(* decidable versions of the format predicates of BytesSpec (used as oracles on outputs) *)
Definition b64_alphab (c : N) : bool :=
  ((65 <=? c) && (c <=? 90)) || ((97 <=? c) && (c <=? 122)) || ((48 <=? c) && (c <=? 57))
  || (c =? 43) || (c =? 47).
Fixpoint b64_textb (t : bytes) : bool :=
  match t with
  | [] => true
  | c0 :: c1 :: c2 :: c3 :: r =>
    b64_alphab c0 && b64_alphab c1 &&
    (if is_nil r then
       (b64_alphab c2 && b64_alphab c3) || (b64_alphab c2 && (c3 =? 61)) || ((c2 =? 61) && (c3 =? 61))
     else b64_alphab c2 && b64_alphab c3 && b64_textb r)
  | _ => false
  end.
Definition upper_hexdigb (c : N) : bool := ((48 <=? c) && (c <=? 57)) || ((65 <=? c) && (c <=? 70)).
Fixpoint pct_textb (plus : bool) (t : bytes) : bool :=
  match t with
  | [] => true
  | c :: r =>
    if c =? 37 then match r with
                    | h :: l :: r' => upper_hexdigb h && upper_hexdigb l && pct_textb plus r'
                    | _ => false end
    else (unreserved c || (plus && (c =? 43))) && pct_textb plus r
  end.
Definition hex_textb (t : bytes) : bool :=
  forallb (fun c => ((48 <=? c) && (c <=? 57)) || ((97 <=? c) && (c <=? 102))) t.

Record bcase := { b_fn : N; b_in : bytes; b_out : bout; b_ref : bout; b_orig : option bytes }.

(* failing clauses:
   1 model <> implementation
   2 Go reference library <> implementation
   3 encoder output is not a text of the format (RFC 4648 / lower hex / RFC 3986 / form encoding)
   4 the decoder does not give the encoded string back: for an encoder case the Spec-side decoder
     applied to the implementation's output, for a decoder case on an input that was produced by
     encoding b_orig *)
Definition check_bytes (c : bcase) : list nat :=
  (if bout_eqb (model_out (b_fn c) (b_in c)) (b_out c) then [] else [1%nat]) ++
  (if bout_eqb (b_ref c) (b_out c) then [] else [2%nat]) ++
  (match b_out c with
   | OStr t =>
     match b_fn c with
     | 0 => (if b64_textb t then [] else [3%nat]) ++
            (match base64_decode t with Some s => if bytes_eqb s (b_in c) then [] else [4%nat] | None => [4%nat] end)
     | 2 => (if hex_textb t then [] else [3%nat]) ++
            (match hex_decode t with Some s => if bytes_eqb s (b_in c) then [] else [4%nat] | None => [4%nat] end)
     | 3 => (if pct_textb true t then [] else [3%nat]) ++
            (if bytes_eqb (urldecode t) (b_in c) then [] else [4%nat])
     | 5 => (if pct_textb false t then [] else [3%nat]) ++
            (if bytes_eqb (rawurldecode t) (b_in c) then [] else [4%nat])
     | _ => match b_orig c with
            | Some s => if bytes_eqb s t then [] else [4%nat]
            | None => [] end
     end
   | _ => match b_orig c with Some _ => [4%nat] | None => [] end
   end).

(* observation codes for the exhaustive short-input runs *)
Definition bout_code (o : bout) : bytes :=
  match o with OStr s => 1 :: s | OFalse => [0] | OOther => [2] end.
Definition bytes_exh (f lo hi : N) (stream : bytes) : list nat :=
  exh_check (fun x => bout_code (model_out f x)) lo hi stream.
