(* C05 — non-vacuity: concrete tables and programs meeting the theorems' hypotheses. *)
From Coq Require Import List String ZArith Bool.
From V.C02 Require Import Lang Model Spec Wf.
From V.C05 Require Import Model Spec Proofs Run.
Import ListNotations.
Open Scope string_scope.

(* interface I1 {}  class E1 extends Exception {}  class E2 extends E1 {}
   class E3 extends Exception implements I1 {}  class E4 extends Exception {} *)
Definition ex_table : H.table := mk_table ([("E1", Some "Exception", ([] : list string)); ("E2", Some "E1", ([] : list string)); ("E3", Some "Exception", (["I1"] : list string)); ("E4", Some "Exception", ([] : list string))] : list (string * option string * list string)) ([("I1", ([] : list string))] : list (string * list string)).
Example ex_table_wf : HS.wf ex_table = true.
Proof. vm_compute. reflexivity. Qed.

(* the catch test on it: class itself, ancestor, interface, unrelated class, Throwable, internal error *)
Example ex_match : map (fun T => cmatch_impl ex_table T (VObj 0 "E2" "m")) ["E2"; "E1"; "Exception"; "Throwable"; "E4"; "I1"]
                   = [true; true; true; true; false; false].
Proof. vm_compute. reflexivity. Qed.
Example ex_match_iface : cmatch_impl ex_table "I1" (VObj 0 "E3" "m") = true.
Proof. vm_compute. reflexivity. Qed.
Example ex_match_internal : map (fun T => cmatch_impl ex_table T (VErr "x")) ["Exception"; "Throwable"; "E1"] = [true; true; false].
Proof. vm_compute. reflexivity. Qed.

(* a program of the enumerated family: inside a loop inside a function, the try block throws E2, the
   first clause (E1) takes it although a later clause names E2, prints class and message of the
   caught object, rethrows it; finally runs; the outer handler for Exception gets it; outer finally.
     interface I1 {}
     class E1 extends Exception {}
     class E2 extends E1 {}
     class E3 extends Exception implements I1 {}
     class E4 extends Exception {}
     function thrower($k) {
       echo "T";
       throw new E2("deep");
       echo "never";
     }
     function run() {
       for ($i = 0; $i < 2; $i++) {
         echo "[";
         try {
           echo "t";
           throw new E2("m2");
           echo "u";
         } catch (E1 $e) {
           echo "c1:";
           echo get_class($e) . ("/" . $e->getMessage());
           throw $e;
         } catch (E2 $e) {
           echo "c2:";
           echo get_class($e) . ("/" . $e->getMessage());
         } finally {
           echo "f";
         }
         echo "]";
       }
       echo "end";
       return 7;
     }
     try {
       echo "r=" . run();
     } catch (E4 $x) {
       echo "outer4:";
       echo $x->getMessage();
     } catch (Exception $x) {
       echo "outerX:";
       if (($x === $x)) {
         echo "self";
       }
     } finally {
       echo "F";
     }
     echo "done";
 *)
Definition ex_prog : prog :=
  {| funcs := [{| fname := "thrower"; fparams := [("k", None)]; fbody := (SSeq (SEcho (ELit (VStr "T"))) (SSeq (SThrow (ENew "E2" (ELit (VStr "deep")))) (SEcho (ELit (VStr "never"))))) |}; {| fname := "run"; fparams := []; fbody := (SSeq (SFor (ACons (EAssign "i" (ELit (VInt 0))) ANil) (EBin Lt (EVar "i") (ELit (VInt 2))) (ACons (EPostInc "i") ANil) (SSeq (SEcho (ELit (VStr "["))) (SSeq (STry (SSeq (SEcho (ELit (VStr "t"))) (SSeq (SThrow (ENew "E2" (ELit (VStr "m2")))) (SEcho (ELit (VStr "u"))))) (CTCons "E1" (Some "e") (SSeq (SEcho (ELit (VStr "c1:"))) (SSeq (SEcho (EBin Concat (EClass (EVar "e")) (EBin Concat (ELit (VStr "/")) (EMsg (EVar "e"))))) (SThrow (EVar "e")))) (CTCons "E2" (Some "e") (SSeq (SEcho (ELit (VStr "c2:"))) (SEcho (EBin Concat (EClass (EVar "e")) (EBin Concat (ELit (VStr "/")) (EMsg (EVar "e")))))) CTNil)) (SEcho (ELit (VStr "f")))) (SEcho (ELit (VStr "]")))))) (SSeq (SEcho (ELit (VStr "end"))) (SReturn (Some (ELit (VInt 7)))))) |}]; closures := []; main := (SSeq (STry (SEcho (EBin Concat (ELit (VStr "r=")) (ECall "run" ANil))) (CTCons "E4" (Some "x") (SSeq (SEcho (ELit (VStr "outer4:"))) (SEcho (EMsg (EVar "x")))) (CTCons "Exception" (Some "x") (SSeq (SEcho (ELit (VStr "outerX:"))) (SIf (ESame (EVar "x") (EVar "x")) (SEcho (ELit (VStr "self"))) EINil SSkip)) CTNil)) (SEcho (ELit (VStr "F")))) (SEcho (ELit (VStr "done")))) |}.
Example ex_wf : wf ex_prog = true.
Proof. vm_compute. reflexivity. Qed.
Example ex_clean : clean ex_prog = true.
Proof. vm_compute. reflexivity. Qed.
(* what the real interpreter printed for it is what both interpreters compute *)
Example ex_impl : run_impl5 ex_table 300 ex_prog = ("[tc1:E2/m2fouterX:selfFdone", EndOk).
Proof. vm_compute. reflexivity. Qed.
Example ex_ref : run_ref5 ex_table 300 ex_prog = ("[tc1:E2/m2fouterX:selfFdone", EndOk).
Proof. vm_compute. reflexivity. Qed.

(* rethrow through an outer finally keeps class, message and identity *)
Definition ex_rethrow : prog :=
  {| funcs := []; closures := []; main := (SSeq (SExpr (EAssign "o" (ENew "E2" (ELit (VStr "re"))))) (STry (STry (SThrow (EVar "o")) (CTCons "E1" (Some "e") (SSeq (SEcho (ELit (VStr "inner;"))) (SThrow (EVar "e"))) CTNil) (SEcho (ELit (VStr "f1;")))) (CTCons "E2" (Some "e2") (SSeq (SEcho (ELit (VStr "outer:"))) (SSeq (SEcho (EClass (EVar "e2"))) (SSeq (SEcho (EMsg (EVar "e2"))) (SIf (ESame (EVar "e2") (EVar "o")) (SEcho (ELit (VStr ";same"))) EINil (SEcho (ELit (VStr ";different"))))))) (CTCons "Exception" (Some "e2") (SEcho (ELit (VStr "lost-class"))) CTNil)) (SEcho (ELit (VStr ";f2"))))) |}.
Example ex_rethrow_impl : run_impl5 ex_table 300 ex_rethrow = ("inner;f1;outer:E2re;same;f2", EndOk).
Proof. vm_compute. reflexivity. Qed.

(* the event log of the first program is balanced, and non-trivially so: it contains try/finally events *)
Example ex_events :
  match iexec (cmatch_impl ex_table) (funcs ex_prog) (closures ex_prog) 300 "" (main ex_prog) empty_frame empty_glob with
  | Res _ _ g => (List.length (filter (fun c => match c with CTry => true | _ => false end) (gout g)),
                  List.length (filter (fun c => match c with CFin => true | _ => false end) (gout g)),
                  bal (rev (gout g)) 0)
  | Fuel => (0, 0, None)
  end = (2, 2, Some 0).
Proof. vm_compute. reflexivity. Qed.

(* hypotheses of first_catch / finally_return_overrides are satisfiable *)
Example ex_find : find_catch (cmatch_impl ex_table)
                    (CTCons "E4" None SSkip (CTCons "E1" (Some "e") (SBreak 1) (CTCons "E2" (Some "e") SSkip CTNil)))
                    (VObj 3 "E2" "m") = Some (Some "e", SBreak 1).
Proof. vm_compute. reflexivity. Qed.
Example ex_finally_return :
  iexec no_catch [] [] 10 "f" (SReturn (Some (ELit (VInt 3)))) empty_frame (mark CFin empty_glob)
  = Res (IRet (VInt 3)) empty_frame (mark CFin empty_glob).
Proof. reflexivity. Qed.

(* the exit-status contract is not vacuous: each kind of ending, incl. an exit code above 255 *)
Example ex_cli : map (fun s => exit_code (cli_model s)) [ParseError; Uncaught; ExitCalled 3; ExitCalled 300; NormalEnd]
                 = [1; 1; 3; 44; 0]%Z.
Proof. reflexivity. Qed.
