(* C05 — what this property adds to the interpreter pair of C02 (coq/C02/{Lang,Model,Spec}.v
   already contain try/catch/finally, throw, exception objects and the ghost try/finally events):

   1. the catch-type test of the implementation, node/try.go catchTypeMatches over
      data/type_class.go Class.Is for a *ThrowValue — through C08's model of those walks;
   2. the CLI exit-status decision: zy.go main, cmd/root.go RunScriptFile, runtime/vm.go
      LoadAndRun and the VM's uncaught-control handler, std/php/core/exit.go.
   No proofs in this file. *)
From Coq Require Import List String ZArith Bool.
From V.C02 Require Import Lang Model.
From V.C08 Require Model.
Import ListNotations.
Open Scope string_scope.

Module H := V.C08.Model.

Definition outcome_true (o : H.outcome bool) : bool :=
  match o with H.Ok b => b | _ => false end.

(* Class.Is for a ThrowValue without an object (an internal error): catchable as Throwable,
   Exception or Error only *)
Definition internal_catchable (T : string) : bool :=
  String.eqb T "Throwable" || String.eqb T "Exception" || String.eqb T "Error".

(* catchTypeMatches(exceptionType, cv) *)
Definition cmatch_impl (t : H.table) : catchfn := fun T x =>
  match x with
  | VObj _ cls _ =>
      match H.get_class t cls with
      | Some c => outcome_true (H.catch_matches t T cls c)
      | None => false
      end
  | VErr _ => internal_catchable T
  | _ => false
  end.

Definition run_impl5 (t : H.table) (n : nat) (p : prog) : obs := run_impl (cmatch_impl t) n p.

(* ---------- the command line: how a run of `origami file` ends ---------- *)
Inductive script_end :=
| ParseError                 (* LoadAndRun returns the parser's control *)
| Uncaught                   (* Program.GetValue hands an unhandled control to the VM handler *)
| ExitCalled (code : Z)      (* exit(n) *)
| NormalEnd.

Record cli_obs := { exit_code : Z; diagnostic : bool; output_kept : bool }.

(* main / RunScriptFile / vm.acl / ExitFunction.Call as written (after /repo ce293a8, 7b31d88):
   ParseError:  ShowControl(err) -> stderr; RunScriptFile returns an error; main: os.Exit(1)
   Uncaught:    FlushAllBuffersFn(); ShowControl(acl) -> stderr; os.Exit(1)
   ExitCalled:  FlushAllBuffersFn(); os.Exit(code)        (the OS keeps the low 8 bits)
   NormalEnd:   LoadAndRun flushes the buffers; RunShutdownCallbacks; return nil -> status 0 *)
Definition cli_model (s : script_end) : cli_obs :=
  match s with
  | ParseError => {| exit_code := 1; diagnostic := true; output_kept := true |}
  | Uncaught => {| exit_code := 1; diagnostic := true; output_kept := true |}
  | ExitCalled c => {| exit_code := c mod 256; diagnostic := false; output_kept := true |}
  | NormalEnd => {| exit_code := 0; diagnostic := false; output_kept := true |}
  end.

(* how the interpreter's run of the main script ends, as the CLI sees it *)
Definition end_of (e : ending) : option script_end :=
  match e with EndOk => Some NormalEnd | EndError => Some Uncaught | EndFuel => None end.
