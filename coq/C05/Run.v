(* C05 — correspondence: evaluate ImplSem and RefSem on the programs the real interpreter ran. *)
From Coq Require Import List String ZArith Bool Arith.
From V.C02 Require Import Lang Model Spec Wf.
From V.C05 Require Import Model Spec.
Import ListNotations.
Open Scope string_scope.

Definition FUEL : nat := 4000.

(* the declarations every VM starts with, as far as the catch test looks at them *)
Definition base_classes : list (string * H.cls) :=
  [ ("Exception", {| H.c_extends := None; H.c_impls := ["Throwable"]; H.c_methods := [] |});
    ("Error", {| H.c_extends := None; H.c_impls := ["Throwable"]; H.c_methods := [] |}) ].
Definition base_ifaces : list (string * H.ifc) :=
  [ ("Throwable", {| H.i_extends := []; H.i_methods := [] |}) ].
Definition mk_table (cs : list (string * option string * list string)) (is : list (string * list string)) : H.table :=
  {| H.classes := (map (fun c => (fst (fst c), {| H.c_extends := snd (fst c); H.c_impls := snd c; H.c_methods := [] |})) cs
                   ++ base_classes)%list;
     H.ifaces := (map (fun i => (fst i, {| H.i_extends := snd i; H.i_methods := [] |})) is ++ base_ifaces)%list |}.

(* a case: user classes (name, extends, implements), user interfaces (name, extends), the program,
   what the implementation printed, how it ended (0 normally, 1 uncaught) *)
Definition case := (list (string * option string * list string) * list (string * list string) * prog * string * nat)%type.

Definition ending_code (e : ending) : nat :=
  match e with EndOk => 0 | EndError => 1 | EndFuel => 2 end.
Definition obs_is (o : obs) (out : string) (code : nat) : bool :=
  String.eqb (fst o) out && Nat.eqb (ending_code (snd o)) code.

(* failing clause numbers: 1 = ImplSem vs implementation (tie), 2 = RefSem vs implementation
   (property), 3 = program not wf, 4 = class table not well-formed, 5 = model out of fuel,
   6 = C02's [clean] hook is false (it holds of every program: cannot happen) *)
Definition check_case (c : case) : list nat :=
  let '(cs, is, p, out, code) := c in
  let t := mk_table cs is in
  let mi := run_impl5 t FUEL p in
  let mr := run_ref5 t FUEL p in
  (if obs_is mi out code then [] else [1%nat]) ++
  (if obs_is mr out code then [] else [2%nat]) ++
  (if wf p then [] else [3%nat]) ++
  (if HS.wf t then [] else [4%nat]) ++
  (match snd mi with EndFuel => [5%nat] | _ => [] end) ++
  (if clean p then [] else [6%nat]).

Definition show_case cs is (p : prog) :=
  let t := mk_table cs is in (run_impl5 t FUEL p, run_ref5 t FUEL p, wf p, HS.wf t).

(* the CLI: observed (exit status, stderr non-empty, stdout as expected) against the state machine.
   kind: 0 = parse error, 1 = uncaught, 2 = exit(n) (argument n), 3 = normal end *)
Definition cli_case := (nat * Z * Z * bool * bool)%type.
Definition check_cli (c : cli_case) : list nat :=
  let '(kind, arg, code, diag, kept) := c in
  let s := match kind with 0 => ParseError | 1 => Uncaught | 2 => ExitCalled arg | _ => NormalEnd end in
  let m := cli_model s in
  (if (exit_code m =? code)%Z then [] else [1%nat]) ++
  (if Bool.eqb (diagnostic m) diag || negb (diagnostic m) then [] else [2%nat]) ++
  (if Bool.eqb (output_kept m) kept then [] else [3%nat]).
