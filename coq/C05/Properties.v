(* C05 — the property, clause by clause.  Only statements here; every proof is `exact lemma`. *)
From Coq Require Import List String ZArith Bool.
From V.C02 Require Import Lang Model Spec Wf Proofs.
From V.C05 Require Import Model Spec Proofs.
Import ListNotations.
Open Scope string_scope.

(* "A thrown object is handled by the first catch clause ... whose type is the object's class, an
   ancestor or an implemented interface": (1) the type test the implementation performs
   (catchTypeMatches over the Class.Is walks) decides exactly the declared-hierarchy relation, on
   every well-formed class table, for every type name and every thrown value *)
Theorem catch_type_is_hierarchy_membership : forall t, HS.wf t = true ->
  forall T x, cmatch_impl t T x = cmatch_spec t T x.
Proof. exact cmatch_eq. Qed.
Print Assumptions catch_type_is_hierarchy_membership.

(* (2) the clause chosen is the first accepting one in source order; no clause accepting = none *)
Theorem first_catch_is_first : forall cm cs x,
  match find_catch cm cs x with
  | Some (xv, cb) =>
      exists k ty, nth_catch cs k = Some (ty, xv, cb) /\ cm ty x = true /\
                   forall j ty' xv' cb', j < k -> nth_catch cs j = Some (ty', xv', cb') -> cm ty' x = false
  | None => forall k ty xv cb, nth_catch cs k = Some (ty, xv, cb) -> cm ty x = false
  end.
Proof. exact find_catch_first. Qed.
Print Assumptions first_catch_is_first.

(* (3) "... and the catch variable is that same object": when the try block ends by throwing x and
   the first accepting clause is (xv, cbody), the try statement continues as cbody started in a
   frame in which the catch variable reads x itself (same identity), then the finally part *)
Theorem first_catch : forall cm funs clos n fn b cs f fr g x fr1 g1 xv cbody,
  iexec cm funs clos n fn b fr (mark CTry g) = Res (IThrow x) fr1 g1 ->
  find_catch cm cs x = Some (xv, cbody) ->
  exists fr2 g2,
    (match xv with Some v => wr fn v x fr1 g1 = (fr2, g2) /\ rd fn v fr2 g2 = x | None => fr2 = fr1 /\ g2 = g1 end) /\
    iexec cm funs clos (S n) fn (STry b cs f) fr g = finally_part cm funs clos n fn f (iexec cm funs clos n fn cbody fr2 g2).
Proof. exact first_catch_l. Qed.
Print Assumptions first_catch.

Theorem unmatched_throw_propagates : forall cm funs clos n fn b cs f fr g x fr1 g1,
  iexec cm funs clos n fn b fr (mark CTry g) = Res (IThrow x) fr1 g1 ->
  find_catch cm cs x = None ->
  iexec cm funs clos (S n) fn (STry b cs f) fr g = finally_part cm funs clos n fn f (Res (IThrow x) fr1 g1).
Proof. exact no_catch_l. Qed.
Print Assumptions unmatched_throw_propagates.

(* (4) "innermost try first": a throw caught by a handler that completes, with a finally part that
   completes, ends the try statement normally — no enclosing handler sees it *)
Theorem innermost_try_first : forall cm funs clos n fn b cs f fr g x fr1 g1 xv cbody fr2 g2 fr3 g3 fr4 g4,
  iexec cm funs clos n fn b fr (mark CTry g) = Res (IThrow x) fr1 g1 ->
  find_catch cm cs x = Some (xv, cbody) ->
  (match xv with Some v => wr fn v x fr1 g1 | None => (fr1, g1) end) = (fr2, g2) ->
  iexec cm funs clos n fn cbody fr2 g2 = Res INone fr3 g3 ->
  iexec cm funs clos n fn f fr3 (mark CFin g3) = Res INone fr4 g4 ->
  iexec cm funs clos (S n) fn (STry b cs f) fr g = Res INone fr4 g4.
Proof. exact inner_try_absorbs_l. Qed.
Print Assumptions innermost_try_first.

(* "every finally block whose try was entered runs exactly once before control leaves it, whether
   by fall-through, return, break, continue or throw": for EVERY terminating execution of a try
   statement — any block, any handlers, any ending control c — the events it adds to the log are
   CTry, a balanced segment, CFin, a balanced segment: exactly one CFin matches this CTry and it
   occurs before the statement returns ... *)
Theorem finally_once : forall cm funs clos n fn b cs f fr g c fr' g',
  iexec cm funs clos (S n) fn (STry b cs f) fr g = Res c fr' g' ->
  exists mid fin, gout g' = (fin ++ CFin :: mid ++ CTry :: gout g)%list /\ balanced mid /\ balanced fin.
Proof. exact try_once_l. Qed.
Print Assumptions finally_once.
(* ... and for every statement and every whole script: the event log grows by balanced segments
   only, i.e. at every return every entered try has had its finally part started exactly once *)
Theorem finally_once_everywhere : forall cm funs clos n fn s fr g c fr' g',
  iexec cm funs clos n fn s fr g = Res c fr' g' -> extends g g'.
Proof. exact events_balanced. Qed.
Print Assumptions finally_once_everywhere.
Theorem finally_once_script : forall cm funs clos n p c fr g,
  iexec cm funs clos n "" p empty_frame empty_glob = Res c fr g -> balanced (gout g).
Proof. exact run_balanced_l. Qed.
Print Assumptions finally_once_script.

(* "a return in finally overrides" (as does any jump or throw out of the finally part); a finally
   part that completes normally leaves the pending control untouched *)
Theorem finally_return_overrides : forall cm funs clos n fn f pending fr3 g3 cf fr4 g4,
  iexec cm funs clos n fn f fr3 (mark CFin g3) = Res cf fr4 g4 -> cf <> INone ->
  finally_part cm funs clos n fn f (Res pending fr3 g3) = Res cf fr4 g4.
Proof. exact finally_overrides_l. Qed.
Print Assumptions finally_return_overrides.
Theorem finally_keeps_pending : forall cm funs clos n fn f pending fr3 g3 fr4 g4,
  iexec cm funs clos n fn f fr3 (mark CFin g3) = Res INone fr4 g4 ->
  finally_part cm funs clos n fn f (Res pending fr3 g3) = Res pending fr4 g4.
Proof. exact finally_keeps_l. Qed.
Print Assumptions finally_keeps_pending.

(* the implementation's interpreter = the reference interpreter on the exception fragment too:
   every wf program over every well-formed class table, every fuel (no defect class is excluded:
   C02's [clean] holds of every program since /repo 1b0c649) *)
Theorem impl_refines_ref_exn : forall t, HS.wf t = true ->
  forall fuel p, wf p = true -> run_impl5 t fuel p = run_ref5 t fuel p.
Proof. exact impl_refines_ref_exn_l. Qed.
Print Assumptions impl_refines_ref_exn.

(* "A script that ends with an uncaught throwable, or whose source does not parse, prints a
   diagnostic and exits with a non-zero status after flushing earlier output." *)
Theorem uncaught_is_error : forall cm funs clos n p x fr g,
  iexec cm funs clos n "" p empty_frame empty_glob = Res (IThrow x) fr g ->
  irun cm funs clos n p = (output g, EndError).
Proof. exact uncaught_is_error_l. Qed.
Print Assumptions uncaught_is_error.
Theorem exit_status : forall s,
  exit_ok (is_failure s) (requested s) (exit_code (cli_model s)) (diagnostic (cli_model s)) (output_kept (cli_model s)).
Proof. exact exit_status_l. Qed.
Print Assumptions exit_status.
