(* C05 — the property, independent of the model's state:

   "A thrown object is handled by the first catch clause, innermost try first, whose type is the
    object's class, an ancestor or an implemented interface, and the catch variable is that same
    object; every finally block whose try was entered runs exactly once before control leaves it,
    whether by fall-through, return, break, continue or throw, and a return in finally overrides.
    A script that ends with an uncaught throwable, or whose source does not parse, prints a
    diagnostic and exits with a non-zero status after flushing earlier output."

   The reference interpreter is C02's RefSem (RTry / RThrowSt in coq/C02/Spec.v); here: the
   catch-type relation over the declared hierarchy, what "exactly once" means on the event log,
   and the exit-status contract. *)
From Coq Require Import List String ZArith Bool.
From V.C02 Require Import Lang Spec.
From V.C08 Require Model Spec.
Import ListNotations.
Open Scope string_scope.

Module H := V.C08.Model.
Module HS := V.C08.Spec.

(* `catch (T ...)` accepts an object of class cls iff T is cls, an ancestor, or an interface
   reachable through implements/extends edges (C08's relation, in its computed form; C08 proves
   is_ab = the inductive is_a on well-formed tables).  `Throwable` accepts every Exception and
   Error.  An internal error (no object) is an Exception. *)
Definition cmatch_spec (t : H.table) : catchfn := fun T x =>
  match x with
  | VObj _ cls _ =>
      match H.get_class t cls with
      | Some _ =>
          HS.is_ab t cls T ||
          (String.eqb T "Throwable" && (HS.is_ab t cls "Exception" || HS.is_ab t cls "Error"))
      | None => false
      end
  | VErr _ => String.eqb T "Throwable" || String.eqb T "Exception" || String.eqb T "Error"
  | _ => false
  end.

Definition run_ref5 (t : H.table) (n : nat) (p : prog) : obs := run_ref (cmatch_spec t) n p.

(* ---------- "exactly once": the event log is a well-bracketed sequence ----------
   CTry is recorded when a try statement is entered, CFin when its finally part starts.  Read
   oldest first with a depth counter: every CFin closes the innermost open CTry.  A segment is
   balanced when, from any depth d, it never closes more than it opened and ends at d again:
   then every CTry in it has exactly one matching CFin inside the segment. *)
Fixpoint bal (l : list chunk) (d : nat) : option nat :=
  match l with
  | [] => Some d
  | COut _ :: r => bal r d
  | CTry :: r => bal r (S d)
  | CFin :: r => match d with O => None | S d' => bal r d' end
  end.
(* segments of the log are kept newest first *)
Definition balanced (seg : list chunk) : Prop := forall d, bal (rev seg) d = Some d.
(* the log of g' extends the log of g by a balanced segment *)
Definition extends (g g' : glob) : Prop := exists seg, gout g' = (seg ++ gout g)%list /\ balanced seg.

(* ---------- the command line ---------- *)
(* what the property demands of each way a run can end *)
Definition exit_ok (failed : bool) (requested : option Z) (code : Z) (diag kept : bool) : Prop :=
  kept = true /\
  (failed = true -> code <> 0%Z /\ diag = true) /\
  (failed = false -> match requested with Some c => code = (c mod 256)%Z | None => code = 0%Z end).
