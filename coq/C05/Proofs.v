(* C05 — lemmas. *)
From Coq Require Import List String ZArith Bool Arith Lia.
From V.C02 Require Import Lang Model Spec Wf Proofs.
From V.C08 Require Model Spec Properties.
From V.C05 Require Import Model Spec.
Import ListNotations.
Open Scope string_scope.

Module HP := V.C08.Properties.

(* ---------- the implementation's catch-type walk decides the declared-hierarchy relation ---------- *)
Lemma bool_iff_eq (a b : bool) : (a = true <-> b = true) -> a = b.
Proof.
  destruct a, b; intros [H1 H2]; auto.
  symmetry. apply H1. reflexivity.
Qed.

Lemma cmatch_eq t : HS.wf t = true -> forall T x, cmatch_impl t T x = cmatch_spec t T x.
Proof.
  intros W0 T x. assert (W : HS.closed t = true /\ HS.acyclic t = true).
  { unfold HS.wf in W0. apply andb_prop in W0 as [W0 _]. apply andb_prop in W0. exact W0. }
  destruct W as [Wc Wa]. destruct x; try reflexivity. unfold cmatch_impl, cmatch_spec.
  destruct (H.get_class t cls) as [c|] eqn:G; [|reflexivity].
  destruct (String.eqb T "Throwable") eqn:ET.
  - apply String.eqb_eq in ET. subst T.
    destruct (HP.catch_throwable t cls c Wc Wa G) as (b & -> & Hb). simpl.
    apply bool_iff_eq. rewrite Hb.
    rewrite !orb_true_iff.
    rewrite (HP.is_ab_is_a t cls c "Throwable" Wc Wa G), (HP.is_ab_is_a t cls c "Exception" Wc Wa G),
            (HP.is_ab_is_a t cls c "Error" Wc Wa G). tauto.
  - assert (NT : T <> "Throwable") by (intros ->; rewrite String.eqb_refl in ET; discriminate).
    destruct (HP.catch_reach t cls c T Wc Wa G NT) as (b & -> & Hb). simpl.
    rewrite orb_false_r. apply bool_iff_eq. rewrite Hb. symmetry. apply (HP.is_ab_is_a t cls c T Wc Wa G).
Qed.

Lemma impl_refines_ref_exn_l : forall t, HS.wf t = true ->
  forall fuel p, wf p = true -> run_impl5 t fuel p = run_ref5 t fuel p.
Proof. intros t W fuel p Wp. apply impl_refines_ref_wf_l; auto. apply cmatch_eq. exact W. Qed.

(* ---------- balanced event segments ---------- *)
Lemma bal_app a b d : bal (a ++ b)%list d = match bal a d with Some d' => bal b d' | None => None end.
Proof.
  revert d. induction a as [|c a IH]; intros d; simpl; [reflexivity|].
  destruct c; auto. destruct d; auto.
Qed.
Lemma balanced_nil : balanced [].
Proof. intros d. reflexivity. Qed.
Lemma balanced_app older newer : balanced older -> balanced newer -> balanced (newer ++ older)%list.
Proof. intros H1 H2 d. rewrite rev_app_distr, bal_app, H1. apply H2. Qed.
Lemma balanced_out s : balanced [COut s].
Proof. intros d. reflexivity. Qed.
(* entering a try, running block and handler, starting the finally part, running it *)
Lemma balanced_try mid fin : balanced mid -> balanced fin ->
  balanced (fin ++ CFin :: mid ++ [CTry])%list.
Proof.
  intros H1 H2 d. rewrite rev_app_distr. simpl. rewrite rev_app_distr. simpl.
  rewrite <- !app_assoc. simpl. rewrite bal_app, H1. simpl. apply H2.
Qed.

Lemma extends_refl g : extends g g.
Proof. exists []. split; [reflexivity|apply balanced_nil]. Qed.
Lemma extends_trans g1 g2 g3 : extends g1 g2 -> extends g2 g3 -> extends g1 g3.
Proof.
  intros (s1 & E1 & B1) (s2 & E2 & B2). exists (s2 ++ s1)%list. split.
  - rewrite E2, E1, app_assoc. reflexivity.
  - apply balanced_app; assumption.
Qed.
Lemma extends_same g g' : gout g' = gout g -> extends g g'.
Proof. intros E. exists []. split; [exact E|apply balanced_nil]. Qed.
Lemma extends_emit s g : extends g (emit s g).
Proof. exists [COut s]. split; [reflexivity|apply balanced_out]. Qed.
Lemma extends_bump g : extends g (bump g).
Proof. apply extends_same. reflexivity. Qed.
Lemma extends_set_stat st g : extends g (set_stat st g).
Proof. apply extends_same. reflexivity. Qed.
Lemma extends_set_prop i v g : extends g (set_prop i v g).
Proof. apply extends_same. reflexivity. Qed.
Lemma wr_extends fn x v fr g fr' g' : wr fn x v fr g = (fr', g') -> extends g g'.
Proof.
  unfold wr. destruct (mem x (snd fr)); intros [= <- <-]; [apply extends_set_stat|apply extends_refl].
Qed.
Lemma extends_try g g1 g3 g4 :
  extends (mark CTry g) g1 -> extends g1 g3 -> extends (mark CFin g3) g4 -> extends g g4.
Proof.
  intros (sb & Eb & Bb) (sc & Ec & Bc) (sf & Ef & Bf).
  exists (sf ++ CFin :: (sc ++ sb) ++ [CTry])%list. split.
  - rewrite Ef. change (gout (mark CFin g3)) with (CFin :: gout g3). rewrite Ec, Eb.
    change (gout (mark CTry g)) with (CTry :: gout g).
    repeat (rewrite <- app_assoc; simpl). reflexivity.
  - apply balanced_try; [apply balanced_app|]; assumption.
Qed.

Ltac brk H :=
  match type of H with
  | context [match ?x with _ => _ end] => destruct x eqn:?; try discriminate H
  end.
(* follow the chain of log extensions from the start state to the end state *)
Ltac chain :=
  match goal with
  | |- extends ?a ?a => apply extends_refl
  | H : extends ?a ?b |- extends ?a ?b => exact H
  | |- extends ?a (emit _ ?b) => apply (extends_trans a b); [chain | apply extends_emit]
  | |- extends ?a (bump ?b) => apply (extends_trans a b); [chain | apply extends_bump]
  | |- extends ?a (set_stat _ ?b) => apply (extends_trans a b); [chain | apply extends_set_stat]
  | |- extends ?a (set_prop _ _ ?b) => apply (extends_trans a b); [chain | apply extends_set_prop]
  | H : extends ?a ?m |- extends ?a ?b => apply (extends_trans a m b H); chain
  end.
Ltac fin_ext :=
  repeat match goal with
  | H : Res _ _ _ = Res _ _ _ |- _ => inversion H; subst; clear H
  | W : wr _ _ _ _ _ = (_, _) |- _ => apply wr_extends in W
  end;
  repeat match goal with H : extends ?x ?x |- _ => clear H end;
  chain.

Section Events.
Variable funs : list fundef.
Variable clos : list clodef.
Variable fn : string.
Variable cf : callfn.
Hypothesis Hcf : forall c vs g o g', cf c vs g = Some (o, g') -> extends g g'.

Ltac use_ih :=
  repeat match goal with
  | IH : forall fr g o fr' g', ieval _ _ _ _ ?a fr g = Res o fr' g' -> extends g g',
    E : ieval _ _ _ _ ?a _ _ = Res _ _ _ |- _ => apply IH in E
  | IH : forall fr g o fr' g', ieval_args _ _ _ _ ?a fr g = Res o fr' g' -> extends g g',
    E : ieval_args _ _ _ _ ?a _ _ = Res _ _ _ |- _ => apply IH in E
  | IH : forall v fr g o fr' g', ieval_conds _ _ _ _ v ?a fr g = Res o fr' g' -> extends g g',
    E : ieval_conds _ _ _ _ _ ?a _ _ = Res _ _ _ |- _ => apply IH in E
  | IH : forall v fr g o fr' g', ieval_arms _ _ _ _ v ?a fr g = Res o fr' g' -> extends g g',
    E : ieval_arms _ _ _ _ _ ?a _ _ = Res _ _ _ |- _ => apply IH in E
  | IH : forall ok xs seen fr g o fr' g', ieval_nargs _ _ _ _ ok xs seen ?a fr g = Res o fr' g' -> extends g g',
    E : ieval_nargs _ _ _ _ _ _ _ ?a _ _ = Res _ _ _ |- _ => apply IH in E
  | E : cf _ _ _ = Some (_, _) |- _ => apply Hcf in E
  end.

Ltac the_eq tac := match goal with E : _ = Res _ _ _ |- _ => tac E end.
Ltac solve_eq := the_eq ltac:(fun E => repeat brk E); use_ih; fin_ext.

Lemma ieval_extends_both :
  (forall e, forall fr g o fr' g', ieval cf funs clos fn e fr g = Res o fr' g' -> extends g g') /\
  (forall a, (forall fr g o fr' g', ieval_args cf funs clos fn a fr g = Res o fr' g' -> extends g g') /\
             (forall v fr g o fr' g', ieval_conds cf funs clos fn v a fr g = Res o fr' g' -> extends g g') /\
             (forall ok xs seen fr g o fr' g', ieval_nargs cf funs clos fn ok xs seen a fr g = Res o fr' g' -> extends g g')) /\
  (forall m, forall v fr g o fr' g', ieval_arms cf funs clos fn v m fr g = Res o fr' g' -> extends g g').
Proof.
  apply expr_args_ind; intros;
    repeat match goal with H : _ /\ _ |- _ => destruct H end.
  - the_eq ltac:(fun E => inversion E); subst. apply extends_refl.
  - the_eq ltac:(fun E => inversion E); subst. apply extends_refl.
  - (* EBin *)
    the_eq ltac:(fun E => rewrite ieval_bin in E).
    assert (S : forall r, islow funs clos fn cf o a b fr g = Res r fr' g' -> extends g g').
    { unfold islow. intros r S. repeat brk S; use_ih; fin_ext. }
    destruct o; try (eapply S; eassumption).
    destruct (var_int_le fn a b fr g); [the_eq ltac:(fun E => inversion E); subst; apply extends_refl|eapply S; eassumption].
  - the_eq ltac:(fun E => rewrite ieval_not in E). solve_eq.
  - the_eq ltac:(fun E => rewrite ieval_and in E). solve_eq.
  - the_eq ltac:(fun E => rewrite ieval_or in E). solve_eq.
  - the_eq ltac:(fun E => rewrite ieval_assign in E). solve_eq.
  - (* EPostInc *)
    the_eq ltac:(fun E => change (ieval cf funs clos fn (EPostInc x) fr g) with
      (let '(nv, ov) := incr_value (rd fn x fr g) in
       let '(fr', g') := wr fn x nv fr g in Res (EV ov) fr' g') in E).
    solve_eq.
  - the_eq ltac:(fun E => rewrite ieval_arr in E). solve_eq.
  - the_eq ltac:(fun E => rewrite ieval_call in E). solve_eq.
  - the_eq ltac:(fun E => rewrite ieval_new in E). solve_eq.
  - the_eq ltac:(fun E => rewrite ieval_msg in E). solve_eq.
  - the_eq ltac:(fun E => rewrite ieval_class in E). solve_eq.
  - the_eq ltac:(fun E => rewrite ieval_same in E). solve_eq.
  - the_eq ltac:(fun E => inversion E); subst. apply extends_refl.
  - (* EIdx *) the_eq ltac:(fun E => rewrite ieval_idx in E). solve_eq.
  - (* EIdxInc *) the_eq ltac:(fun E => rewrite ieval_idxinc in E). solve_eq.
  - (* EClosure *) the_eq ltac:(fun E => rewrite ieval_closure in E). solve_eq.
  - (* ECallV *) the_eq ltac:(fun E => rewrite ieval_callv in E). solve_eq.
  - (* EProp *) the_eq ltac:(fun E => rewrite ieval_prop in E). solve_eq.
  - (* ESetProp *) the_eq ltac:(fun E => rewrite ieval_setprop in E). solve_eq.
  - (* EHi *) the_eq ltac:(fun E => rewrite ieval_hi in E). solve_eq.
  - (* EMatch *) the_eq ltac:(fun E => rewrite ieval_match in E). solve_eq.
  - (* ECallN *) the_eq ltac:(fun E => rewrite ieval_calln in E). solve_eq.
  - (* ANil *)
    split; [|split]; intros; [|the_eq ltac:(fun E => rewrite ieval_conds_nil in E)|the_eq ltac:(fun E => rewrite ieval_nargs_nil in E)];
      the_eq ltac:(fun E => inversion E); subst; apply extends_refl.
  - (* ACons *)
    split; [|split]; intros.
    + the_eq ltac:(fun E => rewrite ieval_args_cons in E). solve_eq.
    + the_eq ltac:(fun E => rewrite ieval_conds_cons in E). solve_eq.
    + the_eq ltac:(fun E => rewrite ieval_nargs_cons in E). solve_eq.
  - (* MNil *) the_eq ltac:(fun E => rewrite ieval_arms_nil in E; inversion E); subst. apply extends_refl.
  - (* MDefault *) the_eq ltac:(fun E => rewrite ieval_arms_default in E). use_ih. assumption.
  - (* MCons *) the_eq ltac:(fun E => rewrite ieval_arms_cons in E). solve_eq.
Qed.
End Events.

Section Events2.
Variable funs : list fundef.
Variable clos : list clodef.
Variable fn : string.
Variable cf : callfn.
Hypothesis Hcf : forall c vs g o g', cf c vs g = Some (o, g') -> extends g g'.

Lemma ieval_extends e fr g o fr' g' : ieval cf funs clos fn e fr g = Res o fr' g' -> extends g g'.
Proof. apply (proj1 (ieval_extends_both funs clos fn cf Hcf)). Qed.
Lemma icond_extends c fr g o fr' g' : icond cf funs clos fn c fr g = Res o fr' g' -> extends g g'.
Proof.
  unfold icond. intros H. destruct (ieval cf funs clos fn c fr g) as [|[v|x] f1 g1] eqn:E; try discriminate;
    apply ieval_extends in E; inversion H; subst; exact E.
Qed.
Lemma icond_for_extends c fr g o fr' g' : icond_for cf funs clos fn c fr g = Res o fr' g' -> extends g g'.
Proof.
  rewrite (bool_test_sound_l cf funs clos fn c fr g). apply icond_extends.
Qed.
Lemma ieval_each_extends a : forall fr g o fr' g', ieval_each cf funs clos fn a fr g = Res o fr' g' -> extends g g'.
Proof.
  induction a; intros fr g o fr' g' H; simpl in H.
  - inversion H; subst. apply extends_refl.
  - destruct (ieval cf funs clos fn e fr g) as [|[v|x] f1 g1] eqn:E; try discriminate; apply ieval_extends in E.
    + apply IHa in H. eapply extends_trans; eauto.
    + inversion H; subst. exact E.
Qed.
Lemma ieval_incs_extends a fr g o fr' g' : ieval_incs cf funs clos fn a fr g = Res o fr' g' -> extends g g'.
Proof. rewrite (stmt_incr_sound_l cf funs clos fn a fr g). apply ieval_each_extends. Qed.
End Events2.

(* ---------- every terminating execution of the implementation's interpreter extends the
   event log by a balanced segment ---------- *)
Section EventsStmt.
Variable cm : catchfn.
Variable funs : list fundef.
Variable clos : list clodef.

Definition Q (n : nat) := forall fn s fr g c fr' g',
  iexec cm funs clos n fn s fr g = Res c fr' g' -> extends g g'.

Lemma icallf_extends n : Q n -> forall c vs g o g', icallf cm funs clos n c vs g = Some (o, g') -> extends g g'.
Proof.
  intros IH c vs g o g' H. unfold icallf in H. destruct c as [f|id oid cap].
  - destruct (find_fun funs f) as [d|]; [|inversion H; subst; apply extends_refl].
    destruct (enough_args (fparams d) vs); [|inversion H; subst; apply extends_refl].
    destruct (iexec cm funs clos n f (fbody d) (bind_params (fparams d) vs [], []) g) as [|c fr1 g1] eqn:E; [discriminate|].
    apply IH in E. inversion H; subst. exact E.
  - destruct (nth_error clos id) as [cd|]; [|inversion H; subst; apply extends_refl].
    destruct (enough_args (cparams cd) vs); [|inversion H; subst; apply extends_refl].
    destruct (iexec cm funs clos n (clo_name oid) (cbody cd) (bind_captured cap (bind_params (cparams cd) vs []), []) g) as [|c fr1 g1] eqn:E; [discriminate|].
    apply IH in E. inversion H; subst. exact E.
Qed.

Section Step.
Variable n : nat.
Hypothesis IH : Q n.
Let Hcf := icallf_extends n IH.

Ltac use_all :=
  repeat match goal with
  | E : iexec cm funs clos n _ _ _ _ = Res _ _ _ |- _ => apply IH in E
  | E : ieval (icallf cm funs clos n) funs clos _ _ _ _ = Res _ _ _ |- _ => apply (ieval_extends funs clos _ _ Hcf) in E
  | E : icond (icallf cm funs clos n) funs clos _ _ _ _ = Res _ _ _ |- _ => apply (icond_extends funs clos _ _ Hcf) in E
  | E : icond_for (icallf cm funs clos n) funs clos _ _ _ _ = Res _ _ _ |- _ => apply (icond_for_extends funs clos _ _ Hcf) in E
  | E : ieval_each (icallf cm funs clos n) funs clos _ _ _ _ = Res _ _ _ |- _ => apply (ieval_each_extends funs clos _ _ Hcf) in E
  | E : ieval_incs (icallf cm funs clos n) funs clos _ _ _ _ = Res _ _ _ |- _ => apply (ieval_incs_extends funs clos _ _ Hcf) in E
  end.

Lemma ielif_extends fn e ei : forall fr g c fr' g',
  ielif cm funs clos n fn e ei fr g = Res c fr' g' -> extends g g'.
Proof.
  induction ei as [|c0 b r IHr]; intros fr g c fr' g' H; cbn [ielif] in H.
  - use_all. exact H.
  - unfold thr in H. repeat brk H; use_all;
      try (match type of H with ielif _ _ _ _ _ _ _ _ _ = _ => apply IHr in H end); fin_ext.
Qed.
Lemma ieach_extends fn k v b : forall items fr g c fr' g',
  ieach cm funs clos n fn k v b items fr g = Res c fr' g' -> extends g g'.
Proof.
  induction items as [|[kv vv] r IHr]; intros fr g c fr' g' H; cbn [ieach] in H.
  - inversion H; subst. apply extends_refl.
  - destruct k; repeat brk H; use_all;
      try (match type of H with ieach _ _ _ _ _ _ _ _ _ _ _ = _ => apply IHr in H end); fin_ext.
Qed.
Lemma irunc_extends fn : forall l fr g c fr' g',
  irunc cm funs clos n fn l fr g = Res c fr' g' -> extends g g'.
Proof.
  induction l as [|e b r IHr|b r IHr]; intros fr g c fr' g' H; cbn [irunc] in H.
  - inversion H; subst. apply extends_refl.
  - repeat brk H; use_all; try (match type of H with irunc _ _ _ _ _ _ _ _ = _ => apply IHr in H end); fin_ext.
  - repeat brk H; use_all; try (match type of H with irunc _ _ _ _ _ _ _ _ = _ => apply IHr in H end); fin_ext.
Qed.
Lemma icases_extends fn cl cv : forall l fr g c fr' g',
  icases cm funs clos n fn cl cv l fr g = Res c fr' g' -> extends g g'.
Proof.
  induction l as [|e b r IHr|b r IHr]; intros fr g c fr' g' H; cbn [icases] in H.
  - apply irunc_extends in H. exact H.
  - repeat brk H; use_all;
      try (match type of H with irunc _ _ _ _ _ _ _ _ = _ => apply irunc_extends in H end);
      try (match type of H with icases _ _ _ _ _ _ _ _ _ _ = _ => apply IHr in H end); fin_ext.
  - apply IHr in H. exact H.
Qed.

Lemma events_step : Q (S n).
Proof.
  intros fn s fr g c fr' g' H. destruct s.
  - rewrite iexec_skip in H. fin_ext.
  - rewrite iexec_seq in H. repeat brk H; use_all; fin_ext.
  - rewrite iexec_expr in H. repeat brk H; use_all; fin_ext.
  - rewrite iexec_echo in H. repeat brk H; use_all; fin_ext.
  - rewrite iexec_push in H. repeat brk H; use_all; fin_ext.
  - rewrite iexec_setidx in H. repeat brk H; use_all; fin_ext.
  - rewrite iexec_if in H. unfold thr in H. repeat brk H; use_all;
      try (match type of H with ielif _ _ _ _ _ _ _ _ _ = _ => apply ielif_extends in H end); fin_ext.
  - rewrite iexec_while in H. unfold thr in H. repeat brk H; use_all; fin_ext.
  - rewrite iexec_dowhile in H. unfold thr in H. repeat brk H; use_all; fin_ext.
  - rewrite iexec_for in H. unfold thr in H. repeat brk H; use_all; fin_ext.
  - rewrite iexec_foreach in H. repeat brk H; use_all;
      try (match type of H with ieach _ _ _ _ _ _ _ _ _ _ _ = _ => apply ieach_extends in H end); fin_ext.
  - rewrite iexec_switch in H. repeat brk H; use_all;
      try (match type of H with icases _ _ _ _ _ _ _ _ _ _ = _ => apply icases_extends in H end); fin_ext.
  - rewrite iexec_break in H. fin_ext.
  - rewrite iexec_continue in H. fin_ext.
  - destruct e; [rewrite iexec_return in H|rewrite iexec_return_none in H]; repeat brk H; use_all; fin_ext.
  - rewrite iexec_static in H. cbv zeta in H. repeat brk H; fin_ext.
  - (* STry *)
    rewrite iexec_try in H.
    destruct (iexec cm funs clos n fn s1 fr (mark CTry g)) as [|cb fr1 g1] eqn:Eb; [discriminate|].
    apply IH in Eb.
    match type of H with match ?x with _ => _ end = _ => destruct x as [|c3 fr3 g3] eqn:Ec; [discriminate|] end.
    assert (X : extends g1 g3).
    { destruct cb; try (inversion Ec; subst; apply extends_refl).
      destruct (find_catch cm cs v) as [[xv cbody]|]; [|inversion Ec; subst; apply extends_refl].
      destruct xv as [xn|].
      - destruct (wr fn xn v fr1 g1) as [fr2 g2] eqn:W. apply wr_extends in W. apply IH in Ec.
        eapply extends_trans; eauto.
      - apply IH in Ec. exact Ec. }
    destruct (iexec cm funs clos n fn s2 fr3 (mark CFin g3)) as [|cf fr4 g4] eqn:Ef; [discriminate|].
    apply IH in Ef.
    assert (G : g' = g4) by (destruct cf; inversion H; reflexivity). subst g'.
    eapply extends_try; eauto.
  - rewrite iexec_throw in H. repeat brk H; use_all; fin_ext.
  - rewrite iexec_ifinst in H. repeat brk H; use_all; fin_ext.
Qed.
End Step.

Lemma events_balanced : forall n, Q n.
Proof.
  induction n as [|n IHn].
  - intros fn s fr g c fr' g' H. rewrite iexec_0 in H. discriminate.
  - apply events_step. exact IHn.
Qed.
End EventsStmt.

(* ---------- the try statement, clause by clause (ImplSem) ---------- *)
Section TryLemmas.
Variable cm : catchfn.
Variable funs : list fundef.
Variable clos : list clodef.

(* what TryStatement.GetValue does once the block has ended with control cb *)
Definition after_block (n : nat) (fn : string) (cs : catches) (cb : ictl) (fr1 : frame) (g1 : glob) : res ictl :=
  match cb with
  | IThrow x =>
      match find_catch cm cs x with
      | Some (xv, cbody) =>
          let '(fr2, g2) := match xv with Some v => wr fn v x fr1 g1 | None => (fr1, g1) end in
          iexec cm funs clos n fn cbody fr2 g2
      | None => Res cb fr1 g1
      end
  | _ => Res cb fr1 g1
  end.
Definition finally_part (n : nat) (fn : string) (f : stmt) (r : res ictl) : res ictl :=
  match r with
  | Fuel => Fuel
  | Res c fr3 g3 =>
      match iexec cm funs clos n fn f fr3 (mark CFin g3) with
      | Fuel => Fuel
      | Res INone fr4 g4 => Res c fr4 g4
      | Res cf fr4 g4 => Res cf fr4 g4
      end
  end.
Lemma try_unfold n fn b cs f fr g :
  iexec cm funs clos (S n) fn (STry b cs f) fr g =
  match iexec cm funs clos n fn b fr (mark CTry g) with
  | Fuel => Fuel
  | Res cb fr1 g1 => finally_part n fn f (after_block n fn cs cb fr1 g1)
  end.
Proof. rewrite iexec_try. reflexivity. Qed.

(* the k-th catch clause *)
Fixpoint nth_catch (cs : catches) (k : nat) : option (string * option string * stmt) :=
  match cs, k with
  | CTNil, _ => None
  | CTCons ty xv b _, O => Some (ty, xv, b)
  | CTCons _ _ _ r, S k' => nth_catch r k'
  end.

(* find_catch returns the FIRST clause, in source order, whose type accepts the thrown value *)
Lemma find_catch_first cs x :
  match find_catch cm cs x with
  | Some (xv, cb) =>
      exists k ty, nth_catch cs k = Some (ty, xv, cb) /\ cm ty x = true /\
                   forall j ty' xv' cb', j < k -> nth_catch cs j = Some (ty', xv', cb') -> cm ty' x = false
  | None => forall k ty xv cb, nth_catch cs k = Some (ty, xv, cb) -> cm ty x = false
  end.
Proof.
  induction cs as [|ty xv b r IH]; cbn [find_catch].
  - intros k ty xv cb H. destruct k; discriminate.
  - destruct (cm ty x) eqn:E.
    + exists 0, ty. split; [reflexivity|]. split; [exact E|]. intros j ? ? ? Hj. lia.
    + destruct (find_catch cm r x) as [[xv1 cb1]|].
      * destruct IH as (k & ty1 & Hk & Hm & Hfirst). exists (S k), ty1. split; [exact Hk|]. split; [exact Hm|].
        intros j ty' xv' cb' Hj Hn. destruct j; simpl in Hn.
        -- inversion Hn; subst. exact E.
        -- eapply Hfirst; [|exact Hn]. lia.
      * intros k ty1 xv1 cb1 Hn. destruct k; simpl in Hn.
        -- inversion Hn; subst. exact E.
        -- eapply IH; eauto.
Qed.

(* reading back what was just written *)
Lemma lookup_update x v e : lookup x (update x v e) = v.
Proof.
  induction e as [|[y w] r IH]; simpl.
  - rewrite String.eqb_refl. reflexivity.
  - destruct (String.eqb x y) eqn:E; simpl; rewrite E; auto.
Qed.
Lemma skey_eqb_refl k : skey_eqb k k = true.
Proof. unfold skey_eqb. rewrite !String.eqb_refl. reflexivity. Qed.
Lemma sget_sset k v s : sget k (sset k v s) = Some v.
Proof.
  induction s as [|[k' w] r IH]; simpl.
  - rewrite skey_eqb_refl. reflexivity.
  - destruct (skey_eqb k k') eqn:E; simpl; rewrite E; auto.
Qed.
Lemma rd_wr fn x v fr g fr' g' : wr fn x v fr g = (fr', g') -> rd fn x fr' g' = v.
Proof.
  unfold wr, rd. destruct (mem x (snd fr)) eqn:M; intros [= <- <-]; simpl; rewrite M.
  - unfold set_stat, gstat. simpl. rewrite sget_sset. reflexivity.
  - apply lookup_update.
Qed.

(* "... handled by the first catch clause whose type [accepts it], and the catch variable is that
   same object": when the block throws x and clause k is the first accepting one, the statement
   continues as that clause's body, started in a frame where the catch variable reads x *)
Lemma first_catch_l n fn b cs f fr g x fr1 g1 xv cbody :
  iexec cm funs clos n fn b fr (mark CTry g) = Res (IThrow x) fr1 g1 ->
  find_catch cm cs x = Some (xv, cbody) ->
  exists fr2 g2,
    (match xv with Some v => wr fn v x fr1 g1 = (fr2, g2) /\ rd fn v fr2 g2 = x | None => fr2 = fr1 /\ g2 = g1 end) /\
    iexec cm funs clos (S n) fn (STry b cs f) fr g = finally_part n fn f (iexec cm funs clos n fn cbody fr2 g2).
Proof.
  intros Hb Hf. rewrite try_unfold, Hb. unfold after_block. rewrite Hf.
  destruct xv as [v|].
  - destruct (wr fn v x fr1 g1) as [fr2 g2] eqn:W. exists fr2, g2. split; [|reflexivity].
    split; [reflexivity|]. eapply rd_wr; eauto.
  - exists fr1, g1. split; [split; reflexivity|reflexivity].
Qed.
(* no clause accepts it: the throw stays pending while the finally part runs *)
Lemma no_catch_l n fn b cs f fr g x fr1 g1 :
  iexec cm funs clos n fn b fr (mark CTry g) = Res (IThrow x) fr1 g1 ->
  find_catch cm cs x = None ->
  iexec cm funs clos (S n) fn (STry b cs f) fr g = finally_part n fn f (Res (IThrow x) fr1 g1).
Proof. intros Hb Hf. rewrite try_unfold, Hb. unfold after_block. rewrite Hf. reflexivity. Qed.
(* "innermost try first": an exception caught by a handler that completes normally, with a finally
   part that completes normally, does not reach any enclosing statement *)
Lemma inner_try_absorbs_l n fn b cs f fr g x fr1 g1 xv cbody fr2 g2 fr3 g3 fr4 g4 :
  iexec cm funs clos n fn b fr (mark CTry g) = Res (IThrow x) fr1 g1 ->
  find_catch cm cs x = Some (xv, cbody) ->
  (match xv with Some v => wr fn v x fr1 g1 | None => (fr1, g1) end) = (fr2, g2) ->
  iexec cm funs clos n fn cbody fr2 g2 = Res INone fr3 g3 ->
  iexec cm funs clos n fn f fr3 (mark CFin g3) = Res INone fr4 g4 ->
  iexec cm funs clos (S n) fn (STry b cs f) fr g = Res INone fr4 g4.
Proof.
  intros Hb Hf Hw Hc Hfin. rewrite try_unfold, Hb. unfold after_block. rewrite Hf, Hw, Hc.
  unfold finally_part. rewrite Hfin. reflexivity.
Qed.

(* "a return in finally overrides" — and so does any other jump or throw out of the finally part:
   whatever was pending (nothing, a return value, a break, an exception) is replaced *)
Lemma finally_overrides_l n fn f pending fr3 g3 cf fr4 g4 :
  iexec cm funs clos n fn f fr3 (mark CFin g3) = Res cf fr4 g4 -> cf <> INone ->
  finally_part n fn f (Res pending fr3 g3) = Res cf fr4 g4.
Proof. intros H N. unfold finally_part. rewrite H. destruct cf; try reflexivity. contradiction. Qed.
(* a finally part that completes normally leaves the pending control as it was *)
Lemma finally_keeps_l n fn f pending fr3 g3 fr4 g4 :
  iexec cm funs clos n fn f fr3 (mark CFin g3) = Res INone fr4 g4 ->
  finally_part n fn f (Res pending fr3 g3) = Res pending fr4 g4.
Proof. intros H. unfold finally_part. rewrite H. reflexivity. Qed.

(* "every finally block whose try was entered runs exactly once before control leaves it": the log
   segment of ONE execution of a try statement, however it ends, is
       CTry, <balanced>, CFin, <balanced>
   so the CFin matching this CTry exists, is unique, and precedes the statement's end *)
Lemma try_once_l n fn b cs f fr g c fr' g' :
  iexec cm funs clos (S n) fn (STry b cs f) fr g = Res c fr' g' ->
  exists mid fin, gout g' = (fin ++ CFin :: mid ++ CTry :: gout g)%list /\ balanced mid /\ balanced fin.
Proof.
  intros H. rewrite try_unfold in H.
  destruct (iexec cm funs clos n fn b fr (mark CTry g)) as [|cb fr1 g1] eqn:Eb; [discriminate|].
  apply (events_balanced cm funs) in Eb. destruct Eb as (sb & Eb & Bb).
  destruct (after_block n fn cs cb fr1 g1) as [|c3 fr3 g3] eqn:Ec; [discriminate|].
  assert (X : extends g1 g3).
  { unfold after_block in Ec. destruct cb; try (inversion Ec; subst; apply extends_refl).
    destruct (find_catch cm cs v) as [[xv cbody]|]; [|inversion Ec; subst; apply extends_refl].
    destruct xv as [xn|].
    - destruct (wr fn xn v fr1 g1) as [fr2 g2] eqn:W. apply wr_extends in W.
      apply (events_balanced cm funs) in Ec. eapply extends_trans; eauto.
    - apply (events_balanced cm funs) in Ec. exact Ec. }
  destruct X as (sc & Esc & Bc).
  unfold finally_part in H.
  destruct (iexec cm funs clos n fn f fr3 (mark CFin g3)) as [|cf fr4 g4] eqn:Ef; [discriminate|].
  apply (events_balanced cm funs) in Ef. destruct Ef as (sf & Ef & Bf).
  assert (G : g' = g4) by (destruct cf; inversion H; reflexivity). subst g'.
  exists (sc ++ sb)%list, sf. split; [|split; [apply balanced_app; assumption|assumption]].
  rewrite Ef. change (gout (mark CFin g3)) with (CFin :: gout g3). rewrite Esc, Eb.
  change (gout (mark CTry g)) with (CTry :: gout g). rewrite <- app_assoc. reflexivity.
Qed.
End TryLemmas.

(* whole scripts: the events of a terminating run are balanced *)
Lemma run_balanced_l cm funs clos n p c fr g :
  iexec cm funs clos n "" p empty_frame empty_glob = Res c fr g -> balanced (gout g).
Proof.
  intros H. apply events_balanced in H. destruct H as (seg & E & B). simpl in E.
  rewrite app_nil_r in E. rewrite E. exact B.
Qed.

(* ---------- uncaught throwable, parse failure: the process fails ---------- *)
Lemma uncaught_is_error_l cm funs clos n p x fr g :
  iexec cm funs clos n "" p empty_frame empty_glob = Res (IThrow x) fr g ->
  irun cm funs clos n p = (output g, EndError).
Proof. intros H. unfold irun. rewrite H. reflexivity. Qed.

Definition is_failure (s : script_end) : bool :=
  match s with ParseError | Uncaught => true | _ => false end.
Definition requested (s : script_end) : option Z :=
  match s with ExitCalled c => Some c | _ => None end.
Lemma exit_status_l : forall s,
  exit_ok (is_failure s) (requested s) (exit_code (cli_model s)) (diagnostic (cli_model s)) (output_kept (cli_model s)).
Proof.
  intros s. unfold exit_ok. destruct s; simpl; repeat split; intros; try discriminate; auto.
Qed.
