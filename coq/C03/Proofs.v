(* C03 — lemmas behind Properties.v. *)
From Coq Require Import ZArith Bool String List Lia Floats.
From V.C03 Require Import Model Spec ProofsFloat ProofsPow.
Open Scope Z_scope.

Lemma table_matches_model_l : forall lib v i, implements (ty_of v) i = has_conv lib v i.
Proof. intros lib v i; destruct v, i; try reflexivity; cbn; destruct (parse_float lib s); reflexivity. Qed.

(* ------------------------------------------------------------------ one truthiness *)
Lemma truthy_one_l : forall lib c v, ctx_eval lib c v = CB (ref_truthy v).
Proof.
  intros lib c v; destruct c, v; cbn; unfold fzero; try reflexivity;
    try (rewrite negb_involutive; reflexivity);
    try (destruct s; reflexivity); try (destruct items; reflexivity);
    try (match goal with |- of_outcome (if ?x then _ else _) = _ => destruct x; reflexivity end).
Qed.

(* ------------------------------------------------------------------ comparisons are total *)
Ltac pf_cases lib := repeat match goal with |- context [parse_float lib ?s] => destruct (parse_float lib s) end.

Lemma eq_body_bool : forall lib n l r, exists b, eq_body lib n l r = Val (VBool (if n then negb b else b)).
Proof.
  intros lib n l r. unfold eq_body.
  destruct l; destruct r; cbn; pf_cases lib;
    first [ eexists; reflexivity
          | exists false; destruct n; reflexivity
          | exists true; destruct n; reflexivity ].
Qed.

Lemma eq_ne_compl_l : forall lib same l r, exists b,
  eq lib same l r = Val (VBool b) /\ ne lib same l r = Val (VBool (negb b)).
Proof.
  intros lib same l r; unfold eq, ne.
  destruct ((same || both_nil l r) && negb (is_nan_value l)).
  - exists true; split; reflexivity.
  - unfold eq_body.
    destruct l; destruct r; cbn; pf_cases lib;
      first [ eexists; split; reflexivity
            | exists false; split; reflexivity
            | exists true; split; reflexivity ].
Qed.

Lemma seq_sne_compl_l : forall l r, exists b, seq l r = Val (VBool b) /\ sne l r = Val (VBool (negb b)).
Proof. intros l r; exists (strict_equal l r); split; reflexivity. Qed.

Lemma rel_bool_l : forall lib o l r, exists b, rel lib o l r = Val (VBool b).
Proof.
  intros lib o l r; unfold rel.
  destruct l; destruct r; cbn; pf_cases lib; try (destruct o); eexists; reflexivity.
Qed.

(* ------------------------------------------------------------------ == symmetric off the known pairs *)
Lemma eq_sym_partial_l : forall lib same l r,
  eq_sym_known (ty_of l) (ty_of r) = false -> (same = true -> l = r) ->
  eq lib same l r = eq lib same r l.
Proof.
  intros lib same l r Hk Hs. destruct same.
  - rewrite (Hs eq_refl). reflexivity.
  - unfold eq; cbn [andb]. unfold eq_body.
    destruct l, r; cbn in Hk; try discriminate; cbn; try reflexivity.
    + destruct b, b0; reflexivity.
    + rewrite Z.eqb_sym. reflexivity.
    + rewrite feq_sym. reflexivity.
    + rewrite feq_sym. reflexivity.
    + rewrite feq_sym. reflexivity.
    + rewrite String.eqb_sym. reflexivity.
Qed.

(* ------------------------------------------------------------------ <=> agrees with < and > *)
Lemma law_sign3 : forall lt gt : bool, (lt = true -> gt = false) ->
  Bool.eqb (sign3 lt gt <? 0) lt && Bool.eqb (0 <? sign3 lt gt) gt = true.
Proof. intros [|] [|] H; try reflexivity. specialize (H eq_refl); discriminate. Qed.

Lemma str_lt_antisym : forall a b, String.ltb a b = true -> String.ltb b a = false.
Proof.
  intros a b; unfold String.ltb. rewrite (String.compare_antisym a b).
  destruct (String.compare b a); simpl; congruence.
Qed.

(* within one dispatch (the left operand's type) < and > are exclusive *)
Lemma rel_antisym : forall lib l r,
  rel lib RLt l r = Val (VBool true) -> rel lib RGt l r = Val (VBool false).
Proof.
  intros lib l r; unfold rel.
  destruct l; destruct r; cbn; pf_cases lib; try discriminate; try reflexivity;
    intro H; injection H as H; do 2 f_equal;
    first [ apply flt_antisym; exact H
          | apply str_lt_antisym; exact H
          | (rewrite Z.gtb_ltb; apply Z.ltb_ge; apply Z.ltb_lt in H; lia)
          | (destruct b, b0; try reflexivity; discriminate) ].
Qed.
Lemma rel_nil : forall lib o l r, is_nil l || is_nil r = true -> rel lib o l r = Val (VBool false).
Proof.
  intros lib o l r H. unfold rel.
  destruct l; destruct r; try discriminate; cbn; try reflexivity; destruct o; reflexivity.
Qed.

Lemma cmp_lt_gt_l : forall lib l r,
  law_cmp (cmp lib l r) (rel lib RLt l r) (rel lib RGt l r) = true.
Proof.
  intros lib l r.
  assert (Hgen : (if is_nil l || is_nil r then Val (VInt 0) else
                  match rel lib RLt l r with
                  | Val (VBool true) => Val (VInt (-1))
                  | Val _ => match rel lib RGt l r with
                             | Val (VBool true) => Val (VInt 1) | Val _ => Val (VInt 0) | o => o end
                  | o => o end) = cmp lib l r \/ exists a b, l = VInt a /\ r = VInt b).
  { destruct l; try (left; reflexivity). destruct r; try (left; reflexivity). right; eauto. }
  destruct Hgen as [Hc | [a [b [-> ->]]]].
  - rewrite <- Hc. destruct (is_nil l || is_nil r) eqn:En.
    + rewrite !(rel_nil lib _ l r En). reflexivity.
    + destruct (rel_bool_l lib RLt l r) as [x Hx]. destruct (rel_bool_l lib RGt l r) as [y Hy].
      destruct x.
      * rewrite (rel_antisym lib l r Hx), Hx. reflexivity.
      * rewrite Hx, Hy. destruct y; reflexivity.
  - cbn -[sign3]. apply law_sign3. rewrite Z.ltb_lt, Z.gtb_ltb, Z.ltb_ge. lia.
Qed.

(* ------------------------------------------------------------------ model = reference on D *)
Lemma as_bool_truthy : forall v, is_nil v = false -> as_bool v = Conv (ref_truthy v).
Proof. destruct v; cbn; unfold fzero; try reflexivity; try discriminate. destruct items; reflexivity. Qed.
(* operandTruthy computes the one truthiness for EVERY value, nil included *)
Lemma opd_truthy_ref : forall v k, opd_truthy v k = k (ref_truthy v).
Proof. destruct v; intro k; cbn; unfold fzero; try reflexivity. destruct items; reflexivity. Qed.

Lemma z_eqb_cmp : forall a b, (a =? b) = is_c Eq (Some (a ?= b)).
Proof. intros a b; destruct (Z.compare_spec a b); subst; simpl;
  [apply Z.eqb_refl | apply Z.eqb_neq; lia | apply Z.eqb_neq; lia]. Qed.
Lemma z_ltb_cmp : forall a b, (a <? b) = is_c Lt (Some (a ?= b)).
Proof. intros a b; unfold Z.ltb; destruct (a ?= b); reflexivity. Qed.
Lemma z_leb_cmp : forall a b, (a <=? b) = is_c Lt (Some (a ?= b)) || is_c Eq (Some (a ?= b)).
Proof. intros a b; unfold Z.leb; destruct (a ?= b); reflexivity. Qed.
Lemma z_gtb_cmp : forall a b, (a >? b) = is_c Gt (Some (a ?= b)).
Proof. intros a b; unfold Z.gtb; destruct (a ?= b); reflexivity. Qed.
Lemma z_geb_cmp : forall a b, (a >=? b) = is_c Gt (Some (a ?= b)) || is_c Eq (Some (a ?= b)).
Proof. intros a b; unfold Z.geb; destruct (a ?= b); reflexivity. Qed.
Lemma z_sign3_cmp : forall a b,
  sign3 (a <? b) (a >? b) = match a ?= b with Lt => -1 | Gt => 1 | Eq => 0 end.
Proof. intros a b; unfold Z.ltb, Z.gtb; destruct (a ?= b); reflexivity. Qed.

Lemma str_compare_refl : forall a, String.compare a a = Eq.
Proof. intro a. pose proof (String.compare_antisym a a) as H. destruct (String.compare a a); simpl in H; congruence. Qed.
Lemma s_eqb_cmp : forall a b, String.eqb a b = is_c Eq (Some (String.compare a b)).
Proof.
  intros a b. destruct (String.eqb a b) eqn:E.
  - apply String.eqb_eq in E; subst. rewrite str_compare_refl. reflexivity.
  - apply String.eqb_neq in E. destruct (String.compare a b) eqn:C; try reflexivity.
    apply String.compare_eq_iff in C. contradiction.
Qed.
Lemma s_ltb_cmp : forall a b, String.ltb a b = is_c Lt (Some (String.compare a b)).
Proof. intros a b; unfold String.ltb; destruct (String.compare a b); reflexivity. Qed.
Lemma s_leb_cmp : forall a b, String.leb a b = is_c Lt (Some (String.compare a b)) || is_c Eq (Some (String.compare a b)).
Proof. intros a b; unfold String.leb; destruct (String.compare a b); reflexivity. Qed.
Lemma s_gtb_cmp : forall a b, String.ltb b a = is_c Gt (Some (String.compare a b)).
Proof. intros a b; unfold String.ltb; rewrite (String.compare_antisym a b); destruct (String.compare b a); reflexivity. Qed.
Lemma s_geb_cmp : forall a b, String.leb b a = is_c Gt (Some (String.compare a b)) || is_c Eq (Some (String.compare a b)).
Proof. intros a b; unfold String.leb; rewrite (String.compare_antisym a b); destruct (String.compare b a); reflexivity. Qed.
Lemma s_sign3_cmp : forall a b,
  sign3 (String.ltb a b) (String.ltb b a) = match String.compare a b with Lt => -1 | Gt => 1 | Eq => 0 end.
Proof. intros a b; rewrite s_ltb_cmp, s_gtb_cmp; destruct (String.compare a b); reflexivity. Qed.
Lemma f_sign3_cmp : forall a b,
  compare_floats a b = match fcmp a b with Some Lt => -1 | Some Gt => 1 | _ => 0 end.
Proof. intros a b; unfold compare_floats; rewrite flt_fcmp, fgt_fcmp; destruct (fcmp a b) as [[| |]|]; reflexivity. Qed.

(* ref_cmp on equal operands that are not NaN *)
Lemma ref_cmp_refl : forall v, same_kind_scalar v v = true -> is_nan_value v = false ->
  is_c Eq (ref_cmp v v) = true.
Proof.
  intros v Hs Hn; destruct v; try discriminate; cbn.
  - reflexivity.
  - destruct b; reflexivity.
  - rewrite Z.compare_refl. reflexivity.
  - cbn in Hn. apply negb_false_iff in Hn. rewrite (feq_refl_fcmp f Hn). reflexivity.
  - rewrite str_compare_refl. reflexivity.
Qed.

Lemma eq_ref_on_D : forall lib n same l r,
  (same_kind_scalar l r || (numeric l && numeric r)) = true -> (same = true -> l = r) ->
  (if (same || both_nil l r) && negb (is_nan_value l) then Val (VBool (negb n)) else eq_body lib n l r)
  = rb (if n then negb (is_c Eq (ref_cmp l r)) else is_c Eq (ref_cmp l r)).
Proof.
  intros lib n same l r HD Hs.
  assert (Hbn : both_nil l r = false) by (destruct l; try reflexivity; discriminate).
  rewrite Hbn, orb_false_r.
  destruct (same && negb (is_nan_value l)) eqn:E.
  - apply andb_true_iff in E. destruct E as [E1 E2]. specialize (Hs E1); subst r.
    apply negb_true_iff in E2.
    assert (Hk : same_kind_scalar l l = true) by (destruct l; try discriminate; reflexivity).
    rewrite (ref_cmp_refl l Hk E2). destruct n; reflexivity.
  - clear E Hs same. unfold eq_body, rb.
    destruct l, r; try discriminate; cbn.
    + destruct n; reflexivity.
    + destruct b, b0, n; reflexivity.
    + rewrite z_eqb_cmp. destruct n; reflexivity.
    + rewrite feq_fcmp. destruct n; reflexivity.
    + rewrite feq_fcmp. destruct n; reflexivity.
    + rewrite feq_fcmp. destruct n; reflexivity.
    + rewrite s_eqb_cmp. destruct n; reflexivity.
Qed.

Lemma wf_int : forall z, wf (VInt z) = true -> in_range z = true.
Proof. intros z H; exact H. Qed.

Lemma rel_ref_on_D : forall lib o l r,
  (same_kind_scalar l r || (numeric l && numeric r)) = true ->
  rel lib o l r =
  rb (match o with
      | RLt => is_c Lt (ref_cmp l r)
      | RLe => is_c Lt (ref_cmp l r) || is_c Eq (ref_cmp l r)
      | RGt => is_c Gt (ref_cmp l r)
      | RGe => is_c Gt (ref_cmp l r) || is_c Eq (ref_cmp l r)
      end).
Proof.
  intros lib o l r HD. unfold rel, rb.
  destruct l, r; try discriminate; cbn.
  - destruct o; reflexivity.
  - destruct o, b, b0; reflexivity.
  - destruct o; cbn; [rewrite z_ltb_cmp | rewrite z_leb_cmp | rewrite z_gtb_cmp | rewrite z_geb_cmp]; reflexivity.
  - destruct o; cbn; [rewrite flt_fcmp | rewrite fle_fcmp | rewrite fgt_fcmp | rewrite fge_fcmp]; reflexivity.
  - destruct o; cbn; [rewrite flt_fcmp | rewrite fle_fcmp | rewrite fgt_fcmp | rewrite fge_fcmp]; reflexivity.
  - destruct o; cbn; [rewrite flt_fcmp | rewrite fle_fcmp | rewrite fgt_fcmp | rewrite fge_fcmp]; reflexivity.
  - destruct o; cbn; [rewrite s_ltb_cmp | rewrite s_leb_cmp | rewrite s_gtb_cmp | rewrite s_geb_cmp]; reflexivity.
Qed.

Lemma strict_ref_on_D : forall l r,
  (same_kind_scalar l r || (numeric l && numeric r)) = true ->
  strict_equal l r = ty_eqb (ty_of l) (ty_of r) && is_c Eq (ref_cmp l r).
Proof.
  intros l r HD; destruct l, r; try discriminate; cbn; try reflexivity.
  - destruct b, b0; reflexivity.
  - apply z_eqb_cmp.
  - apply feq_fcmp.
  - apply s_eqb_cmp.
Qed.

Lemma cmp_small : forall lib l r, exists z, cmp lib l r = Val (VInt z) /\ (z = -1 \/ z = 0 \/ z = 1).
Proof.
  intros lib l r.
  destruct (rel_bool_l lib RLt l r) as [x Hx]. destruct (rel_bool_l lib RGt l r) as [y Hy].
  destruct l; destruct r; cbn [cmp is_nil orb];
    try (eexists; split; [reflexivity|]; unfold sign3;
         repeat match goal with |- context [if ?c then _ else _] => destruct c end; lia);
    rewrite Hx; destruct x; try (eexists; split; [reflexivity|lia]);
    rewrite Hy; destruct y; eexists; split; try reflexivity; lia.
Qed.

Lemma cmp_ref_on_D : forall lib l r,
  (same_kind_scalar l r || (numeric l && numeric r)) = true ->
  cmp lib l r = Val (VInt (match ref_cmp l r with Some Lt => -1 | Some Gt => 1 | _ => 0 end)).
Proof.
  intros lib l r HD.
  pose proof (rel_ref_on_D lib RLt l r HD) as Hlt. pose proof (rel_ref_on_D lib RGt l r HD) as Hgt.
  destruct l, r; try discriminate; cbn [cmp is_nil orb];
    try (rewrite Hlt, Hgt; unfold rb; destruct (ref_cmp _ _) as [[| |]|]; reflexivity).
  (* int, int *)
  rewrite z_sign3_cmp. cbn. destruct (z ?= z0); reflexivity.
Qed.

Lemma pow_ref_on_D : forall lib l r, numeric l && numeric r = true -> wf l = true -> wf r = true ->
  pow lib l r = ref_binop lib OPow l r.
Proof.
  intros lib l r HD Hl Hr. unfold pow, ref_binop.
  destruct l, r; try discriminate; cbn -[int_pow pow_fits zpow]; try reflexivity.
  rewrite Z.geb_leb. destruct (0 <=? z0) eqn:E; [|reflexivity].
  apply Z.leb_le in E. rewrite (int_pow_correct z z0 (wf_int z Hl) E).
  destruct (pow_fits z z0); reflexivity.
Qed.

Lemma shl_ref_on_D : forall lib l r, numeric l && numeric r = true ->
  shl l r = ref_binop lib OShl l r.
Proof.
  intros lib l r HD. unfold shl, ref_binop, opd_int.
  assert (Hl : as_int l = Conv (toi l)) by (destruct l; try discriminate; reflexivity).
  assert (Hr : as_int r = Conv (toi r)) by (destruct l, r; try discriminate; reflexivity).
  rewrite Hl, Hr. destruct (toi r <? 0) eqn:E; [reflexivity|].
  apply Z.ltb_ge in E. rewrite Z.geb_leb. rewrite Z.shiftl_mul_pow2 by exact E. reflexivity.
Qed.
Lemma shr_ref_on_D : forall lib l r, numeric l && numeric r = true ->
  shr l r = ref_binop lib OShr l r.
Proof.
  intros lib l r HD. unfold shr, ref_binop, opd_int.
  assert (Hl : as_int l = Conv (toi l)) by (destruct l; try discriminate; reflexivity).
  assert (Hr : as_int r = Conv (toi r)) by (destruct l, r; try discriminate; reflexivity).
  rewrite Hl, Hr. destruct (toi r <? 0) eqn:E; [reflexivity|].
  apply Z.ltb_ge in E. rewrite Z.shiftr_div_pow2 by lia. reflexivity.
Qed.

Lemma model_is_ref_on_D_l : forall lib o same l r,
  inD lib o l r = true -> wf l = true -> wf r = true -> (same = true -> l = r) ->
  binop_eval lib same o l r = ref_binop lib o l r.
Proof.
  intros lib o same l r HD Hl Hr Hs.
  destruct o; cbn [binop_eval inD] in *.
  - (* + *)
    destruct l, r; try discriminate; try reflexivity;
      match goal with s : string |- _ =>
        unfold add, numstr, str_number, ref_binop, str_and_number, str_num in *; cbn in *;
        destruct (parse_int lib s) eqn:Ei; destruct (parse_float lib s) eqn:Ef;
        cbn in *; unfold as_float; rewrite ?Ei, ?Ef in *; cbn; rewrite ?Ei, ?Ef;
        try discriminate; try reflexivity
      end.
  - (* - *) destruct l, r; try discriminate; reflexivity.
  - (* * *) destruct l, r; try discriminate; reflexivity.
  - (* / *) destruct l, r; try discriminate; reflexivity.
  - (* % *) destruct l, r; try discriminate; reflexivity.
  - (* ** *) apply pow_ref_on_D; assumption.
  - destruct l, r; try discriminate; reflexivity.
  - destruct l, r; try discriminate; reflexivity.
  - destruct l, r; try discriminate; reflexivity.
  - apply shl_ref_on_D; assumption.
  - apply shr_ref_on_D; assumption.
  - (* == *) exact (eq_ref_on_D lib false same l r HD Hs).
  - (* != *) exact (eq_ref_on_D lib true same l r HD Hs).
  - (* === *) unfold seq. rewrite (strict_ref_on_D l r HD). reflexivity.
  - (* !== *) unfold sne. rewrite (strict_ref_on_D l r HD). reflexivity.
  - rewrite (rel_ref_on_D lib RLt l r HD). reflexivity.
  - rewrite (rel_ref_on_D lib RLe l r HD). reflexivity.
  - rewrite (rel_ref_on_D lib RGt l r HD). reflexivity.
  - rewrite (rel_ref_on_D lib RGe l r HD). reflexivity.
  - apply cmp_ref_on_D; assumption.
  - (* && *) unfold logic_and. rewrite !opd_truthy_ref. unfold ref_binop, rb.
    destruct (ref_truthy l); reflexivity.
  - (* || *) unfold logic_or. rewrite !opd_truthy_ref. unfold ref_binop, rb.
    destruct (ref_truthy l); reflexivity.
  - (* . *) destruct l, r; try discriminate; reflexivity.
Qed.

Lemma unop_is_ref_on_D_l : forall lib o v, inD1 o v = true -> unop_eval lib o v = ref_unop o v.
Proof.
  intros lib o v HD; destruct o; cbn in HD.
  - destruct v; try discriminate; reflexivity.
  - unfold unop_eval. rewrite as_bool_truthy by (destruct v; try discriminate; reflexivity). reflexivity.
  - destruct v; try discriminate; cbn; unfold Z.lnot; do 2 f_equal; lia.
Qed.

(* ------------------------------------------------------------------ '/' always float; division by zero *)
Lemma quo_is_float_l : forall lib l r v, quo lib l r = Val v -> exists f, v = VFloat f.
Proof.
  intros lib l r v; unfold quo, opd_float.
  destruct l; try discriminate.
  - destruct (as_float lib r) as [| |rf].
    + destruct (as_int r) as [| |ri]; try discriminate.
      destruct (ri =? 0); try discriminate. intro H; injection H as <-; eexists; reflexivity.
    + discriminate.
    + destruct (feq rf fzero); try discriminate. intro H; injection H as <-; eexists; reflexivity.
  - destruct (as_float lib r) as [| |rf]; try discriminate.
    destruct (feq rf fzero); try discriminate. intro H; injection H as <-; eexists; reflexivity.
Qed.

Lemma div_zero_throws_l : forall lib l r, numeric l = true -> numeric r = true ->
  (PrimFloat.eqb (tof r) 0%float = true -> quo lib l r = Throw) /\
  (toi r = 0 -> rem l r = Throw).
Proof.
  intros lib l r Hl Hr; split; intro H.
  - destruct l, r; try discriminate; cbn in *; unfold feq, fzero; rewrite H; reflexivity.
  - destruct l, r; try discriminate; cbn in *; rewrite H; reflexivity.
Qed.

(* ------------------------------------------------------------------ never a crash *)
Ltac crush_matches :=
  repeat match goal with
  | |- context [match parse_int ?l ?s with _ => _ end] => destruct (parse_int l s)
  | |- context [match parse_float ?l ?s with _ => _ end] => destruct (parse_float l s)
  | |- context [if ?c then _ else _] => destruct c
  end.

Lemma pow_acceptable : forall lib l r, wf l = true -> wf r = true -> acceptable (pow lib l r) = true.
Proof.
  intros lib l r Hl Hr. unfold pow, opd_float.
  destruct (as_float lib l) as [| |lf]; try reflexivity.
  destruct (as_float lib r) as [| |rf]; try reflexivity.
  destruct l; try reflexivity. destruct r; try reflexivity.
  rewrite Z.geb_leb. destruct (0 <=? z0) eqn:E; [|reflexivity].
  apply Z.leb_le in E. rewrite (int_pow_correct z z0 (wf_int z Hl) E).
  destruct (pow_fits z z0); reflexivity.
Qed.

Lemma acceptable_any_pair_l : forall lib same o l r, wf l = true -> wf r = true ->
  acceptable (binop_eval lib same o l r) = true.
Proof.
  intros lib same o l r Hl Hr.
  destruct o; cbn [binop_eval].
  - unfold add, numstr, str_number. destruct l, r; cbn; unfold as_float; cbn; crush_matches; cbn; unfold as_float; crush_matches; reflexivity.
  - unfold sub, opd_float, opd_int. destruct l, r; cbn; crush_matches; reflexivity.
  - unfold mul, opd_float, opd_int. destruct l, r; cbn; crush_matches; reflexivity.
  - unfold quo, opd_float. destruct l, r; cbn; crush_matches; reflexivity.
  - unfold rem, opd_int. destruct l, r; cbn; crush_matches; reflexivity.
  - apply pow_acceptable; assumption.
  - reflexivity.
  - reflexivity.
  - reflexivity.
  - unfold shl, opd_int. destruct l, r; cbn; crush_matches; reflexivity.
  - unfold shr, opd_int. destruct l, r; cbn; crush_matches; reflexivity.
  - destruct (eq_ne_compl_l lib same l r) as [b [H _]]. rewrite H. reflexivity.
  - destruct (eq_ne_compl_l lib same l r) as [b [_ H]]. rewrite H. reflexivity.
  - reflexivity.
  - reflexivity.
  - destruct (rel_bool_l lib RLt l r) as [b H]. rewrite H. reflexivity.
  - destruct (rel_bool_l lib RLe l r) as [b H]. rewrite H. reflexivity.
  - destruct (rel_bool_l lib RGt l r) as [b H]. rewrite H. reflexivity.
  - destruct (rel_bool_l lib RGe l r) as [b H]. rewrite H. reflexivity.
  - destruct (cmp_small lib l r) as [z [Hz _]]. rewrite Hz. reflexivity.
  - unfold logic_and. rewrite !opd_truthy_ref. destruct (ref_truthy l); reflexivity.
  - unfold logic_or. rewrite !opd_truthy_ref. destruct (ref_truthy l); reflexivity.
  - reflexivity.
Qed.

Lemma acceptable_unop_l : forall lib o v, acceptable (unop_eval lib o v) = true.
Proof.
  intros lib o v; destruct o; unfold unop_eval.
  - destruct v; cbn; crush_matches; reflexivity.
  - destruct v; cbn; unfold fzero; try reflexivity.
  - destruct v; reflexivity.
Qed.

(* ------------------------------------------------------------------ integer results are 64-bit *)
From V.C03 Require Import ProofsBits.

Lemma f2i_range : forall f, in_range (f2i f) = true.
Proof.
  intro f; unfold f2i. destruct (Prim2SF f); try reflexivity.
  match goal with |- context [if in_range ?r then _ else _] => destruct (in_range r) eqn:E end;
    [exact E | reflexivity].
Qed.
Lemma as_int_range : forall v z, wf v = true -> as_int v = Conv z -> in_range z = true.
Proof.
  intros v z Hw H; destruct v; try discriminate; cbn in H; injection H as <-;
    [reflexivity | exact Hw | apply f2i_range].
Qed.
Lemma to_int_or_zero_range : forall v, wf v = true -> in_range (to_int_or_zero v) = true.
Proof. intros v Hw; destruct v; try reflexivity; [exact Hw | apply f2i_range]. Qed.
Lemma rem_range : forall a b, in_range a = true -> in_range b = true -> b <> 0 -> in_range (Z.rem a b) = true.
Proof.
  intros a b Ha Hb Hn. apply in_range_iff in Ha, Hb. apply in_range_iff.
  pose proof (Z.rem_bound_abs a b Hn). lia.
Qed.
Lemma shiftr_range : forall a k, in_range a = true -> 0 <= k -> in_range (Z.shiftr a k) = true.
Proof.
  intros a k Ha Hk. apply in_range_iff in Ha. apply in_range_iff.
  rewrite Z.shiftr_div_pow2 by exact Hk.
  assert (Hd : 0 < 2 ^ k) by (apply Z.pow_pos_nonneg; lia).
  pose proof (Z.div_mod a (2 ^ k) ltac:(lia)) as Hdm.
  pose proof (Z.mod_pos_bound a (2 ^ k) Hd) as Hm.
  nia.
Qed.
Lemma sign3_range : forall a b, in_range (sign3 a b) = true.
Proof. intros [|] [|]; reflexivity. Qed.
Lemma zpow_fits_range : forall a b, pow_fits a b = true -> in_range (zpow a b) = true.
Proof.
  intros a b; unfold pow_fits, zpow.
  destruct (Z.abs a <=? 1) eqn:E.
  - apply Z.leb_le in E. intros _.
    destruct (a =? 0) eqn:E0; [destruct (b =? 0); reflexivity|].
    destruct (a =? 1) eqn:E1; [reflexivity|].
    destruct (a =? -1) eqn:E2; [destruct (Z.even b); reflexivity|].
    apply Z.eqb_neq in E0, E1, E2. lia.
  - apply Z.leb_gt in E. destruct (b <? 64); [|discriminate]. intro H.
    replace (a =? 0) with false by (symmetry; apply Z.eqb_neq; lia).
    replace (a =? 1) with false by (symmetry; apply Z.eqb_neq; lia).
    replace (a =? -1) with false by (symmetry; apply Z.eqb_neq; lia).
    exact H.
Qed.

Ltac split_ifs H :=
  repeat match type of H with
  | context [match parse_int ?l ?s with _ => _ end] => destruct (parse_int l s)
  | context [match parse_float ?l ?s with _ => _ end] => destruct (parse_float l s)
  | context [if ?c then _ else _] => destruct c eqn:?
  end.

Lemma int_results_in_range_l : forall lib same o l r z, wf l = true -> wf r = true ->
  binop_eval lib same o l r = Val (VInt z) -> in_range z = true.
Proof.
  intros lib same o l r z Hl Hr H.
  destruct o; cbn [binop_eval] in H.
  - unfold add, numstr, str_number in H. destruct l, r; cbn -[wrap64 Z.add Z.sub Z.mul] in H; unfold as_float in H; split_ifs H; cbn -[wrap64 Z.add Z.sub Z.mul] in H; unfold as_float in H; split_ifs H; try discriminate;
      injection H as <-; apply wrap64_range.
  - unfold sub, opd_float, opd_int in H. destruct l, r; cbn -[wrap64 Z.add Z.sub Z.mul] in H; split_ifs H; try discriminate;
      injection H as <-; apply wrap64_range.
  - unfold mul, opd_float, opd_int in H. destruct l, r; cbn -[wrap64 Z.add Z.sub Z.mul] in H; split_ifs H; try discriminate;
      injection H as <-; apply wrap64_range.
  - destruct (quo_is_float_l lib l r _ H) as [f Hf]; discriminate.
  - unfold rem, opd_int in H.
    destruct l; try discriminate;
      (destruct (as_int r) as [| |ri] eqn:Er; cbn in H; try discriminate;
       destruct (ri =? 0) eqn:E0; try discriminate; injection H as <-;
       apply Z.eqb_neq in E0; apply rem_range;
       [first [exact Hl | apply f2i_range] | exact (as_int_range r ri Hr Er) | exact E0]).
  - unfold pow, opd_float in H.
    destruct (as_float lib l) as [| |lf]; try discriminate.
    destruct (as_float lib r) as [| |rf]; try discriminate.
    destruct l; try discriminate; destruct r; try discriminate.
    rewrite Z.geb_leb in H. destruct (0 <=? z1) eqn:E; [|discriminate].
    apply Z.leb_le in E. rewrite (int_pow_correct z0 z1 (wf_int z0 Hl) E) in H.
    destruct (pow_fits z0 z1) eqn:Ef; [|discriminate].
    injection H as <-. apply zpow_fits_range; exact Ef.
  - injection H as <-. apply land_in_range; apply to_int_or_zero_range; assumption.
  - injection H as <-. apply lor_in_range; apply to_int_or_zero_range; assumption.
  - injection H as <-. apply lxor_in_range; apply to_int_or_zero_range; assumption.
  - unfold shl, opd_int in H.
    destruct (as_int l) as [| |li]; try discriminate. destruct (as_int r) as [| |ri]; try discriminate.
    destruct (ri <? 0); try discriminate. injection H as <-.
    destruct (ri >=? 64); [reflexivity | apply wrap64_range].
  - unfold shr, opd_int in H.
    destruct (as_int l) as [| |li] eqn:El; try discriminate. destruct (as_int r) as [| |ri]; try discriminate.
    destruct (ri <? 0) eqn:E; try discriminate. injection H as <-. apply Z.ltb_ge in E.
    apply shiftr_range; [exact (as_int_range l li Hl El) | lia].
  - destruct (eq_ne_compl_l lib same l r) as [b [Hb _]]. rewrite Hb in H. discriminate.
  - destruct (eq_ne_compl_l lib same l r) as [b [_ Hb]]. rewrite Hb in H. discriminate.
  - discriminate.
  - discriminate.
  - destruct (rel_bool_l lib RLt l r) as [b Hb]. rewrite Hb in H. discriminate.
  - destruct (rel_bool_l lib RLe l r) as [b Hb]. rewrite Hb in H. discriminate.
  - destruct (rel_bool_l lib RGt l r) as [b Hb]. rewrite Hb in H. discriminate.
  - destruct (rel_bool_l lib RGe l r) as [b Hb]. rewrite Hb in H. discriminate.
  - destruct (cmp_small lib l r) as [z' [Hz Hs]]. rewrite Hz in H. injection H as <-.
    destruct Hs as [-> | [-> | ->]]; reflexivity.
  - unfold logic_and in H. rewrite !opd_truthy_ref in H. destruct (ref_truthy l); discriminate.
  - unfold logic_or in H. rewrite !opd_truthy_ref in H. destruct (ref_truthy l); discriminate.
  - discriminate.
Qed.

(* ------------------------------------------------------------------ the laws do fail on the recorded pairs *)
Lemma eq_sym_refuted_l : forall lib,
  eq lib false (VStr "1") (VInt 1) = Val (VBool true) /\ eq lib false (VInt 1) (VStr "1") = Val (VBool false).
Proof. intro lib; split; reflexivity. Qed.


(* division by a zero divisor of ANY kind: whatever the divisor's numeric view is obtained from
   (0, 0.0, -0.0, null, "0", "0.0", ...), and whatever the dividend *)
Lemma div_zero_any_l : forall lib l r,
  (forall f, as_float lib r = Conv f -> feq f fzero = true -> quo lib l r = Throw) /\
  (as_int r = Conv 0 -> rem l r = Throw).
Proof.
  intros lib l r; split.
  - intros f Hf Hz. unfold quo, opd_float. destruct l; try reflexivity; rewrite Hf, Hz; reflexivity.
  - intros Hi. unfold rem, opd_int. destruct l; try reflexivity; cbn; rewrite Hi; reflexivity.
Qed.

(* ------------------------------------------------------------------ casts *)
Lemma cast_is_ref_l : forall lib c v, scalar v = true -> cast_eval lib c v = ref_cast lib c v.
Proof.
  intros lib c v Hs; destruct c, v; try discriminate; cbn; try reflexivity;
    try (destruct (parse_float lib s); reflexivity); try (destruct b; reflexivity).
Qed.
Lemma cast_acceptable_l : forall lib c v, acceptable (cast_eval lib c v) = true.
Proof. intros lib c v; destruct c, v; cbn; try reflexivity; try (destruct (parse_float lib s); reflexivity); try (destruct items; reflexivity). Qed.

(* ------------------------------------------------------------------ exact kind-level classification of == symmetry *)
Lemma feq_nan_l : forall x, feq nan x = false.
Proof.
  intro x. unfold feq. rewrite FloatAxioms.eqb_spec.
  replace (Prim2SF nan) with (@SpecFloat.S754_nan) by (vm_compute; reflexivity). reflexivity.
Qed.

(* a witness of asymmetry for every recorded ordered kind pair *)
Definition sym_witness (lib : golib) (a b : ty) : value * value :=
  let w (t : ty) (other : ty) : value :=
    match t with
    | TNull => VNull
    | TBool => match other with TNull => VBool false | _ => VBool true end
    | TInt => match other with TNull => VInt 0 | TStr => VInt 1 | _ => VInt 2 end
    | TFloat => match other with TNull => VFloat 0%float | TStr => VFloat nan | _ => VFloat 1.5%float end
    | TStr => match other with
              | TNull => VStr "" | TBool => VStr "a" | TInt => VStr "1" | TFloat => VStr (fmt_float lib nan)
              | TArr => VStr "[]" | TObj => VStr (obj_str lib false 1) | TCls => VStr (obj_str lib true 1) | _ => VStr ""
              end
    | TArr => match other with TStr => VArr [] | _ => VArr [1%Z] end
    | TObj => VObj 1
    | TCls => VCls 1
    | TNil => VNil
    end in
  (w a b, w b a).

Lemma eq_sym_witness_l : forall lib a b, eq_sym_known a b = true ->
  let p := sym_witness lib a b in
  ty_of (fst p) = a /\ ty_of (snd p) = b /\ wf (fst p) = true /\ wf (snd p) = true /\
  exists x, eq lib false (fst p) (snd p) = Val (VBool x) /\ eq lib false (snd p) (fst p) = Val (VBool (negb x)).
Proof.
  intros lib a b H. destruct a, b; try discriminate H; cbn [sym_witness fst snd];
    (repeat split; try reflexivity);
    try (eexists; split; [reflexivity | cbn; try rewrite String.eqb_refl; reflexivity]);
    try (exists true; split; cbn; try rewrite String.eqb_refl; reflexivity);
    try (exists false; split; cbn; try rewrite String.eqb_refl; reflexivity).
  - exists false. split.
    + unfold eq. cbn. destruct (parse_float lib (fmt_float lib nan)); cbn; [rewrite feq_nan_l|]; reflexivity.
    + unfold eq. cbn. rewrite String.eqb_refl. reflexivity.
  - exists true. split.
    + unfold eq. cbn. rewrite String.eqb_refl. reflexivity.
    + unfold eq. cbn. destruct (parse_float lib (fmt_float lib nan)); cbn; [rewrite feq_nan_l|]; reflexivity.
Qed.

(* ------------------------------------------------------------------ the mirror law for < <= > >= *)
Lemma rel_mirror_partial_l : forall lib o l r,
  mirror_known (ty_of l) (ty_of r) = false -> rel lib o l r = rel lib (flip o) r l.
Proof.
  intros lib o l r H. destruct l, r; try discriminate H; destruct o; cbn; try reflexivity.
  all: try (do 2 f_equal; lia).
  all: try (destruct b, b0; reflexivity).
Qed.

Lemma fle_nan_l : forall x, fle nan x = false.
Proof.
  intro x. unfold fle. rewrite FloatAxioms.leb_spec.
  replace (Prim2SF nan) with (@SpecFloat.S754_nan) by (vm_compute; reflexivity). reflexivity.
Qed.

Definition mirror_witness (lib : golib) (a b : ty) : value * value * relop :=
  match a, b with
  | TNull, TInt => (VNull, VInt 1, RLt) | TInt, TNull => (VInt 1, VNull, RGt)
  | TNull, TFloat => (VNull, VFloat 1%float, RLt) | TFloat, TNull => (VFloat 1%float, VNull, RGt)
  | TNull, TStr => (VNull, VStr "", RLe) | TStr, TNull => (VStr "", VNull, RGe)
  | TBool, TStr => (VBool true, VStr "true", RLe) | TStr, TBool => (VStr "true", VBool true, RGe)
  | TInt, TStr => (VInt 1, VStr "1", RLe) | TStr, TInt => (VStr "1", VInt 1, RGe)
  | TFloat, TStr => (VFloat nan, VStr (fmt_float lib nan), RLe) | TStr, TFloat => (VStr (fmt_float lib nan), VFloat nan, RGe)
  | TStr, TArr => (VStr "[]", VArr [], RLe) | TArr, TStr => (VArr [], VStr "[]", RGe)
  | TStr, TObj => (VStr (obj_str lib false 1), VObj 1, RLe) | TObj, TStr => (VObj 1, VStr (obj_str lib false 1), RGe)
  | TStr, TCls => (VStr (obj_str lib true 1), VCls 1, RLe) | TCls, TStr => (VCls 1, VStr (obj_str lib true 1), RGe)
  | _, _ => (VNull, VNull, RLt)
  end.
Lemma leb_refl : forall s, String.leb s s = true.
Proof.
  intro s. pose proof (s_eqb_cmp s s) as H. rewrite String.eqb_refl in H. unfold String.leb.
  destruct (String.compare s s); cbn in H; try discriminate; reflexivity.
Qed.
Lemma rel_mirror_witness_l : forall lib a b, mirror_known a b = true ->
  let '(l, r, o) := mirror_witness lib a b in
  ty_of l = a /\ ty_of r = b /\ wf l = true /\ wf r = true /\
  exists x, rel lib o l r = Val (VBool x) /\ rel lib (flip o) r l = Val (VBool (negb x)).
Proof.
  intros lib a b H. destruct a, b; try discriminate H; cbn [mirror_witness];
    (repeat split; try reflexivity).
  all: try (eexists; split; [reflexivity | cbn; try rewrite leb_refl; reflexivity]).
  all: try (exists true; split; cbn; try rewrite leb_refl; reflexivity).
  all: try (exists false; split; cbn; try rewrite leb_refl; reflexivity).
  - exists false. split; cbn.
    + destruct (parse_float lib (fmt_float lib nan)); cbn; [rewrite fle_nan_l|]; reflexivity.
    + rewrite leb_refl. reflexivity.
  - exists true. split; cbn.
    + rewrite leb_refl. reflexivity.
    + destruct (parse_float lib (fmt_float lib nan)); cbn; [rewrite fle_nan_l|]; reflexivity.
Qed.

Lemma flt_fle : forall a b, flt a b = true -> fle a b = true.
Proof. intros a b H. rewrite flt_fcmp in H. rewrite fle_fcmp, H. reflexivity. Qed.
(* < implies <= (one dispatch) *)
Lemma lt_implies_le_l : forall lib l r, rel lib RLt l r = Val (VBool true) -> rel lib RLe l r = Val (VBool true).
Proof.
  intros lib l r; unfold rel.
  destruct l; destruct r; cbn; pf_cases lib; try discriminate; try reflexivity;
    intro H; injection H as H; do 2 f_equal.
  all: try (apply flt_fle; exact H).
  all: try (apply Z.leb_le; apply Z.ltb_lt in H; lia).
  all: try (destruct b, b0; try reflexivity; discriminate).
  all: try (unfold String.ltb in H; unfold String.leb;
            match goal with |- context [String.compare ?a ?b] => destruct (String.compare a b) end; try discriminate; reflexivity).
Qed.

