(* C03 — lemmas. *)
From V.C03 Require Import Model Spec.
Lemma table_matches_model_l : forall lib v i, implements (ty_of v) i = has_conv lib v i.
Proof. intros lib v i; destruct v, i; try reflexivity; cbn; destruct (parse_float lib s); reflexivity. Qed.
