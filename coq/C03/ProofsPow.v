(* C03 — 64-bit wrap facts and the correctness of intPow (exact integer power with Go's
   overflow test r/base != result). *)
From Coq Require Import ZArith Bool Lia.
From V.C03 Require Import Model Spec.
Open Scope Z_scope.

Lemma in_range_iff : forall z, in_range z = true <-> -9223372036854775808 <= z <= 9223372036854775807.
Proof. intro z; unfold in_range, minint, maxint. rewrite andb_true_iff, !Z.leb_le. tauto. Qed.
Lemma in_range_false_iff : forall z, in_range z = false <-> z < -9223372036854775808 \/ 9223372036854775807 < z.
Proof.
  intro z; unfold in_range, minint, maxint. rewrite andb_false_iff, !Z.leb_gt. tauto.
Qed.

Lemma wrap64_range : forall z, in_range (wrap64 z) = true.
Proof.
  intro z; apply in_range_iff; unfold wrap64.
  pose proof (Z.mod_pos_bound (z + 9223372036854775808) 18446744073709551616 eq_refl). lia.
Qed.
Lemma wrap64_id : forall z, in_range z = true -> wrap64 z = z.
Proof.
  intros z H; apply in_range_iff in H; unfold wrap64.
  rewrite Z.mod_small by lia. lia.
Qed.
Lemma wrap64_decomp : forall z, exists k, wrap64 z = z - 18446744073709551616 * k.
Proof.
  intro z; unfold wrap64. exists ((z + 9223372036854775808) / 18446744073709551616).
  pose proof (Z.div_mod (z + 9223372036854775808) 18446744073709551616 ltac:(lia)). lia.
Qed.

(* Go's overflow test in intPow is exact for |base| >= 2 *)
Lemma overflow_test : forall base result,
  2 <= Z.abs base -> in_range base = true ->
  (Z.quot (wrap64 (result * base)) base =? result) = in_range (result * base).
Proof.
  intros base result Hb Hr.
  destruct (in_range (result * base)) eqn:E.
  - rewrite wrap64_id by exact E. apply Z.eqb_eq. apply Z.quot_mul. lia.
  - apply Z.eqb_neq. intro Hq.
    pose proof (wrap64_range (result * base)) as Hw. apply in_range_iff in Hw.
    apply in_range_false_iff in E. apply in_range_iff in Hr.
    destruct (wrap64_decomp (result * base)) as [k Hk].
    set (r := wrap64 (result * base)) in *.
    assert (base <> 0) by lia.
    pose proof (Z.quot_rem' r base) as Hqr. rewrite Hq in Hqr.
    pose proof (Z.rem_bound_abs r base H) as Hm.
    replace (base * result) with (result * base) in Hqr by ring.
    assert (Z.rem r base = - (18446744073709551616 * k)) by lia.
    lia.
Qed.

Lemma abs_pow_lower : forall b i, 2 <= Z.abs b -> 0 <= i -> 2 ^ i <= Z.abs (b ^ i).
Proof. intros b i Hb Hi. rewrite Z.abs_pow. apply Z.pow_le_mono_l. lia. Qed.

Lemma in_range_pow_small : forall b i, 2 <= Z.abs b -> 0 <= i -> in_range (b ^ i) = true -> i <= 63.
Proof.
  intros b i Hb Hi H. apply in_range_iff in H.
  pose proof (abs_pow_lower b i Hb Hi).
  assert (2 ^ i <= 2 ^ 63) by (change (2 ^ 63) with 9223372036854775808; lia).
  apply (Z.pow_le_mono_r_iff 2 i 63); lia.
Qed.

Lemma out_of_range_mono : forall b j e, 2 <= Z.abs b -> 0 <= j <= e ->
  in_range (b ^ j) = false -> in_range (b ^ e) = false.
Proof.
  intros b j e Hb Hje H.
  destruct (Z.eq_dec j e) as [->|Hne]; [exact H|].
  apply in_range_false_iff in H. apply in_range_false_iff.
  assert (Hj : 9223372036854775808 <= Z.abs (b ^ j)) by lia.
  replace e with (j + (e - j)) by lia. rewrite Z.pow_add_r by lia.
  assert (2 ^ 1 <= Z.abs (b ^ (e - j))).
  { rewrite Z.abs_pow. transitivity (2 ^ (e - j)).
    - apply Z.pow_le_mono_r; lia.
    - apply Z.pow_le_mono_l; lia. }
  change (2 ^ 1) with 2 in H0.
  assert (2 * 9223372036854775808 <= Z.abs (b ^ j * b ^ (e - j))).
  { rewrite Z.abs_mul. nia. }
  lia.
Qed.

Lemma loop_correct : forall exp base fuel result i,
  2 <= Z.abs base -> in_range base = true -> 0 <= i <= exp ->
  result = base ^ i -> in_range result = true -> 64 <= Z.of_nat fuel + i ->
  int_pow_loop fuel base result i exp =
    if in_range (base ^ exp) then PowOk (base ^ exp) else PowOverflow.
Proof.
  intros exp base fuel; induction fuel as [|f IH]; intros result i Hb Hr Hi Hres Hin Hf.
  - exfalso. subst result. pose proof (in_range_pow_small base i Hb ltac:(lia) Hin). simpl in Hf. lia.
  - simpl. destruct (i >=? exp) eqn:E.
    + assert (i = exp) by (rewrite Z.geb_le in E; lia). subst i result. rewrite Hin. reflexivity.
    + assert (i < exp) by (rewrite Z.geb_leb in E; apply Z.leb_gt in E; lia).
      rewrite (overflow_test base result Hb Hr).
      assert (Hstep : result * base = base ^ (i + 1)).
      { subst result. rewrite Z.pow_add_r by lia. rewrite Z.pow_1_r. reflexivity. }
      destruct (in_range (result * base)) eqn:E2; simpl.
      * rewrite wrap64_id by exact E2. apply IH; try assumption; try lia.
      * rewrite Hstep in E2.
        rewrite (out_of_range_mono base (i + 1) exp Hb ltac:(lia) E2). reflexivity.
Qed.

Lemma zpow_is_pow : forall a b, 0 <= b -> zpow a b = a ^ b.
Proof.
  intros a b Hb; unfold zpow.
  destruct (a =? 0) eqn:E0.
  - apply Z.eqb_eq in E0; subst a. destruct (b =? 0) eqn:Eb.
    + apply Z.eqb_eq in Eb; subst b; reflexivity.
    + apply Z.eqb_neq in Eb. rewrite Z.pow_0_l by lia. reflexivity.
  - destruct (a =? 1) eqn:E1.
    + apply Z.eqb_eq in E1; subst a. rewrite Z.pow_1_l by lia. reflexivity.
    + destruct (a =? -1) eqn:E2; [|reflexivity].
      apply Z.eqb_eq in E2; subst a.
      destruct (Z.even b) eqn:Ev.
      * apply Z.even_spec in Ev. destruct Ev as [k ->]. rewrite Z.pow_mul_r by lia. change ((-1) ^ 2) with 1.
        rewrite Z.pow_1_l by lia. reflexivity.
      * rewrite <- Z.negb_odd in Ev. apply negb_false_iff in Ev. apply Z.odd_spec in Ev.
        destruct Ev as [k ->]. rewrite Z.pow_add_r, Z.pow_mul_r by lia. change ((-1) ^ 2) with 1.
        rewrite Z.pow_1_l by lia. reflexivity.
Qed.

(* intPow = exact power when it fits in 64 bits, overflow otherwise; never out of fuel *)
Lemma int_pow_correct : forall base exp, in_range base = true -> 0 <= exp ->
  int_pow base exp = if pow_fits base exp then PowOk (zpow base exp) else PowOverflow.
Proof.
  intros base exp Hr He. unfold int_pow, pow_fits, zpow.
  destruct (base =? 0) eqn:E0.
  { apply Z.eqb_eq in E0; subst base. simpl. destruct (exp =? 0); reflexivity. }
  destruct (base =? 1) eqn:E1.
  { apply Z.eqb_eq in E1; subst base. reflexivity. }
  destruct (base =? -1) eqn:E2.
  { apply Z.eqb_eq in E2; subst base. simpl.
    rewrite Z.rem_mod_nonneg by lia.
    destruct (Z.even exp) eqn:Ev.
    - apply Z.even_spec in Ev. destruct Ev as [k ->].
      replace (2 * k) with (k * 2) by ring. rewrite Z.mod_mul by lia. reflexivity.
    - rewrite <- Z.negb_odd in Ev. apply negb_false_iff in Ev. apply Z.odd_spec in Ev.
      destruct Ev as [k ->]. replace (2 * k + 1) with (1 + k * 2) by ring.
      rewrite Z.mod_add by lia. reflexivity. }
  apply Z.eqb_neq in E0, E1, E2.
  assert (Hb : 2 <= Z.abs base) by lia.
  replace (Z.abs base <=? 1) with false by (symmetry; apply Z.leb_gt; lia).
  rewrite (loop_correct exp base 64 1 0 Hb Hr ltac:(lia) ltac:(reflexivity) ltac:(reflexivity) ltac:(simpl; lia)).
  destruct (exp <? 64) eqn:E64; [reflexivity|].
  apply Z.ltb_ge in E64.
  destruct (in_range (base ^ exp)) eqn:E; [|reflexivity].
  pose proof (in_range_pow_small base exp Hb He E). lia.
Qed.
