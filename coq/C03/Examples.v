From V.C03 Require Import Model Spec Proofs.
