(* C03 — non-vacuity: concrete operands meeting the theorems' hypotheses, and worked results. *)
From Coq Require Import ZArith Bool String Floats.
From V.C03 Require Import Model Spec Proofs.
Open Scope Z_scope.

Definition nolib : golib :=
  {| parse_float := fun _ => None; parse_int := fun _ => None; fmt_float := fun _ => ""%string;
     pow_float := fun _ _ => nan; obj_str := fun _ _ => ""%string |}.

(* hypotheses of model_is_ref_on_D are satisfiable, non-trivially *)
Example ex_inD_mul : inD nolib OMul (VInt 2) (VFloat 1.5) = true /\ wf (VInt 2) = true /\ wf (VFloat 1.5) = true.
Proof. repeat split. Qed.
Example ex_mul : binop_eval nolib false OMul (VInt 2) (VFloat 1.5) = Val (VFloat 3).
Proof. vm_compute. reflexivity. Qed.
Example ex_sub : binop_eval nolib false OSub (VInt 2) (VFloat 0.5) = Val (VFloat 1.5).
Proof. vm_compute. reflexivity. Qed.
Example ex_wrap : binop_eval nolib false OAdd (VInt maxint) (VInt 1) = Val (VInt minint).
Proof. vm_compute. reflexivity. Qed.
Example ex_quo : binop_eval nolib false OQuo (VInt 6) (VInt 3) = Val (VFloat 2).
Proof. vm_compute. reflexivity. Qed.
Example ex_div0 : binop_eval nolib false OQuo (VInt 1) (VFloat (-0)) = Throw /\
                  binop_eval nolib false ORem (VFloat 5) (VFloat 0.5) = Throw.
Proof. split; vm_compute; reflexivity. Qed.
Example ex_pow : binop_eval nolib false OPow (VInt 3) (VInt 39) = Val (VInt 4052555153018976267).
Proof. vm_compute. reflexivity. Qed.
Example ex_pow_overflow : binop_eval nolib false OPow (VInt 2) (VInt 63) = Val (VFloat nan).
Proof. vm_compute. reflexivity. Qed.   (* the float result is math.Pow's, here the dummy lib *)
Example ex_cmp_mixed : binop_eval nolib false OLt (VInt 1) (VFloat 1.5) = Val (VBool true) /\
                       binop_eval nolib false OEq (VInt 1) (VFloat 1.5) = Val (VBool false) /\
                       binop_eval nolib false OCmp (VInt 1) (VFloat 1.5) = Val (VInt (-1)).
Proof. repeat split; vm_compute; reflexivity. Qed.
Example ex_nan_same : binop_eval nolib true OEq (VFloat nan) (VFloat nan) = Val (VBool false) /\
                      binop_eval nolib true OEq (VFloat 1) (VFloat 1) = Val (VBool true).
Proof. split; vm_compute; reflexivity. Qed.
Example ex_shift : binop_eval nolib false OShl (VInt 1) (VInt (-1)) = Throw /\
                   binop_eval nolib false OShl (VInt 1) (VInt 64) = Val (VInt 0) /\
                   binop_eval nolib false OShr (VInt (-8)) (VInt 70) = Val (VInt (-1)).
Proof. repeat split; vm_compute; reflexivity. Qed.
Example ex_no_crash : binop_eval nolib false ORem (VInt 2) (VStr "a") = Throw /\
                      binop_eval nolib false OPow (VBool true) (VInt 2) = Throw /\
                      unop_eval nolib UNeg (VBool true) = Throw.
Proof. repeat split; vm_compute; reflexivity. Qed.
Example ex_truthy : ctx_eval nolib CIf (VInt (-1)) = CB true /\ ctx_eval nolib CTernary (VInt (-1)) = CB true /\
                    ctx_eval nolib CCast (VFloat (-0.5)) = CB true /\ ctx_eval nolib CNot (VFloat (-0)) = CB false.
Proof. repeat split; vm_compute; reflexivity. Qed.

(* eq_sym_partial / cmp_lt_gt_partial: their domain predicates hold on interesting pairs *)
Example ex_sym_dom : eq_sym_known TInt TFloat = false /\ eq_sym_known TStr TStr = false /\ eq_sym_known TInt TStr = true.
Proof. repeat split. Qed.
(* the `same` hypothesis: satisfiable with same = true *)
Example ex_same : (true = true -> VInt 5 = VInt 5) /\ eq nolib true (VInt 5) (VInt 5) = Val (VBool true).
Proof. split; [intros; reflexivity | reflexivity]. Qed.
(* div_zero_throws hypotheses *)
Example ex_zero_hyp : PrimFloat.eqb (tof (VFloat (-0))) 0%float = true /\ toi (VFloat 0.5) = 0.
Proof. split; vm_compute; reflexivity. Qed.
(* int_pow_exact: a fitting and an overflowing instance *)
Example ex_pow_fits : pow_fits 3 39 = true /\ pow_fits 2 63 = false /\ pow_fits (-2) 63 = true.
Proof. repeat split; vm_compute; reflexivity. Qed.

(* nil operands (result of a call that returns nothing) *)
Example ex_nil : binop_eval nolib false OLOr VNil (VBool true) = Val (VBool true)
              /\ binop_eval nolib false OLAnd VNil (VBool true) = Val (VBool false)
              /\ binop_eval nolib false OAdd VNull VNil = Val (VInt 0)
              /\ binop_eval nolib false OCmp VNull (VInt 0) = Val (VInt 0)
              /\ unop_eval nolib UNot VNil = Val (VBool true).
Proof. repeat split; vm_compute; reflexivity. Qed.
Example ex_div_zero_any : as_float nolib VNull = Conv fzero /\ as_int VNull = Conv 0.
Proof. split; reflexivity. Qed.
