(* C03 — which data.*Value types implement which conversion interfaces.
   This file is the table the model was proved with.  On every run the Go engine regenerates
   the table by reflection (reflect.Type.Implements) from /repo and checks/C03.py compares it
   with the definition below; a difference is a broken tie. *)
From Coq Require Export List.
Export ListNotations.

Inductive ty := TNull | TBool | TInt | TFloat | TStr | TArr | TObj | TCls
  | TNil.   (* a nil value (the result of a call that returns nothing): no type, implements nothing *)
Inductive iface := AsInt | AsFloat | AsBool | AsString.

(* BEGIN TABLE *)
Definition iface_table : list (ty * list iface) := [
  (TNull, [AsInt; AsFloat; AsBool; AsString]);
  (TBool, [AsBool; AsString]);
  (TInt, [AsInt; AsFloat; AsBool; AsString]);
  (TFloat, [AsInt; AsFloat; AsBool; AsString]);
  (TStr, [AsFloat; AsBool; AsString]);
  (TArr, [AsBool; AsString]);
  (TObj, [AsBool; AsString]);
  (TCls, [AsBool; AsString])
].
(* END TABLE *)
