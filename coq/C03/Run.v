(* C03 — correspondence: evaluate the model (tie) and the spec (property oracle) on the cases
   the implementation ran.  One case = one ordered operand pair with the observations of ALL
   binary operators in both directions, so the coherence laws are checked on the same data. *)
From V.C03 Require Import Model Spec.
Open Scope Z_scope.

(* floats are compared as values: all NaNs alike, +0 and -0 distinguished *)
Definition same_float (a b : float) : bool :=
  match PrimFloat.classify a, PrimFloat.classify b with
  | NaN, NaN => true
  | PZero, PZero => true
  | NZero, NZero => true
  | NaN, _ | _, NaN | PZero, _ | _, PZero | NZero, _ | _, NZero => false
  | _, _ => PrimFloat.eqb a b
  end.
Definition value_eqb (a b : value) : bool :=
  match a, b with
  | VNull, VNull => true
  | VBool x, VBool y => Bool.eqb x y
  | VInt x, VInt y => x =? y
  | VFloat x, VFloat y => same_float x y
  | VStr x, VStr y => String.eqb x y
  | VArr x, VArr y => zlist_eqb x y
  | VObj x, VObj y => Nat.eqb x y
  | VCls x, VCls y => Nat.eqb x y
  | _, _ => false
  end.

(* what the Go engine observed *)
Inductive iobs :=
| IVal (v : value)     (* a scalar or an int array, with its content *)
| IKind (t : ty)       (* some value of that type (array/object results) *)
| IThrow | IPanic | INil.
Definition to_outcome (i : iobs) : outcome :=
  match i with
  | IVal v => Val v | IKind t => Opaque t | IThrow => Throw | IPanic => Crash | INil => NoValue
  end.
Definition agree (m : outcome) (i : iobs) : bool :=
  match m, i with
  | Val v, IVal w => value_eqb v w
  | Opaque t, IKind t' => ty_eqb t t'
  | Opaque t, IVal w => ty_eqb t (ty_of w)
  | Throw, IThrow => true
  | Crash, IPanic => true
  | NoValue, INil => true
  | _, _ => false
  end.

(* the graphs of the unmodelled library functions on this case's operands, measured by the
   engine by calling strconv / math directly (and AsString for object rendering) *)
Record oracle := {
  o_pf : list (string * option float);
  o_pi : list (string * option Z);
  o_ff : list (float * string);
  o_pow : list (float * float * float);
  o_ostr : list (bool * nat * string)
}.
Fixpoint look_pf (s : string) (l : list (string * option float)) : option float :=
  match l with [] => None | (k, v) :: r => if String.eqb k s then v else look_pf s r end.
Fixpoint look_pi (s : string) (l : list (string * option Z)) : option Z :=
  match l with [] => None | (k, v) :: r => if String.eqb k s then v else look_pi s r end.
Fixpoint look_ff (f : float) (l : list (float * string)) : string :=
  match l with [] => "?unformatted?"%string | (k, v) :: r => if same_float k f then v else look_ff f r end.
Fixpoint look_pow (a b : float) (l : list (float * float * float)) : float :=
  match l with
  | [] => nan
  | (x, y, z) :: r => if same_float x a && same_float y b then z else look_pow a b r
  end.
Fixpoint look_ostr (c : bool) (id : nat) (l : list (bool * nat * string)) : string :=
  match l with
  | [] => "?object?"%string
  | (c', id', s) :: r => if Bool.eqb c c' && Nat.eqb id id' then s else look_ostr c id r
  end.
Definition lib_of (o : oracle) : golib :=
  {| parse_float := fun s => look_pf s (o_pf o);
     parse_int := fun s => look_pi s (o_pi o);
     fmt_float := fun f => look_ff f (o_ff o);
     pow_float := fun a b => look_pow a b (o_pow o);
     obj_str := fun c id => look_ostr c id (o_ostr o) |}.

Definition all_binops : list binop :=
  [OAdd; OSub; OMul; OQuo; ORem; OPow; OBAnd; OBOr; OBXor; OShl; OShr;
   OEq; ONe; OSEq; OSNe; OLt; OLe; OGt; OGe; OCmp; OLAnd; OLOr; ODot].
Definition all_unops : list unop := [UNeg; UNot; UBNot].
Definition all_ctx : list bctx := [CIf; CElseIf; CWhile; CDoWhile; CFor; CTernary; CNot; CLAnd; CLOr; CCast].

(* failing-clause code for operator number i (position in all_binops), direction d (0 = l,r ;
   1 = r,l), kind k:  d*2400 + i*100 + k
     k = 1  model and implementation disagree (tie)
     k = 2  implementation differs from the reference result on the documented domain D
     k = 3  implementation outcome is neither a value nor a catchable error
   laws: 2301 == not symmetric, 2302 ==/!= not complements, 2303 ===/!== not complements,
         2304 <=> disagrees with < / >           (+2400 for the r,l direction) *)
Definition check_op (lib : golib) (same : bool) (d i : nat) (o : binop) (l r : value) (ob : iobs) : list nat :=
  let base := (d * 2400 + i * 100)%nat in
  let m := binop_eval lib same o l r in
  (if agree m ob then [] else [(base + 1)%nat]) ++
  (if inD lib o l r && wf l && wf r && negb (agree (ref_binop lib o l r) ob) then [(base + 2)%nat] else []) ++
  (if acceptable (to_outcome ob) then [] else [(base + 3)%nat]).

Fixpoint check_ops (lib : golib) (same : bool) (d i : nat) (ops : list binop) (l r : value) (obs : list iobs) : list nat :=
  match ops, obs with
  | o :: ops', ob :: obs' => check_op lib same d i o l r ob ++ check_ops lib same d (S i) ops' l r obs'
  | [], [] => []
  | _, _ => [4999%nat]          (* malformed case *)
  end.

Definition nth_obs (n : nat) (obs : list iobs) : outcome := to_outcome (nth n obs IPanic).
(* positions in all_binops *)
Definition laws (d : nat) (ab ba : list iobs) : list nat :=
  let off := (d * 2400)%nat in
  (if law_sym (nth_obs 11 ab) (nth_obs 11 ba) then [] else [(off + 2301)%nat]) ++
  (if law_compl (nth_obs 11 ab) (nth_obs 12 ab) then [] else [(off + 2302)%nat]) ++
  (if law_compl (nth_obs 13 ab) (nth_obs 14 ab) then [] else [(off + 2303)%nat]) ++
  (if law_cmp (nth_obs 19 ab) (nth_obs 15 ab) (nth_obs 17 ab) then [] else [(off + 2304)%nat]).

(* the operator result used as a loop condition (`for (; $l OP R; )`): only its truthiness is
   observed *)
Definition truth_agree (m : outcome) (ob : iobs) : bool :=
  match m, ob with
  | Val v, IVal (VBool b) => Bool.eqb (ref_truthy v) b
  | Opaque _, IVal (VBool _) => true
  | Throw, IThrow => true
  | Crash, IPanic => true
  | _, _ => false
  end.
Definition check_op_truth (lib : golib) (d i : nat) (o : binop) (l r : value) (ob : iobs) : list nat :=
  let base := (d * 2400 + i * 100)%nat in
  (if truth_agree (binop_eval lib false o l r) ob then [] else [(base + 1)%nat]) ++
  (if inD lib o l r && wf l && wf r && negb (truth_agree (ref_binop lib o l r) ob) then [(base + 2)%nat] else []) ++
  (if acceptable (to_outcome ob) then [] else [(base + 3)%nat]).
Fixpoint check_ops_truth (lib : golib) (d i : nat) (ops : list binop) (l r : value) (obs : list iobs) : list nat :=
  match ops, obs with
  | o :: ops', ob :: obs' => check_op_truth lib d i o l r ob ++ check_ops_truth lib d (S i) ops' l r obs'
  | [], [] => []
  | _, _ => [4999%nat]
  end.

Inductive case :=
| CTruth (l r : value) (orc : oracle) (lr rl : list iobs)  (* truthiness of all_binops results as for-conditions *)
| CPair (l r : value) (orc : oracle) (lr rl : list iobs)   (* all_binops on (l,r) and on (r,l), distinct objects *)
| CSame (v : value) (orc : oracle) (obs : list iobs)       (* all_binops on (v,v), the SAME Go object *)
| CUn (v : value) (orc : oracle) (obs : list iobs)         (* all_unops *)
| CCtxs (v : value) (obs : list iobs)                      (* all_ctx: IVal (VBool b) = branch taken *)
| CCasts (v : value) (orc : oracle) (obs : list iobs)      (* (int), (float) *)
| CAssign (v : value) (obs : list iobs).                   (* a variable with a history is assigned v: it holds v *)

Definition cres_agree (c : cres) (i : iobs) : bool :=
  match c, i with
  | CB b, IVal (VBool b') => Bool.eqb b b'
  | CThrow, IThrow => true
  | CCrash, IPanic => true
  | CNoBool, IVal (VBool _) => false
  | CNoBool, IVal _ | CNoBool, IKind _ | CNoBool, INil => true
  | _, _ => false
  end.
Definition dummy_lib : golib :=
  {| parse_float := fun _ => None; parse_int := fun _ => None; fmt_float := fun _ => ""%string; pow_float := fun _ _ => nan; obj_str := fun _ _ => ""%string |}.
(* contexts: 4800 + i*10 + k; k = 1 tie, k = 4 context i disagrees with the one truthiness *)
Fixpoint check_ctxs (i : nat) (cs : list bctx) (v : value) (obs : list iobs) : list nat :=
  match cs, obs with
  | c :: cs', ob :: obs' =>
      (if cres_agree (ctx_eval dummy_lib c v) ob then [] else [(4800 + i * 10 + 1)%nat]) ++
      (if cres_agree (CB (ref_truthy v)) ob then [] else [(4800 + i * 10 + 4)%nat]) ++
      check_ctxs (S i) cs' v obs'
  | [], [] => []
  | _, _ => [4999%nat]
  end.
(* unary: 4900 + i*10 + k *)
Fixpoint check_uns (lib : golib) (i : nat) (os : list unop) (v : value) (obs : list iobs) : list nat :=
  match os, obs with
  | o :: os', ob :: obs' =>
      (if agree (unop_eval lib o v) ob then [] else [(4900 + i * 10 + 1)%nat]) ++
      (if inD1 o v && wf v && negb (agree (ref_unop o v) ob) then [(4900 + i * 10 + 2)%nat] else []) ++
      (if acceptable (to_outcome ob) then [] else [(4900 + i * 10 + 3)%nat]) ++
      check_uns lib (S i) os' v obs'
  | [], [] => []
  | _, _ => [4999%nat]
  end.

Definition check_case (c : case) : list nat :=
  match c with
  | CTruth l r orc lr rl =>
      let lib := lib_of orc in
      check_ops_truth lib 0 0 all_binops l r lr ++ check_ops_truth lib 1 0 all_binops r l rl
  | CPair l r orc lr rl =>
      let lib := lib_of orc in
      check_ops lib false 0 0 all_binops l r lr ++ check_ops lib false 1 0 all_binops r l rl ++
      laws 0 lr rl ++ laws 1 rl lr
  | CSame v orc obs =>
      let lib := lib_of orc in
      check_ops lib true 0 0 all_binops v v obs ++ laws 0 obs obs
  | CUn v orc obs => check_uns (lib_of orc) 0 all_unops v obs
  | CCtxs v obs => check_ctxs 0 all_ctx v obs
  | CAssign v obs =>
      (* assignment routes: 4600 + i*10 + 1: the variable holds exactly the assigned value
         (same kind; floats by bits, so 0.0 and -0.0, 1 and 1.0, "1" and 1 are all different) *)
      (fix go (i : nat) (obs : list iobs) : list nat :=
         match obs with
         | ob :: obs' => (if agree (Val v) ob then [] else [(4600 + i * 10 + 1)%nat]) ++ go (S i) obs'
         | [] => []
         end) 0%nat obs
  | CCasts v orc obs =>
      (* casts: 4650 + i*10 + k *)
      let lib := lib_of orc in
      (fix go (i : nat) (cs : list castop) (obs : list iobs) : list nat :=
         match cs, obs with
         | c :: cs', ob :: obs' =>
             (if agree (cast_eval lib c v) ob then [] else [(4650 + i * 10 + 1)%nat]) ++
             (if scalar v && wf v && negb (agree (ref_cast lib c v) ob) then [(4650 + i * 10 + 2)%nat] else []) ++
             (if acceptable (to_outcome ob) then [] else [(4650 + i * 10 + 3)%nat]) ++
             go (S i) cs' obs'
         | [], [] => []
         | _, _ => [4999%nat]
         end) 0%nat [CastInt; CastFloat] obs
  end.
