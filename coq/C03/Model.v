(* C03 — executable model of the scalar operators and boolean contexts of /repo, as the code
   is written (after the C03 fix commits): node/binary_*.go GetValue, node/expression.go
   (UnaryExpression), data.Compare, the AsInt/AsFloat/AsBool/AsString methods of the value
   types, and the places where a condition is turned into a bool (if/elseif/while/do-while/for,
   ternary, !, &&, ||, the (bool) cast = std/convert_bool.go).
   Each function follows the Go type switch top to bottom.  A Go type assertion that can fail
   is `Crash`; a `return nil, nil` is `NoValue`.
   Three Go standard-library functions are not modelled but taken as a parameter `lib`
   (strconv.ParseFloat, strconv.FormatFloat(_, 'g', 14, 64), math.Pow) together with the
   text rendering of objects (ObjectValue/ClassValue.AsString, not a scalar operation); every
   theorem quantifies over `lib`.
   No proofs here: this file must keep evaluating when a proof breaks. *)
From Coq Require Export ZArith List Bool String Floats DecimalString Uint63.
From V.C03 Require Export IfaceTable.
Export ListNotations.
Open Scope Z_scope.

(* ------------------------------------------------------------------ values *)
Inductive value :=
| VNull | VBool (b : bool) | VInt (z : Z) | VFloat (f : float) | VStr (s : string)
| VArr (items : list Z)        (* an array of ints (enough to exercise the array branches) *)
| VObj (id : nat)              (* *data.ObjectValue, identified by id; carries property p = id *)
| VCls (id : nat)              (* *data.ClassValue (instance of a class without __toString) *)
| VNil.                        (* a nil data.GetValue: what a call of a function without a result evaluates to *)

Definition ty_of (v : value) : ty :=
  match v with
  | VNull => TNull | VBool _ => TBool | VInt _ => TInt | VFloat _ => TFloat | VStr _ => TStr
  | VArr _ => TArr | VObj _ => TObj | VCls _ => TCls | VNil => TNil
  end.

Definition ty_eqb (a b : ty) : bool :=
  match a, b with
  | TNull, TNull | TBool, TBool | TInt, TInt | TFloat, TFloat | TStr, TStr
  | TArr, TArr | TObj, TObj | TCls, TCls | TNil, TNil => true
  | _, _ => false
  end.
Definition iface_eqb (a b : iface) : bool :=
  match a, b with
  | AsInt, AsInt | AsFloat, AsFloat | AsBool, AsBool | AsString, AsString => true
  | _, _ => false
  end.
(* the regenerated table, as a predicate *)
Definition implements (t : ty) (i : iface) : bool :=
  existsb (fun p => ty_eqb (fst p) t && existsb (iface_eqb i) (snd p)) iface_table.

(* what is taken from the Go standard library / not modelled (see header) *)
Record golib := {
  parse_float : string -> option float;      (* strconv.ParseFloat(s, 64): None = error *)
  parse_int : string -> option Z;            (* strconv.Atoi(s): None = error *)
  fmt_float : float -> string;               (* strconv.FormatFloat(f, 'g', 14, 64) *)
  pow_float : float -> float -> float;       (* math.Pow *)
  obj_str : bool -> nat -> string            (* AsString of an object (false) / class instance (true) *)
}.

Inductive outcome :=
| Val (v : value)
| Opaque (t : ty)      (* a value of that type whose content is not modelled (array/object merges) *)
| Throw                (* data.NewErrorThrow: a catchable script error *)
| Crash                (* a Go panic: failed type assertion, integer division by zero, negative shift *)
| NoValue              (* `return nil, nil` *)
| OutOfFuel.

(* ------------------------------------------------------------------ 64-bit ints, float64 *)
Definition minint : Z := -9223372036854775808.
Definition maxint : Z := 9223372036854775807.
Definition in_range (z : Z) : bool := (minint <=? z) && (z <=? maxint).
Definition wrap64 (z : Z) : Z := (z + 9223372036854775808) mod 18446744073709551616 - 9223372036854775808.

Definition two63f : float := 0x1p+63%float.
(* float64(i) for an int64 i: round to nearest even (of_uint63 is correctly rounded) *)
Definition Z2f (z : Z) : float :=
  if z =? minint then (- two63f)%float
  else if z <? 0 then (- (of_uint63 (Uint63.of_Z (- z))))%float
  else of_uint63 (Uint63.of_Z z).
(* int(f) / int64(f) on amd64 (CVTTSD2SQ): truncation toward zero; NaN and values outside
   [-2^63, 2^63) give the "integer indefinite" value -2^63.   ASSUMED hardware behaviour. *)
Definition f2i (f : float) : Z :=
  match Prim2SF f with
  | S754_zero _ => 0
  | S754_infinity _ | S754_nan => minint
  | S754_finite s m e =>
      let a := if e >=? 0 then Zpos m * 2 ^ e else Zpos m / 2 ^ (- e) in
      let r := if s then - a else a in
      if in_range r then r else minint
  end.

Definition fzero : float := 0%float.
Definition feq (a b : float) : bool := PrimFloat.eqb a b.        (* Go == on float64 *)
Definition flt (a b : float) : bool := PrimFloat.ltb a b.        (* Go <  *)
Definition fle (a b : float) : bool := PrimFloat.leb a b.        (* Go <= *)

Definition itoa (z : Z) : string := NilZero.string_of_int (Z.to_int z).   (* fmt.Sprintf("%d") *)

(* ------------------------------------------------------------------ the As* methods *)
Inductive conv (A : Type) := NoIface | ConvErr | Conv (a : A).
Arguments NoIface {A}. Arguments ConvErr {A}. Arguments Conv {A} a.

(* v.(data.AsInt) + AsInt(): IntValue, FloatValue (truncates), NullValue.  StringValue.AsInt
   returns (int64, error) and therefore does NOT implement data.AsInt. *)
Definition as_int (v : value) : conv Z :=
  match v with
  | VNull => Conv 0 | VInt z => Conv z | VFloat f => Conv (f2i f)
  | _ => NoIface
  end.
Definition as_float (lib : golib) (v : value) : conv float :=
  match v with
  | VNull => Conv fzero | VInt z => Conv (Z2f z) | VFloat f => Conv f
  | VStr s => match parse_float lib s with Some f => Conv f | None => ConvErr end
  | _ => NoIface
  end.
Definition as_bool (v : value) : conv bool :=
  match v with
  | VNull => Conv false
  | VBool b => Conv b
  | VInt z => Conv (negb (z =? 0))
  | VFloat f => Conv (negb (feq f fzero))
  | VStr s => Conv (negb (String.eqb s ""))
  | VArr l => Conv (negb (Nat.eqb (List.length l) 0))
  | VObj _ | VCls _ => Conv true
  | VNil => NoIface
  end.
Fixpoint join_ints (l : list Z) : string :=
  match l with
  | [] => ""
  | [x] => itoa x
  | x :: r => (itoa x ++ ", " ++ join_ints r)%string
  end.
Definition as_string (lib : golib) (v : value) : string :=
  match v with
  | VNull => ""
  | VBool b => if b then "true" else "false"
  | VInt z => itoa z
  | VFloat f => fmt_float lib f
  | VStr s => s
  | VArr l => ("[" ++ join_ints l ++ "]")%string
  | VObj id => obj_str lib false id
  | VCls id => obj_str lib true id
  | VNil => ""                 (* never called on nil by the code; every use is guarded below *)
  end.
(* which conversions exist, to be compared with the regenerated interface table *)
Definition has_conv (lib : golib) (v : value) (i : iface) : bool :=
  match i with
  | AsInt => match as_int v with NoIface => false | _ => true end
  | AsFloat => match as_float lib v with NoIface => false | _ => true end
  | AsBool => match as_bool v with NoIface => false | _ => true end
  | AsString => match v with VNil => false | _ => true end
  end.

(* node/binary_operand.go: checked conversions; a missing interface or a conversion error is
   a catchable error *)
Definition opd_int (v : value) (k : Z -> outcome) : outcome :=
  match as_int v with Conv z => k z | _ => Throw end.
Definition opd_float (lib : golib) (v : value) (k : float -> outcome) : outcome :=
  match as_float lib v with Conv f => k f | _ => Throw end.

Definition is_float (v : value) : bool := match v with VFloat _ => true | _ => false end.

(* ------------------------------------------------------------------ + (binary_add.go) *)
Definition denil (v : value) : value := match v with VNil => VNull | _ => v end.
(* addNumericStringOperand: a numeric string next to an int/float is replaced by its number *)
Definition is_number (v : value) : bool := match v with VInt _ | VFloat _ => true | _ => false end.
Definition str_number (lib : golib) (s : string) : option value :=
  match parse_int lib s with
  | Some z => Some (VInt z)
  | None => match parse_float lib s with Some f => Some (VFloat f) | None => None end
  end.
Definition numstr (lib : golib) (l r : value) : value * value :=
  match l, r with
  | VStr s, _ => if is_number r then match str_number lib s with Some n => (n, r) | None => (l, r) end else
                 (l, r)
  | _, VStr s => if is_number l then match str_number lib s with Some n => (l, n) | None => (l, r) end else
                 (l, r)
  | _, _ => (l, r)
  end.
Definition add (lib : golib) (l0 r0 : value) : outcome :=
  let (l, r) := numstr lib (denil l0) (denil r0) in
  let fast :=
    if is_float l || is_float r then
      match as_float lib l with
      | Conv lf => match as_float lib r with Conv rf => Some (Val (VFloat (lf + rf))) | _ => None end
      | _ => None
      end
    else None in
  match fast with
  | Some o => o
  | None =>
    match l with
    | VStr ls => Val (VStr (ls ++ as_string lib r))
    | VInt li =>
        match as_int r with
        | Conv ri => Val (VInt (wrap64 (li + ri)))
        | ConvErr => Throw
        | NoIface =>
            match as_float lib r with
            | Conv rf => Val (VFloat (Z2f li + rf))
            | ConvErr => Throw
            | NoIface => Val (VStr (itoa li ++ as_string lib r))
            end
        end
    | VFloat lf =>
        match as_int r with
        | Conv ri => Val (VFloat (lf + Z2f ri))
        | ConvErr => Throw
        | NoIface =>
            match r with
            | VStr rs => Val (VStr (fmt_float lib lf ++ rs))
            | _ => match as_float lib r with
                   | Conv rf => Val (VFloat (lf + rf))
                   | ConvErr => Throw
                   | NoIface => Throw          (* no case matches: the final "unsupported" error *)
                   end
            end
        end
    | VBool lb =>
        let li := if lb then 1 else 0 in
        match as_int r with
        | Conv ri => Val (VInt (wrap64 (li + ri)))
        | ConvErr => Val (VStr (itoa li ++ as_string lib r))
        | NoIface =>
            match as_float lib r with
            | Conv rf => Val (VFloat (Z2f li + rf))
            | ConvErr => Val (VStr (itoa li ++ as_string lib r))
            | NoIface => Val (VStr (itoa li ++ as_string lib r))
            end
        end
    | VNull =>
        match as_int r with
        | Conv ri => Val (VInt (wrap64 (0 + ri)))
        | ConvErr => Throw
        | NoIface => Val (VStr ("" ++ as_string lib r))
        end
    | VArr la => match r with VArr ra => Val (VArr (la ++ ra)) | _ => Opaque TArr end
    | VObj _ => match r with VObj _ | VCls _ => Opaque TObj | VArr _ => Opaque TArr | _ => Throw end
    | VCls id =>
        match r with
        | VObj _ | VCls _ => Opaque TObj
        | VArr _ => Opaque TArr
        | _ => Val (VStr (obj_str lib true id ++ as_string lib r))
        end
    | VNil => Throw              (* unreachable: nil was replaced by null *)
    end
  end.

(* ------------------------------------------------------------------ - * / % ** *)
Definition sub (lib : golib) (l r : value) : outcome :=
  match l with
  | VStr _ | VNull =>
      opd_float lib l (fun lf => opd_float lib r (fun rf => Val (VFloat (lf - rf))))
  | VInt li =>
      match r with
      | VFloat rf => Val (VFloat (Z2f li - rf))
      | _ => opd_int r (fun ri => Val (VInt (wrap64 (li - ri))))
      end
  | VFloat lf => opd_float lib r (fun rf => Val (VFloat (lf - rf)))
  | _ => Throw
  end.

Definition mul (lib : golib) (l r : value) : outcome :=
  match l with
  | VInt li =>
      match r with
      | VFloat rf => Val (VFloat (Z2f li * rf))
      | _ => opd_int r (fun ri => Val (VInt (wrap64 (li * ri))))
      end
  | VFloat lf => opd_float lib r (fun rf => Val (VFloat (lf * rf)))
  | _ => Throw
  end.

Definition quo (lib : golib) (l r : value) : outcome :=
  match l with
  | VInt li =>
      match as_float lib r with
      | Conv rf => if feq rf fzero then Throw else Val (VFloat (Z2f li / rf))
      | ConvErr => Throw
      | NoIface =>
          match as_int r with
          | Conv ri => if ri =? 0 then Throw else Val (VFloat (Z2f li / Z2f ri))
          | ConvErr => Throw
          | NoIface => Throw
          end
      end
  | VFloat lf => opd_float lib r (fun rf => if feq rf fzero then Throw else Val (VFloat (lf / rf)))
  | _ => Throw
  end.

Definition rem (l r : value) : outcome :=
  match l with
  | VInt _ | VFloat _ =>
      opd_int l (fun li => opd_int r (fun ri =>
        if ri =? 0 then Throw else Val (VInt (Z.rem li ri))))
  | _ => Throw
  end.

(* intPow: exact integer power by repeated multiplication with Go's overflow test r/base != result *)
Inductive powres := PowOk (z : Z) | PowOverflow | PowFuel.
Fixpoint int_pow_loop (fuel : nat) (base result i exp : Z) : powres :=
  if i >=? exp then PowOk result else
  match fuel with
  | O => PowFuel
  | S f =>
      let r := wrap64 (result * base) in
      if negb (Z.quot r base =? result) then PowOverflow
      else int_pow_loop f base r (i + 1) exp
  end.
Definition int_pow (base exp : Z) : powres :=
  if base =? 0 then (if exp =? 0 then PowOk 1 else PowOk 0)
  else if base =? 1 then PowOk 1
  else if base =? -1 then (if Z.rem exp 2 =? 0 then PowOk 1 else PowOk (-1))
  else int_pow_loop 64 base 1 0 exp.

Definition pow (lib : golib) (l r : value) : outcome :=
  opd_float lib l (fun lf => opd_float lib r (fun rf =>
    let fl := Val (VFloat (pow_float lib lf rf)) in
    match l, r with
    | VInt li, VInt ri =>
        if ri >=? 0 then
          match int_pow li ri with
          | PowOk p => Val (VInt p)
          | PowOverflow => fl
          | PowFuel => OutOfFuel
          end
        else fl
    | _, _ => fl
    end)).

(* ------------------------------------------------------------------ & | ^ << >> *)
Definition to_int_or_zero (v : value) : Z :=
  match v with
  | VNull => 0
  | VStr _ => 0
  | _ => match as_int v with Conv n => n | _ => 0 end
  end.
Definition band (l r : value) : outcome := Val (VInt (Z.land (to_int_or_zero l) (to_int_or_zero r))).
Definition bor (l r : value) : outcome := Val (VInt (Z.lor (to_int_or_zero l) (to_int_or_zero r))).
Definition bxor (l r : value) : outcome := Val (VInt (Z.lxor (to_int_or_zero l) (to_int_or_zero r))).

Definition shl (l r : value) : outcome :=
  opd_int l (fun li => opd_int r (fun ri =>
    if ri <? 0 then Throw
    else Val (VInt (if ri >=? 64 then 0 else wrap64 (Z.shiftl li ri))))).
Definition shr (l r : value) : outcome :=
  opd_int l (fun li => opd_int r (fun ri =>
    if ri <? 0 then Throw
    else Val (VInt (Z.shiftr li (Z.min ri 64))))).

(* ------------------------------------------------------------------ == != *)
(* `same` = the two operands are one and the same Go object (`$x == $x`): BinaryEq/BinaryNe
   start with the interface comparison lv == rv *)
Definition eq_body (lib : golib) (ne : bool) (l r : value) : outcome :=
  let b (x : bool) := Val (VBool (if ne then negb x else x)) in
  match l with
  | VInt li =>
      match r with
      | VFloat rf => b (feq (Z2f li) rf)
      | _ => match as_int r with
             | Conv ri => b (li =? ri)
             | ConvErr => Throw
             | NoIface => Val (VBool ne)
             end
      end
  | VFloat lf =>
      match as_float lib r with
      | Conv rf => b (feq lf rf)
      | ConvErr => Val (VBool ne)       (* a non-numeric string is unequal to a float *)
      | NoIface => Val (VBool ne)
      end
  | VStr ls => match r with VNil => Val (VBool ne) | _ => b (String.eqb ls (as_string lib r)) end
  | VBool lb =>
      match as_bool r with
      | Conv rb => b (Bool.eqb lb rb)
      | ConvErr => Throw
      | NoIface => Val (VBool ne)
      end
  | VNull => match r with VNull => b true | _ => Val (VBool ne) end
  | _ => Val (VBool ne)
  end.
(* the identity shortcut is skipped for a NaN (f.Value == f.Value is false) *)
Definition is_nan_value (v : value) : bool :=
  match v with VFloat f => negb (feq f f) | _ => false end.
(* two nil operands are equal as Go interface values (lv == rv) whether or not they come from one
   expression *)
Definition both_nil (l r : value) : bool := match l, r with VNil, VNil => true | _, _ => false end.
Definition eq (lib : golib) (same : bool) (l r : value) : outcome :=
  if (same || both_nil l r) && negb (is_nan_value l) then Val (VBool true) else eq_body lib false l r.
Definition ne (lib : golib) (same : bool) (l r : value) : outcome :=
  if (same || both_nil l r) && negb (is_nan_value l) then Val (VBool false) else eq_body lib true l r.

(* ------------------------------------------------------------------ === !== *)
Fixpoint zlist_eqb (a b : list Z) : bool :=
  match a, b with
  | [], [] => true
  | x :: a', y :: b' => (x =? y) && zlist_eqb a' b'
  | _, _ => false
  end.
Definition strict_equal (l r : value) : bool :=
  match l, r with
  | VInt a, VInt b => a =? b
  | VFloat a, VFloat b => feq a b
  | VBool a, VBool b => Bool.eqb a b
  | VStr a, VStr b => String.eqb a b
  | VNull, VNull => true
  | VArr a, VArr b => zlist_eqb a b
  | VObj a, VObj b => Nat.eqb a b          (* property-wise; the modelled objects differ in property p *)
  | VCls a, VCls b => Nat.eqb a b          (* identity *)
  | _, _ => false
  end.
Definition seq (l r : value) : outcome := Val (VBool (strict_equal l r)).
Definition sne (l r : value) : outcome := Val (VBool (negb (strict_equal l r))).

(* ------------------------------------------------------------------ < <= > >= *)
Inductive relop := RLt | RLe | RGt | RGe.
Definition rel_int (o : relop) (a b : Z) : bool :=
  match o with RLt => a <? b | RLe => a <=? b | RGt => a >? b | RGe => a >=? b end.
Definition rel_float (o : relop) (a b : float) : bool :=
  match o with RLt => flt a b | RLe => fle a b | RGt => flt b a | RGe => fle b a end.
Definition rel_str (o : relop) (a b : string) : bool :=
  match o with
  | RLt => String.ltb a b | RLe => String.leb a b | RGt => String.ltb b a | RGe => String.leb b a
  end.
Definition rel_bool (o : relop) (a b : bool) : bool :=
  match o with
  | RLt => negb a && b | RLe => negb a || b | RGt => a && negb b | RGe => a || negb b
  end.
Definition rel (lib : golib) (o : relop) (l r : value) : outcome :=
  match l with
  | VInt li =>
      match r with
      | VFloat rf => Val (VBool (rel_float o (Z2f li) rf))
      | _ => match as_int r with
             | Conv ri => Val (VBool (rel_int o li ri))
             | ConvErr => Throw
             | NoIface => Val (VBool false)
             end
      end
  | VFloat lf =>
      match as_float lib r with
      | Conv rf => Val (VBool (rel_float o lf rf))
      | ConvErr => Val (VBool false)    (* a non-numeric string is not ordered with a float *)
      | NoIface => Val (VBool false)
      end
  | VStr ls => match r with VNil => Val (VBool false) | _ => Val (VBool (rel_str o ls (as_string lib r))) end
  | VNull =>
      match o, r with
      | RLe, VNull | RGe, VNull => Val (VBool true)
      | _, _ => Val (VBool false)
      end
  | VBool lb => match r with VBool rb => Val (VBool (rel_bool o lb rb)) | _ => Val (VBool false) end
  | _ => Val (VBool false)
  end.

(* ------------------------------------------------------------------ <=> and data.Compare *)
Definition sign3 (lt gt : bool) : Z := if lt then -1 else if gt then 1 else 0.
(* data.Compare is no longer used by the <=> node (it still serves sorting); kept for reference *)
Definition compare_floats (a b : float) : Z := sign3 (flt a b) (flt b a).
Definition is_nil (v : value) : bool := match v with VNil => true | _ => false end.
(* BinarySpaceship: int/int fast path; a nil operand gives 0; otherwise -1 when l < r, 1 when
   l > r (the relational nodes), else 0 *)
Definition cmp (lib : golib) (l r : value) : outcome :=
  match l, r with
  | VInt a, VInt b => Val (VInt (sign3 (a <? b) (a >? b)))
  | _, _ =>
      if is_nil l || is_nil r then Val (VInt 0) else
      match rel lib RLt l r with
      | Val (VBool true) => Val (VInt (-1))
      | Val _ =>
          match rel lib RGt l r with
          | Val (VBool true) => Val (VInt 1)
          | Val _ => Val (VInt 0)
          | o => o
          end
      | o => o
      end
  end.

(* ------------------------------------------------------------------ && || . *)
(* the right operand is only evaluated when needed; here both operands are values *)
(* operandTruthy: nil is false, a value without AsBool is true *)
Definition opd_truthy (v : value) (k : bool -> outcome) : outcome :=
  match as_bool v with
  | Conv b => k b
  | ConvErr => Throw
  | NoIface => k (negb (is_nil v))
  end.
Definition logic_and (l r : value) : outcome :=
  opd_truthy l (fun lb => if lb then opd_truthy r (fun rb => Val (VBool rb)) else Val (VBool false)).
Definition logic_or (l r : value) : outcome :=
  opd_truthy l (fun lb => if lb then Val (VBool true) else opd_truthy r (fun rb => Val (VBool rb))).
Definition dot_str (lib : golib) (v : value) : string :=
  match v with
  | VStr s => s
  | VInt z => itoa z
  | VFloat f => fmt_float lib f
  | VBool b => if b then "1" else ""
  | VNull | VNil => ""
  | _ => as_string lib v
  end.
Definition dot (lib : golib) (l r : value) : outcome := Val (VStr (dot_str lib l ++ dot_str lib r)).

(* ------------------------------------------------------------------ dispatch (node/binary.go) *)
Inductive binop :=
| OAdd | OSub | OMul | OQuo | ORem | OPow | OBAnd | OBOr | OBXor | OShl | OShr
| OEq | ONe | OSEq | OSNe | OLt | OLe | OGt | OGe | OCmp | OLAnd | OLOr | ODot.

Definition binop_eval (lib : golib) (same : bool) (o : binop) (l r : value) : outcome :=
  match o with
  | OAdd => add lib l r | OSub => sub lib l r | OMul => mul lib l r | OQuo => quo lib l r
  | ORem => rem l r | OPow => pow lib l r
  | OBAnd => band l r | OBOr => bor l r | OBXor => bxor l r | OShl => shl l r | OShr => shr l r
  | OEq => eq lib same l r | ONe => ne lib same l r | OSEq => seq l r | OSNe => sne l r
  | OLt => rel lib RLt l r | OLe => rel lib RLe l r | OGt => rel lib RGt l r | OGe => rel lib RGe l r
  | OCmp => cmp lib l r | OLAnd => logic_and l r | OLOr => logic_or l r | ODot => dot lib l r
  end.

(* ------------------------------------------------------------------ unary - ! ~ (node/expression.go) *)
Inductive unop := UNeg | UNot | UBNot.
Definition unop_eval (lib : golib) (o : unop) (v : value) : outcome :=
  match o with
  | UNeg =>
      match v with
      | VInt z => Val (VInt (wrap64 (- z)))
      | _ => match as_float lib v with
             | Conv f => Val (VFloat (- f))
             | ConvErr => Throw
             | NoIface => Throw
             end
      end
  | UNot =>
      match as_bool v with
      | Conv b => Val (VBool (negb b))
      | ConvErr => Throw
      | NoIface => if is_nil v then Val (VBool true) else NoValue
      end
  | UBNot =>
      match as_int v with
      | Conv z => Val (VInt (Z.lnot z))
      | ConvErr => Throw
      | NoIface => Throw
      end
  end.

(* ------------------------------------------------------------------ boolean contexts *)
Inductive bctx := CIf | CElseIf | CWhile | CDoWhile | CFor | CTernary | CNot | CLAnd | CLOr | CCast.
Inductive cres := CB (b : bool) | CThrow | CCrash | CNoBool.

(* if / else if / while / do-while: `if bv, ok := cond.(data.AsBool); ok { b, err := bv.AsBool() }
   else { b = cond != nil }` *)
Definition truthy_asbool (v : value) : cres :=
  match as_bool v with Conv b => CB b | ConvErr => CThrow | NoIface => CB (negb (is_nil v)) end.
Definition of_outcome (o : outcome) : cres :=
  match o with Val (VBool b) => CB b | Throw => CThrow | Crash => CCrash | _ => CNoBool end.

Definition ctx_eval (lib : golib) (c : bctx) (v : value) : cres :=
  match c with
  | CIf | CElseIf | CWhile | CDoWhile => truthy_asbool v
  | CFor => match v with VBool b => CB b | _ => truthy_asbool v end
  | CTernary =>
      match v with
      | VBool b => CB b
      | VInt z => CB (negb (z =? 0))
      | VFloat f => CB (negb (feq f fzero))
      | VStr s => CB (Nat.ltb 0 (String.length s))
      | VNull => CB false
      | VArr l => CB (Nat.ltb 0 (List.length l))
      | _ => match as_bool v with Conv b => CB b | _ => CB false end
      end
  | CNot => match of_outcome (unop_eval lib UNot v) with CB b => CB (negb b) | x => x end
  | CLAnd => of_outcome (logic_and v (VBool true))
  | CLOr => of_outcome (logic_or v (VBool false))
  | CCast =>
      (* std/convert_bool.go: case data.AsBool first; an AsBool error falls to the default true;
         the string branch is unreachable for the modelled types (all implement AsBool) *)
      match as_bool v with Conv b => CB b | ConvErr => CB true | NoIface => if is_nil v then CB false else CNoBool end
  end.

(* ------------------------------------------------------------------ (int) / (float) casts *)
(* std/convert_int.go, std/convert_float.go: a type switch on the As* interfaces in the order
   written; a failed string conversion falls out of the switch to the fallback, which parses the
   same text again and gives 0 *)
Inductive castop := CastInt | CastFloat.
Definition cast_eval (lib : golib) (c : castop) (v : value) : outcome :=
  match c with
  | CastInt =>
      match v with
      | VNil => Val (VInt 0)
      | _ =>
        match as_int v with
        | Conv i => Val (VInt i)
        | _ =>
          match as_float lib v with
          | Conv f => Val (VInt (f2i f))
          | ConvErr => Val (VInt 0)
          | NoIface => match as_bool v with Conv b => Val (VInt (if b then 1 else 0)) | _ => Val (VInt 0) end
          end
        end
      end
  | CastFloat =>
      match v with
      | VNil => Val (VFloat fzero)
      | _ =>
        match as_float lib v with
        | Conv f => Val (VFloat f)
        | ConvErr => Val (VFloat fzero)
        | NoIface => match as_bool v with
                     | Conv b => Val (VFloat (if b then 1 else 0)%float)
                     | _ => Val (VFloat fzero)
                     end
        end
      end
  end.
