From V.C03 Require Import Model Spec Proofs.
Theorem table_matches_model : forall lib v i, implements (ty_of v) i = has_conv lib v i.
Proof. exact table_matches_model_l. Qed.
Print Assumptions table_matches_model.
