(* C03 — the property, clause by clause.  Only statements here; every proof is `exact lemma`.
   `lib` = the Go library functions the model takes as parameters (strconv.ParseFloat,
   strconv.FormatFloat, math.Pow, object rendering): every theorem holds for all of them. *)
From Coq Require Import ZArith Bool String Floats.
From V.C03 Require Import Model Spec Proofs ProofsPow.
Open Scope Z_scope.

(* the model's conversions are exactly the regenerated interface table *)
Theorem table_matches_model : forall lib v i, implements (ty_of v) i = has_conv lib v i.
Proof. exact table_matches_model_l. Qed.
Print Assumptions table_matches_model.

(* "A value is truthy in if, while, for, ?:, !, &&, || and (bool) alike": every one of the ten
   modelled boolean contexts (if, else-if, while, do-while, for, ?:, !, &&, ||, (bool)) computes
   the one reference truthiness, for every value (scalars, arrays, objects) *)
Theorem truthy_one : forall lib c v, ctx_eval lib c v = CB (ref_truthy v).
Proof. exact truthy_one_l. Qed.
Print Assumptions truthy_one.

(* "return the value and type the language defines": on the documented domain D (numeric pairs
   for arithmetic/bitwise/shift, string pairs for + and ., same-kind and int/float pairs for
   comparisons, all scalars for && ||) the operator nodes compute the reference result
   (value AND type; a catchable error where the reference says so), for all 64-bit ints, all
   binary64 floats incl. +-0, NaN, +-inf, all strings *)
Theorem model_is_ref_on_D : forall lib o same l r,
  inD lib o l r = true -> wf l = true -> wf r = true -> (same = true -> l = r) ->
  binop_eval lib same o l r = ref_binop lib o l r.
Proof. exact model_is_ref_on_D_l. Qed.
Print Assumptions model_is_ref_on_D.

Theorem unop_is_ref_on_D : forall lib o v, inD1 o v = true -> unop_eval lib o v = ref_unop o v.
Proof. exact unop_is_ref_on_D_l. Qed.
Print Assumptions unop_is_ref_on_D.

(* "64-bit integers": every integer result of every operator on every operand pair is in
   [-2^63, 2^63) *)
Theorem int_results_in_range : forall lib same o l r z, wf l = true -> wf r = true ->
  binop_eval lib same o l r = Val (VInt z) -> in_range z = true.
Proof. exact int_results_in_range_l. Qed.
Print Assumptions int_results_in_range.

(* int ** int: exact when the mathematical power fits in 64 bits, float otherwise, never out of
   fuel (the loop bound 64 always suffices) *)
Theorem int_pow_exact : forall base exp, in_range base = true -> 0 <= exp ->
  int_pow base exp = if pow_fits base exp then PowOk (zpow base exp) else PowOverflow.
Proof. exact int_pow_correct. Qed.
Theorem zpow_is_power : forall a b, 0 <= b -> zpow a b = a ^ b.
Proof. exact zpow_is_pow. Qed.
Print Assumptions int_pow_exact.

(* "'/' always float" — on every operand pair, not only numbers *)
Theorem quo_is_float : forall lib l r v, quo lib l r = Val v -> exists f, v = VFloat f.
Proof. exact quo_is_float_l. Qed.
Print Assumptions quo_is_float.

(* "'%' and '/' by zero raise a catchable error" *)
Theorem div_zero_throws : forall lib l r, numeric l = true -> numeric r = true ->
  (PrimFloat.eqb (tof r) 0%float = true -> quo lib l r = Throw) /\
  (toi r = 0 -> rem l r = Throw).
Proof. exact div_zero_throws_l. Qed.
Print Assumptions div_zero_throws.

(* the divisor may be of any kind: null, "0", "0.0", -0.0 ... ; the dividend anything *)
Theorem div_zero_any : forall lib l r,
  (forall f, as_float lib r = Conv f -> feq f fzero = true -> quo lib l r = Throw) /\
  (as_int r = Conv 0 -> rem l r = Throw).
Proof. exact div_zero_any_l. Qed.
Print Assumptions div_zero_any.

(* "==/!= and ===/!== are complements" — on every operand pair (arrays and objects included),
   and both always yield a bool *)
Theorem eq_ne_compl : forall lib same l r, exists b,
  eq lib same l r = Val (VBool b) /\ ne lib same l r = Val (VBool (negb b)).
Proof. exact eq_ne_compl_l. Qed.
Theorem seq_sne_compl : forall l r, exists b, seq l r = Val (VBool b) /\ sne l r = Val (VBool (negb b)).
Proof. exact seq_sne_compl_l. Qed.
Theorem relational_total : forall lib o l r, exists b, rel lib o l r = Val (VBool b).
Proof. exact rel_bool_l. Qed.
Print Assumptions eq_ne_compl.
Print Assumptions seq_sne_compl.

(* "== is symmetric".  Full statement:
     forall lib same l r, (same = true -> l = r) -> eq lib same l r = eq lib same r l
   is FALSE of the current code (eq_sym_refuted: "1" == 1 but not 1 == "1").  Proved on the
   complement of the 15 recorded operand-kind pairs (Spec.eq_sym_known; each is a known finding
   law:eq-sym:<k1>~<k2>): all same-kind pairs, int~float, and the mixed pairs with arrays/objects
   that do not involve a bool or a string. *)
Theorem eq_sym_partial : forall lib same l r,
  eq_sym_known (ty_of l) (ty_of r) = false -> (same = true -> l = r) ->
  eq lib same l r = eq lib same r l.
Proof. exact eq_sym_partial_l. Qed.
Theorem eq_sym_refuted : forall lib,
  eq lib false (VStr "1") (VInt 1) = Val (VBool true) /\ eq lib false (VInt 1) (VStr "1") = Val (VBool false).
Proof. exact eq_sym_refuted_l. Qed.
Print Assumptions eq_sym_partial.

(* the classification by operand kinds is EXACT: on every one of the 30 recorded ordered kind pairs
   there are well-formed operands of exactly those kinds on which == gives different answers in
   the two orders — for every library behaviour (the float~string witness is NaN against its own
   text).  Together with eq_sym_partial: == is symmetric on all operands of kinds (a, b) if and
   only if eq_sym_known a b = false. *)
Theorem eq_sym_refuted_each : forall lib a b, eq_sym_known a b = true ->
  let p := sym_witness lib a b in
  ty_of (fst p) = a /\ ty_of (snd p) = b /\ wf (fst p) = true /\ wf (snd p) = true /\
  exists x, eq lib false (fst p) (snd p) = Val (VBool x) /\ eq lib false (snd p) (fst p) = Val (VBool (negb x)).
Proof. exact eq_sym_witness_l. Qed.
Theorem eq_sym_exact : forall lib a b,
  eq_sym_known a b = false <->
  (forall l r, ty_of l = a -> ty_of r = b -> eq lib false l r = eq lib false r l).
Proof.
  intros lib a b. split.
  - intros H l r Hl Hr. apply eq_sym_partial; [rewrite Hl, Hr; exact H | discriminate].
  - intro H. destruct (eq_sym_known a b) eqn:E; [|reflexivity]. exfalso.
    destruct (eq_sym_witness_l lib a b E) as [A [B [_ [_ [x [X Y]]]]]].
    rewrite (H _ _ A B) in X. rewrite X in Y. injection Y as Y. destruct x; discriminate.
Qed.
Print Assumptions eq_sym_refuted_each.
Print Assumptions eq_sym_exact.

(* coherence of < <= > >= beyond the property's wording, characterised exactly by operand kinds.
   Within one dispatch: < and > exclude each other, < implies <=.  The MIRROR law
   (a OP b) = (b flipped-OP a) holds on all operands of kinds (a, b) iff mirror_known a b = false:
   proved on the complement, refuted by a witness on each of the 18 recorded ordered pairs (null /
   number, null / string, bool / string, number / string, string / array / object: the node
   dispatches on the LEFT operand's kind).  These mixed-kind comparisons are outside the
   documented domain; the statements describe the code as it is. *)
Theorem lt_gt_exclusive : forall lib l r, rel lib RLt l r = Val (VBool true) -> rel lib RGt l r = Val (VBool false).
Proof. exact rel_antisym. Qed.
Theorem lt_implies_le : forall lib l r, rel lib RLt l r = Val (VBool true) -> rel lib RLe l r = Val (VBool true).
Proof. exact lt_implies_le_l. Qed.
Theorem rel_mirror_partial : forall lib o l r,
  mirror_known (ty_of l) (ty_of r) = false -> rel lib o l r = rel lib (flip o) r l.
Proof. exact rel_mirror_partial_l. Qed.
Theorem rel_mirror_refuted_each : forall lib a b, mirror_known a b = true ->
  let '(l, r, o) := mirror_witness lib a b in
  ty_of l = a /\ ty_of r = b /\ wf l = true /\ wf r = true /\
  exists x, rel lib o l r = Val (VBool x) /\ rel lib (flip o) r l = Val (VBool (negb x)).
Proof. exact rel_mirror_witness_l. Qed.
Print Assumptions lt_implies_le.
Print Assumptions rel_mirror_partial.
Print Assumptions rel_mirror_refuted_each.

(* "<=> agrees with < and >" — on EVERY operand pair (all kinds, nil included): since the fix
   a2cefe8 the node computes <=> from the relational nodes *)
Theorem cmp_lt_gt : forall lib l r,
  law_cmp (cmp lib l r) (rel lib RLt l r) (rel lib RGt l r) = true.
Proof. exact cmp_lt_gt_l. Qed.
Print Assumptions cmp_lt_gt.

(* "No operand combination crashes the interpreter: the outcome is a value or a catchable
   error" — every binary operator on every operand pair (all kinds incl. arrays, objects, class
   instances, and VNil = the result of a call that returns nothing; same-object or not), every
   unary operator on every operand: never Crash (Go panic), never NoValue (nil result), never
   OutOfFuel.  (Before f4173ed / b8b360c a nil operand of ||, && and + panicked: the value kind
   was missing from the model, which made the old theorem true of the model and false of the code.)
   Operand kinds NOT in the model: AnyValue, FuncValue (closures), references. *)
Theorem no_crash_any_pair : forall lib same o l r, wf l = true -> wf r = true ->
  acceptable (binop_eval lib same o l r) = true.
Proof. exact acceptable_any_pair_l. Qed.
Theorem no_crash_unary : forall lib o v, acceptable (unop_eval lib o v) = true.
Proof. exact acceptable_unop_l. Qed.
Print Assumptions no_crash_any_pair.
Print Assumptions no_crash_unary.

(* (int) and (float) casts (std/convert_int.go, std/convert_float.go): the documented conversions
   on every scalar, and never a crash on any value *)
Theorem cast_is_ref : forall lib c v, scalar v = true -> cast_eval lib c v = ref_cast lib c v.
Proof. exact cast_is_ref_l. Qed.
Theorem cast_no_crash : forall lib c v, acceptable (cast_eval lib c v) = true.
Proof. exact cast_acceptable_l. Qed.
Print Assumptions cast_is_ref.
