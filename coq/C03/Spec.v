(* C03 — the property, stated independently of the operator nodes' dispatch structure.
   Shared vocabulary taken from Model.v: the value type, outcomes, 64-bit wrap, the Go
   conversions float64(int) / int(float64), and the `lib` record of unmodelled Go library
   functions.  Everything else here is written from the language definition:
   PHP 8 semantics with origami's documented differences (64-bit wrapping ints, `/` always
   float, `+` concatenates strings). *)
From V.C03 Require Import Model.
Open Scope Z_scope.

(* ---- one truthiness: null, false, 0, 0.0/-0.0, "" and [] are falsy; everything else is truthy *)
Definition ref_truthy (v : value) : bool :=
  match v with
  | VNull => false
  | VBool b => b
  | VInt z => negb (z =? 0)
  | VFloat f => negb (PrimFloat.eqb f 0%float)
  | VStr s => negb (String.eqb s "")
  | VArr l => match l with [] => false | _ => true end
  | VObj _ | VCls _ => true
  | VNil => false             (* the result of a call that returns nothing counts as null *)
  end.

(* ---- the documented domain D on which exact results are defined *)
Definition numeric (v : value) : bool := match v with VInt _ | VFloat _ => true | _ => false end.
Definition scalar (v : value) : bool :=
  match v with VNull | VBool _ | VInt _ | VFloat _ | VStr _ => true | _ => false end.
Definition both_str (l r : value) : bool := match l, r with VStr _, VStr _ => true | _, _ => false end.
Definition same_kind_scalar (l r : value) : bool :=
  match l, r with
  | VNull, VNull | VBool _, VBool _ | VInt _, VInt _ | VFloat _, VFloat _ | VStr _, VStr _ => true
  | _, _ => false
  end.
(* a string that reads as a number (docs/data-types.md: "42" + 10 is 52): an integer spelling
   gives an int, any other numeric spelling a float *)
Definition str_num (lib : golib) (s : string) : option value :=
  match parse_int lib s with
  | Some z => Some (VInt z)
  | None => match parse_float lib s with Some f => Some (VFloat f) | None => None end
  end.
Definition str_and_number (lib : golib) (l r : value) : bool :=
  match l, r with
  | VStr _, (VInt _ | VFloat _) => true                       (* numeric: add; otherwise: "Age: " + 25 concatenates *)
  | (VInt _ | VFloat _), VStr s => match str_num lib s with Some _ => true | None => false end
  | _, _ => false
  end.
Definition inD (lib : golib) (o : binop) (l r : value) : bool :=
  match o with
  | OAdd => (numeric l && numeric r) || both_str l r || str_and_number lib l r
  | OSub | OMul | OQuo | ORem | OPow | OBAnd | OBOr | OBXor | OShl | OShr => numeric l && numeric r
  | ODot => both_str l r
  | OEq | ONe | OSEq | OSNe | OLt | OLe | OGt | OGe | OCmp => same_kind_scalar l r || (numeric l && numeric r)
  | OLAnd | OLOr => scalar l && scalar r
  end.
(* ints are 64-bit *)
Definition wf (v : value) : bool := match v with VInt z => in_range z | _ => true end.

(* ---- numeric views *)
Definition tof (v : value) : float := match v with VInt z => Z2f z | VFloat f => f | _ => 0%float end.
Definition toi (v : value) : Z := match v with VInt z => z | VFloat f => f2i f | _ => 0 end.
Definition both_int (l r : value) : bool := match l, r with VInt _, VInt _ => true | _, _ => false end.

(* a ^ b for b >= 0 without iterating b times when |a| <= 1 (zpow_is_pow in Proofs.v) *)
Definition zpow (a b : Z) : Z :=
  if a =? 0 then (if b =? 0 then 1 else 0)
  else if a =? 1 then 1
  else if a =? -1 then (if Z.even b then 1 else -1)
  else a ^ b.
(* does a ^ b fit in 64 bits?  for |a| >= 2 and b >= 64 it cannot *)
Definition pow_fits (a b : Z) : bool :=
  if Z.abs a <=? 1 then true else if b <? 64 then in_range (a ^ b) else false.

(* ---- ordering of comparable scalars; None = unordered (a NaN is involved) *)
Definition fcmp (a b : float) : option comparison :=
  match PrimFloat.compare a b with
  | FEq => Some Eq | FLt => Some Lt | FGt => Some Gt | FNotComparable => None
  end.
Definition bcmp (a b : bool) : comparison :=
  match a, b with false, true => Lt | true, false => Gt | _, _ => Eq end.
Definition ref_cmp (l r : value) : option comparison :=
  match l, r with
  | VNull, VNull => Some Eq
  | VBool a, VBool b => Some (bcmp a b)
  | VInt a, VInt b => Some (a ?= b)
  | VFloat a, VFloat b => fcmp a b
  | VInt a, VFloat b => fcmp (Z2f a) b
  | VFloat a, VInt b => fcmp a (Z2f b)
  | VStr a, VStr b => Some (String.compare a b)       (* bytewise lexicographic *)
  | _, _ => None
  end.
Definition is_c (c : comparison) (o : option comparison) : bool :=
  match o, c with Some Eq, Eq | Some Lt, Lt | Some Gt, Gt => true | _, _ => false end.

(* ---- the reference result on D *)
Definition rb (b : bool) : outcome := Val (VBool b).
Definition ref_binop (lib : golib) (o : binop) (l r : value) : outcome :=
  match o with
  | OAdd =>
      let plus (a b : value) : outcome :=
        if both_int a b then Val (VInt (wrap64 (toi a + toi b))) else Val (VFloat (tof a + tof b)) in
      match l, r with
      | VStr a, VStr b => Val (VStr (a ++ b))
      | VStr a, _ => match str_num lib a with
                     | Some n => plus n r
                     | None => Val (VStr (a ++ match r with VInt z => itoa z | VFloat f => fmt_float lib f | _ => "" end))
                     end
      | _, VStr b => match str_num lib b with Some n => plus l n | None => Throw end
      | _, _ => plus l r
      end
  | OSub => if both_int l r then Val (VInt (wrap64 (toi l - toi r))) else Val (VFloat (tof l - tof r))
  | OMul => if both_int l r then Val (VInt (wrap64 (toi l * toi r))) else Val (VFloat (tof l * tof r))
  | OQuo => if PrimFloat.eqb (tof r) 0%float then Throw else Val (VFloat (tof l / tof r))
  | ORem => if toi r =? 0 then Throw else Val (VInt (Z.rem (toi l) (toi r)))
  | OPow =>
      if (if both_int l r && (0 <=? toi r) then pow_fits (toi l) (toi r) else false)
      then Val (VInt (zpow (toi l) (toi r)))
      else Val (VFloat (pow_float lib (tof l) (tof r)))
  | OBAnd => Val (VInt (Z.land (toi l) (toi r)))
  | OBOr => Val (VInt (Z.lor (toi l) (toi r)))
  | OBXor => Val (VInt (Z.lxor (toi l) (toi r)))
  | OShl =>
      if toi r <? 0 then Throw
      else Val (VInt (if 64 <=? toi r then 0 else wrap64 (toi l * 2 ^ toi r)))
  | OShr =>
      (* floor (l / 2^r); for r >= 64 this is floor (l / 2^64) because |l| < 2^63 *)
      if toi r <? 0 then Throw else Val (VInt (toi l / 2 ^ Z.min (toi r) 64))
  | OEq => rb (is_c Eq (ref_cmp l r))
  | ONe => rb (negb (is_c Eq (ref_cmp l r)))
  | OSEq => rb (ty_eqb (ty_of l) (ty_of r) && is_c Eq (ref_cmp l r))
  | OSNe => rb (negb (ty_eqb (ty_of l) (ty_of r) && is_c Eq (ref_cmp l r)))
  | OLt => rb (is_c Lt (ref_cmp l r))
  | OLe => rb (is_c Lt (ref_cmp l r) || is_c Eq (ref_cmp l r))
  | OGt => rb (is_c Gt (ref_cmp l r))
  | OGe => rb (is_c Gt (ref_cmp l r) || is_c Eq (ref_cmp l r))
  | OCmp => Val (VInt (match ref_cmp l r with Some Lt => -1 | Some Gt => 1 | _ => 0 end))
  | OLAnd => rb (ref_truthy l && ref_truthy r)
  | OLOr => rb (ref_truthy l || ref_truthy r)
  | ODot => match l, r with VStr a, VStr b => Val (VStr (a ++ b)) | _, _ => Throw end
  end.
(* unary: - on numbers, ! on every scalar, ~ on numbers *)
Definition inD1 (o : unop) (v : value) : bool :=
  match o with UNeg | UBNot => numeric v | UNot => scalar v end.
Definition ref_unop (o : unop) (v : value) : outcome :=
  match o with
  | UNeg => match v with VInt z => Val (VInt (wrap64 (- z))) | _ => Val (VFloat (- tof v)) end
  | UNot => rb (negb (ref_truthy v))
  | UBNot => Val (VInt (- toi v - 1))
  end.

(* ---- "the outcome is a value or a catchable error" *)
Definition acceptable (o : outcome) : bool :=
  match o with Val _ | Opaque _ | Throw => true | Crash | NoValue | OutOfFuel => false end.
(* never a Go panic (the interpreter does not die) *)
Definition no_crash (o : outcome) : bool :=
  match o with Crash | OutOfFuel => false | _ => true end.

(* ---- the coherence laws, as relations between observed outcomes *)
Definition bool_of (o : outcome) : option bool := match o with Val (VBool b) => Some b | _ => None end.
Definition int_of (o : outcome) : option Z := match o with Val (VInt z) => Some z | _ => None end.
(* == is symmetric *)
Definition law_sym (ab ba : outcome) : bool :=
  match bool_of ab, bool_of ba with Some x, Some y => Bool.eqb x y | _, _ => false end.
(* ==/!= (and ===/!==) are complements *)
Definition law_compl (e n : outcome) : bool :=
  match bool_of e, bool_of n with Some x, Some y => Bool.eqb x (negb y) | _, _ => false end.
(* <=> agrees with < and > *)
Definition law_cmp (c lt gt : outcome) : bool :=
  match int_of c, bool_of lt, bool_of gt with
  | Some z, Some l, Some g => Bool.eqb (z <? 0) l && Bool.eqb (0 <? z) g
  | _, _, _ => false
  end.

(* ---- the operand-kind pairs on which a coherence law FAILS on the current code (each one is a
   recorded known finding, demonstrated on the implementation by checks/C03.py); the law
   theorems are proved on the complement *)
Definition eq_sym_known (a b : ty) : bool :=
  match a, b with
  | TNull, TBool | TBool, TNull | TNull, TInt | TInt, TNull | TNull, TFloat | TFloat, TNull
  | TNull, TStr | TStr, TNull
  | TBool, TInt | TInt, TBool | TBool, TFloat | TFloat, TBool | TBool, TStr | TStr, TBool
  | TBool, TArr | TArr, TBool | TBool, TObj | TObj, TBool | TBool, TCls | TCls, TBool
  | TInt, TStr | TStr, TInt | TFloat, TStr | TStr, TFloat
  | TStr, TArr | TArr, TStr | TStr, TObj | TObj, TStr | TStr, TCls | TCls, TStr => true
  | _, _ => false
  end.

(* ---- the mirror law  a OP b  =  b (flipped OP) a  for < <= > >= : it holds on every operand pair
   except the kind pairs below (the relational nodes dispatch on the LEFT operand's kind, and a
   string on the left compares texts while a number / null / bool on the left converts the right
   operand or gives false) *)
Definition flip (o : relop) : relop := match o with RLt => RGt | RLe => RGe | RGt => RLt | RGe => RLe end.
Definition mirror_known (a b : ty) : bool :=
  match a, b with
  | TNull, TInt | TInt, TNull | TNull, TFloat | TFloat, TNull | TNull, TStr | TStr, TNull
  | TBool, TStr | TStr, TBool | TInt, TStr | TStr, TInt | TFloat, TStr | TStr, TFloat
  | TStr, TArr | TArr, TStr | TStr, TObj | TObj, TStr | TStr, TCls | TCls, TStr => true
  | _, _ => false
  end.

(* ---- (int) and (float) on scalars (docs/data-types.md "显式转换": (int)"42" = 42, (int)"42.5" = 42
   truncated, (int)"hello" = 0, (float)"3.14" = 3.14, (float)"42" = 42.0): numbers convert, a
   numeric string converts through its value, anything that is not a number gives 0, true is 1 *)
Definition ref_cast (lib : golib) (c : castop) (v : value) : outcome :=
  let num : option float :=
    match v with
    | VNull => Some 0%float | VBool b => Some (if b then 1 else 0)%float
    | VInt z => Some (Z2f z) | VFloat f => Some f
    | VStr s => match parse_float lib s with Some f => Some f | None => Some 0%float end
    | _ => None
    end in
  match c, v with
  | CastInt, VInt z => Val (VInt z)
  | CastInt, VBool b => Val (VInt (if b then 1 else 0))
  | CastInt, VNull => Val (VInt 0)
  | CastInt, _ => match num with Some f => Val (VInt (f2i f)) | None => Throw end
  | CastFloat, _ => match num with Some f => Val (VFloat f) | None => Throw end
  end.
