(* C03 — 64-bit two's complement: & | ^ of two int64 values is an int64 value. *)
From Coq Require Import ZArith Bool Lia.
From V.C03 Require Import Model Spec ProofsPow.
Open Scope Z_scope.

(* sign-extended beyond bit 63 *)
Definition sext (z : Z) : Prop := forall n, 63 <= n -> Z.testbit z n = (z <? 0).

Lemma nonneg_small_bits : forall y, 0 <= y -> (y < 2 ^ 63 <-> forall n, 63 <= n -> Z.testbit y n = false).
Proof.
  intros y Hy; split.
  - intros Hlt n Hn. destruct (Z.eq_dec y 0) as [->|Hne]; [apply Z.bits_0|].
    apply Z.bits_above_log2; [lia|].
    assert (Z.log2 y < 63) by (apply Z.log2_lt_pow2; lia). lia.
  - intros H. destruct (Z_lt_le_dec y (2 ^ 63)) as [Hlt|Hge]; [exact Hlt|exfalso].
    assert (0 < y) by (change (2 ^ 63) with 9223372036854775808 in Hge; lia).
    assert (63 <= Z.log2 y) by (apply Z.log2_le_pow2; lia).
    pose proof (Z.bit_log2 y H0) as Hb. rewrite (H (Z.log2 y) H1) in Hb. discriminate.
Qed.

Lemma in_range_sext : forall z, in_range z = true <-> sext z.
Proof.
  intro z. rewrite in_range_iff. unfold sext.
  destruct (Z.ltb_spec z 0) as [Hneg|Hpos].
  - (* negative: look at lnot z *)
    assert (Hy : 0 <= Z.lnot z) by (unfold Z.lnot; lia).
    pose proof (nonneg_small_bits (Z.lnot z) Hy) as [H1 H2].
    change (2 ^ 63) with 9223372036854775808 in *.
    split.
    + intros Hr n Hn. assert (Hl : Z.lnot z < 9223372036854775808) by (unfold Z.lnot; lia).
      specialize (H1 Hl n Hn). rewrite Z.lnot_spec in H1 by lia.
      apply negb_false_iff in H1. exact H1.
    + intros H. assert (Hl : Z.lnot z < 9223372036854775808).
      { apply H2. intros n Hn. rewrite Z.lnot_spec by lia. rewrite (H n Hn). reflexivity. }
      unfold Z.lnot in Hl. lia.
  - pose proof (nonneg_small_bits z Hpos) as [H1 H2].
    change (2 ^ 63) with 9223372036854775808 in *.
    split.
    + intros Hr n Hn. apply H1; lia.
    + intros H. specialize (H2 H). lia.
Qed.

Lemma land_in_range : forall a b, in_range a = true -> in_range b = true -> in_range (Z.land a b) = true.
Proof.
  intros a b Ha Hb. apply in_range_sext in Ha, Hb. apply in_range_sext.
  intros n Hn. rewrite Z.land_spec, (Ha n Hn), (Hb n Hn).
  pose proof (Z.land_neg a b).
  destruct (Z.ltb_spec a 0), (Z.ltb_spec b 0), (Z.ltb_spec (Z.land a b) 0); simpl; try reflexivity; lia.
Qed.
Lemma lor_in_range : forall a b, in_range a = true -> in_range b = true -> in_range (Z.lor a b) = true.
Proof.
  intros a b Ha Hb. apply in_range_sext in Ha, Hb. apply in_range_sext.
  intros n Hn. rewrite Z.lor_spec, (Ha n Hn), (Hb n Hn).
  pose proof (Z.lor_neg a b).
  destruct (Z.ltb_spec a 0), (Z.ltb_spec b 0), (Z.ltb_spec (Z.lor a b) 0); simpl; try reflexivity; lia.
Qed.
Lemma lxor_in_range : forall a b, in_range a = true -> in_range b = true -> in_range (Z.lxor a b) = true.
Proof.
  intros a b Ha Hb. apply in_range_sext in Ha, Hb. apply in_range_sext.
  intros n Hn. rewrite Z.lxor_spec, (Ha n Hn), (Hb n Hn).
  pose proof (Z.lxor_nonneg a b).
  destruct (Z.ltb_spec a 0), (Z.ltb_spec b 0), (Z.ltb_spec (Z.lxor a b) 0); simpl; try reflexivity; lia.
Qed.
