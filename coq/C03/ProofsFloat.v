(* C03 — facts about binary64 comparisons, from Coq.Floats.FloatAxioms (the axioms that relate
   the primitive operations to their SpecFloat definitions). *)
From Coq Require Import ZArith Bool Floats.
From V.C03 Require Import Model Spec.

Lemma SFcompare_antisym : forall x y,
  SFcompare y x = match SFcompare x y with Some c => Some (CompOpp c) | None => None end.
Proof.
  intros x y; destruct x as [s1|s1| |s1 m1 e1], y as [s2|s2| |s2 m2 e2]; simpl; try reflexivity;
    try (destruct s1; reflexivity); try (destruct s2; reflexivity);
    try (destruct s1, s2; reflexivity).
  destruct s1, s2; try reflexivity.
  - rewrite (Z.compare_antisym e1 e2). destruct (e1 ?= e2)%Z; simpl; try reflexivity.
    rewrite (ZC4 m2 m1). destruct (Pos.compare_cont Eq m1 m2); reflexivity.
  - rewrite (Z.compare_antisym e1 e2). destruct (e1 ?= e2)%Z; simpl; try reflexivity.
    rewrite (ZC4 m2 m1). reflexivity.
Qed.

(* the model's Go comparisons in terms of the reference ordering fcmp *)
Lemma feq_fcmp : forall a b, feq a b = is_c Eq (fcmp a b).
Proof.
  intros a b; unfold feq, fcmp. rewrite FloatAxioms.eqb_spec, FloatAxioms.compare_spec.
  unfold SFeqb. destruct (SFcompare (Prim2SF a) (Prim2SF b)) as [[| |]|]; reflexivity.
Qed.
Lemma flt_fcmp : forall a b, flt a b = is_c Lt (fcmp a b).
Proof.
  intros a b; unfold flt, fcmp. rewrite FloatAxioms.ltb_spec, FloatAxioms.compare_spec.
  unfold SFltb. destruct (SFcompare (Prim2SF a) (Prim2SF b)) as [[| |]|]; reflexivity.
Qed.
Lemma fle_fcmp : forall a b, fle a b = is_c Lt (fcmp a b) || is_c Eq (fcmp a b).
Proof.
  intros a b; unfold fle, fcmp. rewrite FloatAxioms.leb_spec, FloatAxioms.compare_spec.
  unfold SFleb. destruct (SFcompare (Prim2SF a) (Prim2SF b)) as [[| |]|]; reflexivity.
Qed.
Lemma fcmp_antisym : forall a b,
  fcmp b a = match fcmp a b with Some c => Some (CompOpp c) | None => None end.
Proof.
  intros a b; unfold fcmp. rewrite !FloatAxioms.compare_spec.
  rewrite (SFcompare_antisym (Prim2SF a) (Prim2SF b)).
  destruct (SFcompare (Prim2SF a) (Prim2SF b)) as [[| |]|]; reflexivity.
Qed.
Lemma fgt_fcmp : forall a b, flt b a = is_c Gt (fcmp a b).
Proof.
  intros a b. rewrite flt_fcmp, (fcmp_antisym a b). destruct (fcmp a b) as [[| |]|]; reflexivity.
Qed.
Lemma fge_fcmp : forall a b, fle b a = is_c Gt (fcmp a b) || is_c Eq (fcmp a b).
Proof.
  intros a b. rewrite fle_fcmp, (fcmp_antisym a b). destruct (fcmp a b) as [[| |]|]; reflexivity.
Qed.
Lemma feq_sym : forall a b, feq a b = feq b a.
Proof.
  intros a b. rewrite !feq_fcmp, (fcmp_antisym a b). destruct (fcmp a b) as [[| |]|]; reflexivity.
Qed.
Lemma flt_antisym : forall a b, flt a b = true -> flt b a = false.
Proof.
  intros a b. rewrite (flt_fcmp a b), (fgt_fcmp a b). destruct (fcmp a b) as [[| |]|]; simpl; congruence.
Qed.
(* a float that is not NaN equals itself *)
Lemma feq_refl_fcmp : forall a, feq a a = true -> fcmp a a = Some Eq.
Proof. intros a. rewrite feq_fcmp. destruct (fcmp a a) as [[| |]|]; simpl; congruence. Qed.
