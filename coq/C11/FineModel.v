(* C11 — a finer-grained model of ONE superglobal ($_GET, node/globals_get_variable.go) with a
   scheduling point INSIDE the lazy fill, where the verif yield hook sits (code after fix: snapshot,
   build a local object, publish):

       cached := getValue                            // snapshot
       if cached == nil {
           fresh := data.NewObjectValue()            // (a) allocate a LOCAL object
           -- verifYield("get.fill") --              // another request may run here
           ... fill fresh from the calling request ...
           getValue = fresh; cached = fresh          // (b) publish
       }
       return cached

   The cache is nil, or an object holding the query data of some request.  A request's stage ends at a
   gate (end of a segment) OR at the yield point.  (Before the fix the fill wrote through the package
   variable: a reset by another request in between made the request dereference nil — `fcrashed`, kept
   in the record and always false now, is what the tie compares with "the request panicked".)
   No proofs here. *)
From Coq Require Export List Arith Bool.
Export ListNotations.

Inductive frd := FGet | FPriv.                     (* $_GET["id"]  |  a local / request-object read *)
Inductive fcache := FNil | FObj (content : option nat).   (* content = whose data the published object holds *)

Record freq := { fsegs : list (list frd);   (* head = what is lft of the current segment *)
                 fstarted : bool;
                 fpending : bool;           (* parked inside the fill, after the allocation *)
                 fcrashed : bool;           (* nil pointer dereference in the fill *)
                 fgot : list (option nat) }.
Record fstate := { fc : fcache; freqs : list freq }.

(* run reads of the current segment until it is exhausted or a $_GET read has to allocate (yield) *)
Fixpoint fexec (c : fcache) (r : nat) (xs : list frd) : fcache * list (option nat) * list frd * bool :=
  match xs with
  | [] => (c, [], [], false)
  | FPriv :: rest => let '(c', vs, lft, pend) := fexec c r rest in (c', Some r :: vs, lft, pend)
  | FGet :: rest =>
      match c with
      | FNil => (FNil, [], rest, true)                         (* (a) allocate a local object, then park *)
      | FObj content => let '(c', vs, lft, pend) := fexec c r rest in (c', content :: vs, lft, pend)
      end
  end.

Fixpoint fupd (l : list freq) (i : nat) (q : freq) : list freq :=
  match l, i with [], _ => [] | _ :: r, O => q :: r | x :: r, S j => x :: fupd r j q end.
Definition frid (i : nat) : nat := S i.

Definition fstep (s : fstate) (i : nat) : fstate :=
  match nth_error (freqs s) i with
  | None => s
  | Some q =>
      if fcrashed q then s
      else if negb (fstarted q) then                            (* ServeHTTP entry: ResetSuperglobals *)
        {| fc := FNil; freqs := fupd (freqs s) i {| fsegs := fsegs q; fstarted := true; fpending := false; fcrashed := false; fgot := fgot q |} |}
      else
        match fsegs q with
        | [] => s                                               (* finished *)
        | cur :: rest =>
            if fpending q then
              (* (b) resume inside the fill *)
              let c1 := FObj (Some (frid i)) in                 (* publish the own, locally built object *)
              let '(c2, vs, lft, pend) := fexec c1 (frid i) cur in
              {| fc := c2;
                 freqs := fupd (freqs s) i {| fsegs := (if pend then lft :: rest else rest);
                                              fstarted := true; fpending := pend; fcrashed := false;
                                              fgot := (fgot q ++ Some (frid i) :: vs)%list |} |}
            else
              let '(c2, vs, lft, pend) := fexec (fc s) (frid i) cur in
              {| fc := c2;
                 freqs := fupd (freqs s) i {| fsegs := (if pend then lft :: rest else rest);
                                              fstarted := true; fpending := pend; fcrashed := false;
                                              fgot := (fgot q ++ vs)%list |} |}
        end
  end.
Fixpoint frun (s : fstate) (sched : list nat) : fstate :=
  match sched with [] => s | i :: r => frun (fstep s i) r end.
Definition finit (progs : list (list (list frd))) : fstate :=
  {| fc := FNil; freqs := map (fun p => {| fsegs := p; fstarted := false; fpending := false; fcrashed := false; fgot := [] |}) progs |}.
