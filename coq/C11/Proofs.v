(* C11 — proofs: per-request state is isolated under every schedule; superglobals are isolated for a
   request that runs without another request stepping in between (hence for serial schedules). *)
From Coq Require Import Lia.
From V.C11 Require Import Spec Model.

Lemma nth_updr_same l i q x : nth_error l i = Some x -> nth_error (updr l i q) i = Some q.
Proof. revert i; induction l as [|y l IH]; intros [|i] H; simpl in *; try discriminate; auto. Qed.
Lemma nth_updr_other l i j q : i <> j -> nth_error (updr l i q) j = nth_error l j.
Proof. revert i j; induction l as [|y l IH]; intros [|i] [|j] H; simpl; auto; try lia. Qed.

(* ---------------------------------------------------------------- per-request state: every schedule *)
Lemma do_reads_private c r xs : own_private_data r (snd (do_reads c r xs)).
Proof.
  revert c. induction xs as [|x xs IH]; intros c; simpl; [constructor|].
  destruct (do_read c r x) as [c1 v] eqn:E. specialize (IH c1). destruct (do_reads c1 r xs) as [c2 vs]. simpl in *.
  constructor; auto. simpl. intros P. destruct x; simpl in P; try discriminate; simpl in E; inversion E; reflexivity.
Qed.

Definition all_private_ok (s : state) : Prop :=
  forall i q, nth_error (reqs s) i = Some q -> own_private_data (rid i) (got q).

Lemma step_private s i : all_private_ok s -> all_private_ok (step s i).
Proof.
  intros H. unfold step. destruct (nth_error (reqs s) i) as [q|] eqn:Q; auto.
  destruct (started q).
  - destruct (todo q) as [|seg rest]; auto.
    pose proof (do_reads_private (cch s) (rid i) seg) as P. destruct (do_reads (cch s) (rid i) seg) as [c' vs]. simpl in P.
    intros j qj Hj. simpl in Hj. destruct (Nat.eq_dec i j) as [<-|N].
    + rewrite (nth_updr_same _ _ _ _ Q) in Hj. inversion Hj; subst. simpl. apply Forall_app. split; auto. apply (H _ _ Q).
    + rewrite nth_updr_other in Hj by auto. apply (H _ _ Hj).
  - intros j qj Hj. simpl in Hj. destruct (Nat.eq_dec i j) as [<-|N].
    + rewrite (nth_updr_same _ _ _ _ Q) in Hj. inversion Hj; subst. simpl. apply (H _ _ Q).
    + rewrite nth_updr_other in Hj by auto. apply (H _ _ Hj).
Qed.
Lemma run_private sched : forall s, all_private_ok s -> all_private_ok (run s sched).
Proof. induction sched; intros s H; simpl; auto. apply IHsched. apply step_private; auto. Qed.

Lemma private_isolated_l progs sched i :
  own_private_data (rid i) (answers_of (run (init progs) sched) i).
Proof.
  unfold answers_of. destruct (nth_error (reqs (run (init progs) sched)) i) as [q|] eqn:Q; [|constructor].
  apply (run_private sched (init progs)); auto.
  intros j qj Hj. simpl in Hj. rewrite nth_error_map in Hj. destruct (nth_error progs j); inversion Hj; subst. constructor.
Qed.

(* ---------------------------------------------------------------- superglobals: an exclusive window *)
Definition owned (r : nat) (c : caches) : Prop :=
  (cget c = None \/ cget c = Some r) /\ (cpost c = None \/ cpost c = Some r) /\
  (ccookie c = None \/ ccookie c = Some r) /\ (cserver c = None \/ cserver c = Some r) /\
  (creq c = None \/ creq c = Some (Some r, Some r, Some r)).
Lemma owned_empty r : owned r no_caches.
Proof. repeat split; left; reflexivity. Qed.
Lemma fill_owned c r : (c = None \/ c = Some r) -> fill c r = Some r.
Proof. intros [->| ->]; reflexivity. Qed.

Lemma do_read_owned c r (x : rd) : owned r c -> owned r (fst (do_read c r x)) /\ snd (do_read c r x) = Some r.
Proof.
  intros (A & B & C & D & E). destruct x as [g|g| |]; simpl.
  - destruct g; simpl; rewrite fill_owned by auto; repeat split; auto.
  - unfold read_req. destruct E as [E|E]; rewrite E.
    + rewrite !fill_owned by auto. split; [repeat split; auto|destruct g; reflexivity].
    + split; [repeat split; auto; right; auto|destruct g; reflexivity].
  - split; auto. repeat split; auto.
  - split; auto. repeat split; auto.
Qed.
Lemma do_reads_owned r xs : forall c, owned r c ->
  owned r (fst (do_reads c r xs)) /\ own_data r (snd (do_reads c r xs)) /\ map fst (snd (do_reads c r xs)) = xs.
Proof.
  induction xs as [|x xs IH]; intros c O; simpl; [split; [exact O|split; [constructor|reflexivity]]|].
  destruct (do_read_owned c r x O) as [O1 V]. destruct (do_read c r x) as [c1 v]. simpl in *.
  destruct (IH c1 O1) as (O2 & F & M). destruct (do_reads c1 r xs) as [c2 vs]. simpl in *.
  split; [exact O2|]. split; [constructor; auto|f_equal; auto].
Qed.

(* request i, already started, with caches that hold only its own data, runs its remaining stages back to back *)
Lemma run_rest p : forall s i q,
  nth_error (reqs s) i = Some q -> started q = true -> todo q = p -> owned (rid i) (cch s) ->
  let s' := run s (repeat i (List.length p)) in
  (exists vs, nth_error (reqs s') i = Some {| todo := []; started := true; got := (got q ++ vs)%list |} /\
              own_data (rid i) vs /\ map fst vs = concat p) /\
  (forall j, j <> i -> nth_error (reqs s') j = nth_error (reqs s) j).
Proof.
  induction p as [|seg rest IH]; intros s i q Q St Td Ow; simpl.
  - split; auto. exists []. rewrite app_nil_r. repeat split; auto; [|constructor].
    rewrite Q. destruct q; simpl in *; subst; reflexivity.
  - assert (E : step s i = {| cch := fst (do_reads (cch s) (rid i) seg);
                              reqs := updr (reqs s) i {| todo := rest; started := true;
                                                         got := (got q ++ snd (do_reads (cch s) (rid i) seg))%list |} |}).
    { unfold step. rewrite Q, St, Td. destruct (do_reads (cch s) (rid i) seg); reflexivity. }
    rewrite E. clear E.
    destruct (do_reads_owned (rid i) seg (cch s) Ow) as (O1 & F1 & M1).
    destruct (do_reads (cch s) (rid i) seg) as [c' vs]. simpl in O1, F1, M1. simpl fst. simpl snd.
    set (q1 := {| todo := rest; started := true; got := (got q ++ vs)%list |}).
    set (s1 := {| cch := c'; reqs := updr (reqs s) i q1 |}).
    destruct (IH s1 i q1) as [(ws & Q' & F' & M') OTH]; auto.
    + simpl. apply (nth_updr_same _ _ _ _ Q).
    + split.
      * exists (vs ++ ws)%list. simpl in Q'. rewrite app_assoc. split; auto. split.
        -- apply Forall_app; auto.
        -- rewrite map_app, M1, M'. reflexivity.
      * intros j N. rewrite (OTH j N). simpl. apply nth_updr_other; auto.
Qed.

(* the exclusive window: from ANY state (whatever other requests did or are in the middle of), a request
   that has not started and then runs all its stages with no other request stepping in between gets only
   its own data, and touches no other request *)
Lemma exclusive_window_l s i q :
  nth_error (reqs s) i = Some q -> started q = false ->
  let s' := run s (repeat i (S (List.length (todo q)))) in
  (exists vs, nth_error (reqs s') i = Some {| todo := []; started := true; got := (got q ++ vs)%list |} /\
              own_data (rid i) vs /\ map fst vs = concat (todo q)) /\
  (forall j, j <> i -> nth_error (reqs s') j = nth_error (reqs s) j).
Proof.
  intros Q St. simpl.
  assert (E : step s i = {| cch := no_caches; reqs := updr (reqs s) i {| todo := todo q; started := true; got := got q |} |}).
  { unfold step. rewrite Q, St. reflexivity. }
  rewrite E. clear E.
  set (q1 := {| todo := todo q; started := true; got := got q |}).
  set (s1 := {| cch := no_caches; reqs := updr (reqs s) i q1 |}).
  destruct (run_rest (todo q) s1 i q1) as [E OTH]; auto.
  - simpl. apply (nth_updr_same _ _ _ _ Q).
  - apply owned_empty.
  - split; auto. intros j N. rewrite (OTH j N). simpl. apply nth_updr_other; auto.
Qed.

(* serial schedules: requests served one after the other, in any order *)
Lemma run_app a : forall s b, run s (a ++ b) = run (run s a) b.
Proof. induction a; intros; simpl; auto. Qed.

Lemma serial_l progs : forall order s,
  NoDup order ->
  (forall i, In i order -> nth_error (reqs s) i = Some {| todo := nth i progs []; started := false; got := [] |}) ->
  let s' := run s (flat_map (whole progs) order) in
  forall i, In i order ->
    exists vs, answers_of s' i = vs /\ own_data (rid i) vs /\ map fst vs = concat (nth i progs []).
Proof.
  induction order as [|a order IH]; intros s ND H; simpl; [contradiction|].
  inversion ND as [|? ? NI ND']; subst.
  rewrite run_app.
  destruct (exclusive_window_l s a _ (H a (or_introl eq_refl)) eq_refl) as [(vs & Qa & Fa & Ma) OTH].
  simpl in Qa, Ma. unfold whole at 1.
  set (s1 := run s (repeat a (S (List.length (nth a progs []))))) in *.
  assert (H1 : forall i, In i order -> nth_error (reqs s1) i = Some {| todo := nth i progs []; started := false; got := [] |}).
  { intros i Hi. rewrite OTH; [apply H; right; auto|]. intro; subst; auto. }
  intros i [<-|Hi].
  - (* a itself: the rest of the schedule does not touch it *)
    assert (STEPK : forall b s2, b <> a -> nth_error (reqs (step s2 b)) a = nth_error (reqs s2) a).
    { intros b s2 B. unfold step. destruct (nth_error (reqs s2) b) as [q|]; auto.
      destruct (started q); [destruct (todo q); auto; destruct (do_reads _ _ _)|]; simpl; apply nth_updr_other; auto. }
    assert (REPK : forall b k s2, b <> a -> nth_error (reqs (run s2 (repeat b k))) a = nth_error (reqs s2) a).
    { intros b k. induction k as [|k IHk]; intros s2 B; simpl; auto. rewrite IHk by auto. apply STEPK; auto. }
    assert (KEEP : forall ord s2, ~ In a ord -> nth_error (reqs (run s2 (flat_map (whole progs) ord))) a = nth_error (reqs s2) a).
    { induction ord as [|b ord IHo]; intros s2 N; [reflexivity|].
      cbn [flat_map]. rewrite run_app, IHo by (intro; apply N; right; auto).
      unfold whole. apply REPK. intro; subst; apply N; left; auto. }
    exists vs. unfold answers_of.
    match goal with |- context [nth_error ?X a] =>
      change (nth_error X a) with (nth_error (reqs (run s1 (flat_map (whole progs) order))) a) end.
    assert (Qa2 : nth_error (reqs s1) a = Some {| todo := []; started := true; got := ([] ++ vs)%list |}) by exact Qa.
    rewrite (KEEP order s1 NI), Qa2. simpl. auto.
  - apply (IH s1 ND' H1 i Hi).
Qed.

Lemma superglobals_serial_l progs order :
  NoDup order -> (forall i, In i order -> i < List.length progs) ->
  forall i, In i order ->
    let a := answers_of (run (init progs) (flat_map (whole progs) order)) i in
    own_data (rid i) a /\ map fst a = concat (nth i progs []).
Proof.
  intros ND LT i Hi.
  destruct (serial_l progs order (init progs) ND) with (i := i) as (vs & E & F & M); auto.
  - intros j Hj. simpl. rewrite nth_error_map.
    destruct (nth_error progs j) eqn:P.
    + rewrite (nth_error_nth _ _ _ P). reflexivity.
    + apply nth_error_None in P. specialize (LT j Hj). lia.
  - simpl. rewrite E. auto.
Qed.

(* ---------------------------------------------------------------- the refutation *)
Lemma superglobals_refuted_l : exists progs sched i,
  ~ own_data (rid i) (answers_of (run (init progs) sched) i).
Proof.
  exists [[[RSg GGet]; [RSg GGet]]; [[RSg GGet]]], [0; 0; 1; 1; 0], 0.
  vm_compute. intros H. inversion H as [|? ? _ H2]; subst. inversion H2 as [|? ? H3 _]; subst.
  simpl in H3. discriminate.
Qed.
