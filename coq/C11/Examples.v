(* C11 — non-vacuity and the witness. *)
From V.C11 Require Import Spec Model Proofs Run.

Definition ex_prog : program := [[RSg GGet; RReq PPost]; [RSg GGet; RSg GServer; RObj; RLocal]].
(* the witness: request 1 reads its own $_GET, request 2 resets and reads, request 1 reads request 2's *)
Example ex_witness :
  map snd (answers_of (run (init [ex_prog; ex_prog]) [0; 0; 1; 1; 0; 1]) 0) =
  [Some 1; Some 1; Some 2; Some 1; Some 1; Some 1] /\
  map snd (answers_of (run (init [ex_prog; ex_prog]) [0; 0; 1; 1; 0; 1]) 1) =
  [Some 2; Some 2; Some 2; Some 1; Some 2; Some 2].
Proof. vm_compute. split; reflexivity. Qed.
(* the exclusive-window theorem's hypotheses: a request that has not started, in a dirty state *)
Example ex_window_hyp :
  let s := run (init [ex_prog; ex_prog]) [0; 0] in
  exists q, nth_error (reqs s) 1 = Some q /\ started q = false /\ cget (cch s) = Some 1.
Proof. vm_compute. eexists. repeat split. Qed.
(* serial schedule of three requests in the order 2,0,1 *)
Example ex_serial :
  map snd (answers_of (run (init [ex_prog; ex_prog; ex_prog]) (flat_map (whole [ex_prog; ex_prog; ex_prog]) [2; 0; 1])) 0) =
  [Some 1; Some 1; Some 1; Some 1; Some 1; Some 1].
Proof. vm_compute. reflexivity. Qed.
Example ex_check : check_case (ex_prog, 2, [0; 0; 1; 1; 0; 1],
  [[Some 1; Some 1; Some 2; Some 1; Some 1; Some 1]; [Some 2; Some 2; Some 2; Some 1; Some 2; Some 2]]) = [2].
Proof. vm_compute. reflexivity. Qed.
