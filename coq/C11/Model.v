(* C11 — executable model of the per-request flow of std/net/http/handler.go (Handler.ServeHTTP:
   ResetSuperglobals, fresh context, run the handler) and of the superglobal nodes node/globals_*.go.
   No proofs here.

   Shared state (as the code has it): ONE package-level cache per superglobal ($_GET getValue, $_POST postValue,
   $_COOKIE cookieValue, $_SERVER serverValue, $_REQUEST requestValue).  ResetSuperglobals() at the start of
   every request sets all of them to nil; `*Variable.GetValue(ctx)` fills an empty cache from the request of
   the CALLING context and returns the cache; $_REQUEST is built from the (possibly just filled) GET, POST and
   COOKIE caches.  Per request: a fresh slot vector (ctx.CreateContext) holding $r, $w and the handler's locals.
   A request runs in stages separated by scheduling points: stage 0 = ServeHTTP entry (reset) up to the first
   point, stage k = the reads of its k-th segment.  Schedules = lists of request indices. *)
From V.C11 Require Export Spec.

Record caches := { cget : option nat; cpost : option nat; ccookie : option nat; cserver : option nat;
                   creq : option (option nat * option nat * option nat) }.
Definition no_caches : caches := {| cget := None; cpost := None; ccookie := None; cserver := None; creq := None |}.

Definition fill (c : option nat) (r : nat) : option nat := match c with None => Some r | x => x end.

Definition read_sg (c : caches) (r : nat) (g : sg) : caches * option nat :=
  match g with
  | GGet => let v := fill (cget c) r in
            ({| cget := v; cpost := cpost c; ccookie := ccookie c; cserver := cserver c; creq := creq c |}, v)
  | GPost => let v := fill (cpost c) r in
             ({| cget := cget c; cpost := v; ccookie := ccookie c; cserver := cserver c; creq := creq c |}, v)
  | GCookie => let v := fill (ccookie c) r in
               ({| cget := cget c; cpost := cpost c; ccookie := v; cserver := cserver c; creq := creq c |}, v)
  | GServer => let v := fill (cserver c) r in
               ({| cget := cget c; cpost := cpost c; ccookie := ccookie c; cserver := v; creq := creq c |}, v)
  end.
Definition part_of (t : option nat * option nat * option nat) (g : rpart) : option nat :=
  match g with PGet => fst (fst t) | PPost => snd (fst t) | PCookie => snd t end.
(* RequestVariable.GetValue: when empty, evaluates $_GET, $_POST, $_COOKIE (filling them) and merges *)
Definition read_req (c : caches) (r : nat) (g : rpart) : caches * option nat :=
  match creq c with
  | Some t => (c, part_of t g)
  | None =>
      let a := fill (cget c) r in let b := fill (cpost c) r in let d := fill (ccookie c) r in
      ({| cget := a; cpost := b; ccookie := d; cserver := cserver c; creq := Some (a, b, d) |}, part_of (a, b, d) g)
  end.

Definition do_read (c : caches) (r : nat) (x : rd) : caches * option nat :=
  match x with
  | RSg g => read_sg c r g
  | RReq g => read_req c r g
  | RObj | RLocal => (c, Some r)       (* per-request state: the request object and the context's own slots *)
  end.
Fixpoint do_reads (c : caches) (r : nat) (xs : list rd) : caches * answers :=
  match xs with
  | [] => (c, [])
  | x :: rest => let (c1, v) := do_read c r x in let (c2, vs) := do_reads c1 r rest in (c2, (x, v) :: vs)
  end.

Record req := { todo : program; started : bool; got : answers }.
Record state := { cch : caches; reqs : list req }.

Fixpoint updr (l : list req) (i : nat) (q : req) : list req :=
  match l, i with [], _ => [] | _ :: r, O => q :: r | x :: r, S j => x :: updr r j q end.
Definition rid (i : nat) : nat := S i.

(* request i runs its next stage *)
Definition step (s : state) (i : nat) : state :=
  match nth_error (reqs s) i with
  | None => s
  | Some q =>
      if started q then
        match todo q with
        | [] => s
        | seg :: rest => let (c', vs) := do_reads (cch s) (rid i) seg in
                         {| cch := c'; reqs := updr (reqs s) i {| todo := rest; started := true; got := (got q ++ vs)%list |} |}
        end
      else (* Handler.ServeHTTP: node.ResetSuperglobals() *)
        {| cch := no_caches; reqs := updr (reqs s) i {| todo := todo q; started := true; got := got q |} |}
  end.
Fixpoint run (s : state) (sched : list nat) : state :=
  match sched with [] => s | i :: r => run (step s i) r end.
Definition init (progs : list program) : state :=
  {| cch := no_caches; reqs := map (fun p => {| todo := p; started := false; got := [] |}) progs |}.
Definition answers_of (s : state) (i : nat) : answers := match nth_error (reqs s) i with Some q => got q | None => [] end.
(* all stages of request i, back to back *)
Definition whole (progs : list program) (i : nat) : list nat := repeat i (S (List.length (nth i progs []))).
