(* C11 — the property, clause by clause.  Only statements; every proof is `exact lemma`.
   A request is a list of segments of reads; a schedule is ANY list of request indices (each entry lets
   that request run its next stage: ServeHTTP entry with ResetSuperglobals, then one segment per stage);
   an answer is the number of the request whose data the read returned. *)
From V.C11 Require Import Spec Model Proofs FineModel FineProofs.

(* "Locals, parameters, query/post/cookie/server data read through the request object ... always belong
   to the request being served": for every set of requests and EVERY schedule, every read through a local,
   array element, object property, closure capture, loop variable or the request object returns the
   request's own data *)
Theorem private_state_isolated : forall progs sched i,
  own_private_data (rid i) (answers_of (run (init progs) sched) i).
Proof. exact private_isolated_l. Qed.
Print Assumptions private_state_isolated.

(* "... or through $_GET, $_POST, $_COOKIE, $_SERVER and $_REQUEST": PARTIAL.  Full statement
     forall progs sched i, own_data (rid i) (answers_of (run (init progs) sched) i)
   is REFUTED (superglobals_isolated_refuted).  Proved: from ANY state — whatever the other requests have
   done or are in the middle of — a request that runs all its stages with no other request stepping in
   between reads only its own data through every superglobal, and changes no other request *)
Theorem superglobals_isolated_exclusive_window_partial : forall s i q,
  nth_error (reqs s) i = Some q -> started q = false ->
  let s' := run s (repeat i (S (List.length (todo q)))) in
  (exists vs, nth_error (reqs s') i = Some {| todo := []; started := true; got := (got q ++ vs)%list |} /\
              own_data (rid i) vs /\ map fst vs = concat (todo q)) /\
  (forall j, j <> i -> nth_error (reqs s') j = nth_error (reqs s) j).
Proof. exact exclusive_window_l. Qed.
Print Assumptions superglobals_isolated_exclusive_window_partial.

(* hence: requests served one after the other, in any order, read only their own data *)
Theorem superglobals_isolated_serial_partial : forall progs order,
  NoDup order -> (forall i, In i order -> i < List.length progs) ->
  forall i, In i order ->
    let a := answers_of (run (init progs) (flat_map (whole progs) order)) i in
    own_data (rid i) a /\ map fst a = concat (nth i progs []).
Proof. exact superglobals_serial_l. Qed.
Print Assumptions superglobals_isolated_serial_partial.

(* the witness interleaving: A.Reset; A reads $_GET; B.Reset; B reads $_GET; A reads $_GET again and gets
   B's query *)
Theorem superglobals_isolated_refuted : exists progs sched i,
  ~ own_data (rid i) (answers_of (run (init progs) sched) i).
Proof. exact superglobals_refuted_l. Qed.
Print Assumptions superglobals_isolated_refuted.

(* ===== finer than gates: the lazy fill of $_GET itself is interruptible (FineModel.v: a scheduling
   point between the allocation of the cache object and its fill, where the verif yield hook sits).
   The exclusive-window guarantee survives: from ANY state, a request that has not started and then runs
   any number of stages with nobody stepping in between does not crash and reads only its own data *)
Theorem fine_exclusive_window_safe_partial : forall s i q k,
  nth_error (freqs s) i = Some q -> fstarted q = false -> fcrashed q = false ->
  exists q' vs, nth_error (freqs (frun s (repeat i (S k)))) i = Some q' /\ fcrashed q' = false /\
                fgot q' = (fgot q ++ vs)%list /\ own (frid i) vs.
Proof. exact fine_window_safe_l. Qed.
Print Assumptions fine_exclusive_window_safe_partial.
(* no request crashes, under any schedule — after the repair of the fill (snapshot, build locally, publish).
   Before it: A parks inside the fill, B's ServeHTTP resets the caches, A resumes and dereferences nil
   (schedule 0,0,1,0; reproduced deterministically through the yield hook, then fixed) *)
Theorem fine_never_crashes : forall progs sched j q,
  nth_error (freqs (frun (finit progs) sched)) j = Some q -> fcrashed q = false.
Proof. exact fine_never_crashes_l. Qed.
Print Assumptions fine_never_crashes.
