(* C11 — concurrent HTTP requests do not interfere: a response depends on its request.
   Vocabulary and the property, independent of the model's state: every value a handler reads while
   serving request r — through a local, the request object, or a superglobal — is r's own. *)
From Coq Require Export List Arith Bool.
Export ListNotations.

Inductive sg := GGet | GPost | GCookie | GServer.
Inductive rpart := PGet | PPost | PCookie.
Inductive rd :=
| RSg (g : sg)            (* $_GET[..], $_POST[..], $_COOKIE[..], $_SERVER[..] *)
| RReq (part : rpart)     (* $_REQUEST[..]: a key that comes from the GET / POST / COOKIE part *)
| RObj                    (* through the request object: $r->input(), $r->header() *)
| RLocal.                 (* a local, array element, object property, closure capture, loop variable *)

Definition is_private (x : rd) : bool := match x with RObj | RLocal => true | _ => false end.

(* one request = the list of its segments (reads between two scheduling points); requests are numbered
   from 1; a read yields the number of the request whose data it returned (None = empty) *)
Definition program := list (list rd).
Definition answers := list (rd * option nat).

(* the property: every answer request r got is r's own data *)
Definition own_data (r : nat) (a : answers) : Prop := Forall (fun p => snd p = Some r) a.
Definition own_private_data (r : nat) (a : answers) : Prop := Forall (fun p => is_private (fst p) = true -> snd p = Some r) a.
