(* C11 — correspondence: evaluate the model and the property on the interleavings the implementation ran. *)
From V.C11 Require Import Spec Model.

(* case: the program every request runs (all requests run the same handler), number of requests, the
   schedule as it was executed (request indices; one entry = one stage), and per request the owners of the
   data each read returned, in program order *)
Definition case := (program * nat * list nat * list (list (option nat)))%type.

Definition onat_eqb (a b : option nat) : bool :=
  match a, b with Some x, Some y => Nat.eqb x y | None, None => true | _, _ => false end.
Fixpoint olist_eqb (a b : list (option nat)) : bool :=
  match a, b with
  | [], [] => true
  | x :: a', y :: b' => onat_eqb x y && olist_eqb a' b'
  | _, _ => false
  end.
(* 1 = model vs implementation (tie) for some request; 2 = some read of a request returned data that is not
   its own (property); 3 = a PRIVATE read (local / request object / status / header) returned foreign data *)
Fixpoint per_req (s : state) (prog : program) (i : nat) (obs : list (list (option nat))) : list nat :=
  match obs with
  | [] => []
  | o :: rest =>
      let m := map snd (answers_of s i) in
      let kinds := concat prog in
      (if olist_eqb m o then [] else [1]) ++
      (if forallb (fun v => onat_eqb v (Some (rid i))) o then [] else [2]) ++
      (if forallb (fun p => negb (is_private (fst p)) || onat_eqb (snd p) (Some (rid i))) (combine kinds o) then [] else [3]) ++
      per_req s prog (S i) rest
  end.
Definition check_case (c : case) : list nat :=
  let '(prog, n, sched, obs) := c in
  let s := run (init (repeat prog n)) sched in
  nodup Nat.eq_dec (per_req s prog 0 obs).

(* free-running parallel load: no schedule is known, so only the property is evaluated:
   2 = some read returned foreign data, 3 = a private read did *)
Fixpoint per_req_load (prog : program) (i : nat) (obs : list (list (option nat))) : list nat :=
  match obs with
  | [] => []
  | o :: rest =>
      (if forallb (fun v => onat_eqb v (Some (rid i))) o then [] else [2]) ++
      (if forallb (fun p => negb (is_private (fst p)) || onat_eqb (snd p) (Some (rid i))) (combine (concat prog) o) then [] else [3]) ++
      (if Nat.eqb (List.length o) (List.length (concat prog)) then [] else [4]) ++
      per_req_load prog (S i) rest
  end.
Definition check_load (c : program * list (list (option nat))) : list nat :=
  nodup Nat.eq_dec (per_req_load (fst c) 0 (snd c)).

(* ---- fine-grained cases (yield point inside the $_GET fill): program, number of requests, executed
   schedule, per request (panicked?, answers).  1 = model vs implementation (crash flags; answers of the
   requests that did not crash); 2 = a read returned foreign data; 5 = a request crashed *)
From V.C11 Require Import FineModel.
Definition fcase := (list (list frd) * nat * list nat * list (bool * list (option nat)))%type.
Fixpoint fper_req (s : fstate) (i : nat) (obs : list (bool * list (option nat))) : list nat :=
  match obs with
  | [] => []
  | (crashed, o) :: rest =>
      match nth_error (freqs s) i with
      | None => [1]
      | Some q =>
          (if Bool.eqb (fcrashed q) crashed && (crashed || olist_eqb (fgot q) o) then [] else [1]) ++
          (if forallb (fun v => onat_eqb v (Some (frid i))) o then [] else [2]) ++
          (if crashed then [5] else [])
      end ++ fper_req s (S i) rest
  end.
Definition check_fcase (c : fcase) : list nat :=
  let '(prog, n, sched, obs) := c in
  nodup Nat.eq_dec (fper_req (frun (finit (repeat prog n)) sched) 0 obs).
