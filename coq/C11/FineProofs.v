(* C11 — the fine-grained model: an exclusive window is safe (no crash, own data) although the fill is
   interruptible; an interruption by another request's reset crashes the request. *)
From Coq Require Import Lia.
From V.C11 Require Import FineModel.

Lemma nth_fupd_same l i q x : nth_error l i = Some x -> nth_error (fupd l i q) i = Some q.
Proof. revert i; induction l as [|y l IH]; intros [|i] H; simpl in *; try discriminate; auto. Qed.

Definition own (r : nat) (vs : list (option nat)) : Prop := Forall (fun v => v = Some r) vs.
Definition settled (r : nat) (c : fcache) : Prop := c = FNil \/ c = FObj (Some r).

Lemma fexec_owned r xs : forall c, settled r c ->
  let '(c', vs, lft, pend) := fexec c r xs in
  own r vs /\ settled r c'.
Proof.
  induction xs as [|x xs IH]; intros c Hc; simpl.
  - split; [constructor|assumption].
  - destruct x.
    + destruct Hc as [-> | ->].
      * split; [constructor|]. left. reflexivity.
      * specialize (IH (FObj (Some r)) (or_intror eq_refl)).
        destruct (fexec (FObj (Some r)) r xs) as [[[c' vs] lft] pend]. destruct IH as [H1 H2].
        split; [constructor; auto|assumption].
    + specialize (IH c Hc). destruct (fexec c r xs) as [[[c' vs] lft] pend]. destruct IH as [H1 H2].
      split; [constructor; auto|assumption].
Qed.

(* request i is in the middle of an exclusive window: started, not crashed, everything it has read since
   `base` is its own, and the cache is nil / its own / its own half-built object *)
Definition good (s : fstate) (i : nat) (base : list (option nat)) : Prop :=
  exists q vs, nth_error (freqs s) i = Some q /\ fstarted q = true /\ fcrashed q = false /\
               fgot q = (base ++ vs)%list /\ own (frid i) vs /\ settled (frid i) (fc s).

Lemma fstep_good s i base : good s i base -> good (fstep s i) i base.
Proof.
  intros (q & vs & Hq & Hs & Hc & Hg & Ho & Hj). unfold fstep. rewrite Hq, Hc, Hs. simpl.
  destruct (fsegs q) as [|cur rest] eqn:Hseg; [exists q, vs; auto 10|].
  destruct (fpending q).
  - pose proof (fexec_owned (frid i) cur (FObj (Some (frid i))) (or_intror eq_refl)) as H.
    destruct (fexec (FObj (Some (frid i))) (frid i) cur) as [[[c2 ws] lft] pend]. destruct H as [H1 H2].
    eexists. exists (vs ++ Some (frid i) :: ws)%list. simpl. rewrite (nth_fupd_same _ _ _ _ Hq). simpl.
    repeat split; auto.
    + rewrite Hg. now rewrite app_assoc.
    + apply Forall_app. split; [assumption|constructor; auto].
  - pose proof (fexec_owned (frid i) cur (fc s) Hj) as H.
    destruct (fexec (fc s) (frid i) cur) as [[[c2 ws] lft] pend]. destruct H as [H1 H2].
    eexists. exists (vs ++ ws)%list. simpl. rewrite (nth_fupd_same _ _ _ _ Hq). simpl.
    repeat split; auto.
    + rewrite Hg. now rewrite app_assoc.
    + apply Forall_app. split; assumption.
Qed.

Lemma frun_good k : forall s i base, good s i base -> good (frun s (repeat i k)) i base.
Proof. induction k; intros; simpl; auto. apply IHk. now apply fstep_good. Qed.

(* from ANY state, a request that has not started and then runs k stages (any k) with nobody stepping in
   between has not crashed and has read only its own data — also through the interruptible fill *)
Lemma fine_window_safe_l s i q k : nth_error (freqs s) i = Some q -> fstarted q = false -> fcrashed q = false ->
  exists q' vs, nth_error (freqs (frun s (repeat i (S k)))) i = Some q' /\ fcrashed q' = false /\
                fgot q' = (fgot q ++ vs)%list /\ own (frid i) vs.
Proof.
  intros Hq Hs Hc. simpl.
  assert (G : good (fstep s i) i (fgot q)).
  { unfold fstep. rewrite Hq, Hc, Hs. simpl. eexists. exists []. simpl. rewrite (nth_fupd_same _ _ _ _ Hq).
    repeat split; auto; [now rewrite app_nil_r|constructor|]. left. reflexivity. }
  destruct (frun_good k _ _ _ G) as (q' & vs & H1 & _ & H3 & H4 & H5 & _). exists q', vs. auto.
Qed.

Lemma nth_fupd_cases l : forall k j x y, nth_error (fupd l k x) j = Some y -> y = x \/ nth_error l j = Some y.
Proof.
  induction l as [|z l IH]; intros [|k] [|j] x y H; simpl in *; try discriminate; auto.
  - inversion H. auto.
  - eauto.
Qed.

(* no request ever crashes, under ANY schedule (before fix of the fill: refuted by schedule 0,0,1,0) *)
Lemma fstep_no_crash s i : (forall j q, nth_error (freqs s) j = Some q -> fcrashed q = false) ->
  forall j q, nth_error (freqs (fstep s i)) j = Some q -> fcrashed q = false.
Proof.
  intros H j q' Hj. unfold fstep in Hj. destruct (nth_error (freqs s) i) as [q|] eqn:Hq; [|eauto].
  rewrite (H _ _ Hq) in Hj. simpl in Hj.
  pose proof (fun l k x y => nth_fupd_cases l k j x y) as U.
  destruct (negb (fstarted q)).
  - simpl in Hj. destruct (U _ _ _ _ Hj) as [->|E]; [reflexivity|eauto].
  - destruct (fsegs q) as [|cur rest]; [eauto|].
    destruct (fpending q).
    + destruct (fexec (FObj (Some (frid i))) (frid i) cur) as [[[c2 vs] lft] pend]. simpl in Hj.
      destruct (U _ _ _ _ Hj) as [->|E]; [reflexivity|eauto].
    + destruct (fexec (fc s) (frid i) cur) as [[[c2 vs] lft] pend]. simpl in Hj.
      destruct (U _ _ _ _ Hj) as [->|E]; [reflexivity|eauto].
Qed.
Lemma fine_never_crashes_l progs sched : forall j q,
  nth_error (freqs (frun (finit progs) sched)) j = Some q -> fcrashed q = false.
Proof.
  assert (G : forall sched s, (forall j q, nth_error (freqs s) j = Some q -> fcrashed q = false) ->
              forall j q, nth_error (freqs (frun s sched)) j = Some q -> fcrashed q = false).
  { induction sched0 as [|i r IH]; intros s H; simpl; [exact H|]. apply IH. now apply fstep_no_crash. }
  apply G. intros j q Hj. simpl in Hj. rewrite nth_error_map in Hj. destruct (nth_error progs j); inversion Hj. reflexivity.
Qed.
