(* C13 — non-vacuity: concrete non-trivial sequences meeting the theorems' hypotheses. *)
From V.C13 Require Import Model Spec Proofs.

Definition ex_ops : list op :=
  [OHeader "X-A" "1"; OStatus 404; OCookie "sid=7"; OJSON "{}"; OStatus 500; OHeader "X-B" "2"; OWrite "tail"].

Example ex_client : client (run ex_ops) =
  (404, [("X-A", ["1"]); ("Set-Cookie", ["sid=7"]); ("Content-Type", [ct_json])], "{}tail").
Proof. vm_compute. reflexivity. Qed.

(* post_commit_inert's hypothesis is satisfiable: a prefix that has committed *)
Example ex_committed : headerSent (run_raw [OStatus 201; OWrite "a"]) = true.
Proof. reflexivity. Qed.

(* status_default_200's hypothesis is satisfiable by a non-empty handler *)
Example ex_no_status : existsb sets_status [OHeader "X" "y"; OWrite "b"] = false.
Proof. reflexivity. Qed.

(* only-status handler: commitPending sends it (the 204 case of the tests) *)
Example ex_pending : client (run [OStatus 204]) = (204, [], "").
Proof. reflexivity. Qed.

Definition ex_entries : list entry :=
  [ {| prio := 5; ident := 0 |}; {| prio := 0; ident := 1 |}; {| prio := -1; ident := 2 |};
    {| prio := 0; ident := 3 |}; {| prio := 1; ident := 4 |} ].
Example ex_mw : map ident (ssort ex_entries) = [2; 1; 3; 4; 0]%nat.
Proof. reflexivity. Qed.

(* three middlewares on the root, two groups, one middleware each, a route on the first group: the
   route sees the root's three and its own group's, not the sibling's *)
Example ex_groups :
  map (map ident) (routes (rrun [RMw 0 0; RMw 0 0; RMw 0 0; RGroup 0; RGroup 0; RMw 1 0; RMw 2 0; RRoute 1; RRoute 2; RRoute 0]))
  = [[0; 1; 2; 3]; [0; 1; 2; 4]; [0; 1; 2]]%nat.
Proof. reflexivity. Qed.

(* the inner of two middlewares throws after $next: its own after-$next call ran, the outer one's did not,
   onError's calls follow; the 201 of the handler was committed by the first write *)
Example ex_throw_post :
  client (serve_t [(0%Z, {| l_pre := [OWrite "o"]; l_tpre := false; l_post := [OWrite "O"]; l_tpost := false |});
                   (1%Z, {| l_pre := [OStatus 201]; l_tpre := false; l_post := [OWrite "I"]; l_tpost := true |})]
                  [OHeader "X-A" "1"] false [OStatus 500; OWrite "E"])
  = (200, [], "oIE").
Proof. reflexivity. Qed.
