(* C13 — executable model of std/net/http/response.go (bufferedWriter) over a model of the
   underlying net/http ResponseWriter, and of applyMiddlewares (middleware_stack.go).
   No proofs here: this file must keep evaluating when a proof breaks. *)
From Coq Require Export List ZArith Bool String Ascii.
Export ListNotations.
Open Scope Z_scope.
Open Scope string_scope.

(* ---- the underlying writer (ASSUMED contract of net/http, as httptest.ResponseRecorder
        implements it): a header map; the first WriteHeader snapshots it and fixes the code,
        later WriteHeader calls are counted and ignored; Write before WriteHeader commits 200. *)
Definition hdrs := list (string * list string).

Fixpoint hset (k v : string) (h : hdrs) : hdrs :=
  match h with
  | [] => [(k, [v])]
  | (k', vs) :: r => if String.eqb k k' then (k, [v]) :: r else (k', vs) :: hset k v r
  end.
Fixpoint hadd (k v : string) (h : hdrs) : hdrs :=
  match h with
  | [] => [(k, [v])]
  | (k', vs) :: r => if String.eqb k k' then (k, (vs ++ [v])%list) :: r else (k', vs) :: hadd k v r
  end.
Fixpoint hget (k : string) (h : hdrs) : list string :=
  match h with
  | [] => []
  | (k', vs) :: r => if String.eqb k k' then vs else hget k r
  end.

(* net/textproto.CanonicalMIMEHeaderKey on keys made of token characters (letters, digits, - _ . ~ …: the keys the
   tie uses): first letter and every letter after '-' upper case, the others lower case.
   http.Header.Set/Add/Get canonicalise their key argument. *)
Definition up (c : Ascii.ascii) : Ascii.ascii :=
  let n := Ascii.nat_of_ascii c in if andb (Nat.leb 97 n) (Nat.leb n 122) then Ascii.ascii_of_nat (n - 32) else c.
Definition low (c : Ascii.ascii) : Ascii.ascii :=
  let n := Ascii.nat_of_ascii c in if andb (Nat.leb 65 n) (Nat.leb n 90) then Ascii.ascii_of_nat (n + 32) else c.
Fixpoint canon_from (upper : bool) (s : string) : string :=
  match s with
  | EmptyString => EmptyString
  | String c r =>
      String (if upper then up c else low c)
             (canon_from (Ascii.eqb c "-"%char) r)
  end.
Definition canon (k : string) : string := canon_from true k.

Record rw := { hdr : hdrs; wire : option (Z * hdrs); body : string; whCalls : nat }.

Definition rw_write_header (c : Z) (r : rw) : rw :=
  {| hdr := hdr r;
     wire := match wire r with None => Some (c, hdr r) | w => w end;
     body := body r; whCalls := S (whCalls r) |}.
Definition rw_write (p : string) (r : rw) : rw :=
  {| hdr := hdr r;
     wire := match wire r with None => Some (200, hdr r) | w => w end;
     body := body r ++ p; whCalls := whCalls r |}.
Definition rw_set (k v : string) (r : rw) : rw :=
  {| hdr := hset k v (hdr r); wire := wire r; body := body r; whCalls := whCalls r |}.
Definition rw_add (k v : string) (r : rw) : rw :=
  {| hdr := hadd k v (hdr r); wire := wire r; body := body r; whCalls := whCalls r |}.

(* ---- bufferedWriter, method by method as in response.go *)
Record bw := { status : Z; statusSet : bool; headerSent : bool; under : rw }.

Definition with_under (b : bw) (u : rw) : bw :=
  {| status := status b; statusSet := statusSet b; headerSent := headerSent b; under := u |}.

Definition WriteHeader (c : Z) (b : bw) : bw :=
  if headerSent b then b else
  {| status := c; statusSet := statusSet b; headerSent := true; under := rw_write_header c (under b) |}.
Definition sendHeader (b : bw) : bw := if headerSent b then b else WriteHeader (status b) b.
Definition Write (p : string) (b : bw) : bw :=
  let b' := sendHeader b in with_under b' (rw_write p (under b')).
Definition SetStatus (c : Z) (b : bw) : bw :=
  if headerSent b then b else {| status := c; statusSet := true; headerSent := false; under := under b |}.
Definition SetHeader (k v : string) (b : bw) : bw := with_under b (rw_set (canon k) v (under b)).
Definition SetCookie (v : string) (b : bw) : bw := with_under b (rw_add "Set-Cookie" v (under b)).
Definition commitPending (b : bw) : bw :=
  if negb (headerSent b) && statusSet b then WriteHeader (status b) b else b.
Definition set_code_if_unsent (c : Z) (b : bw) : bw :=
  if headerSent b then b else {| status := c; statusSet := true; headerSent := false; under := under b |}.
Definition Redirect (u : string) (c : Z) (b : bw) : bw :=
  let b3 := sendHeader (set_code_if_unsent c (SetHeader "Location" u b)) in
  with_under b3 (rw_write "" (under b3)).
Definition NoContent (c : Z) (b : bw) : bw := sendHeader (set_code_if_unsent c b).
Definition ct_html := "text/html; charset=utf-8".
Definition ct_json := "application/json; charset=utf-8".
Definition WriteHTML (p : string) (b : bw) : bw := Write p (SetHeader "Content-Type" ct_html b).
Definition WriteJSON (p : string) (b : bw) : bw := Write p (SetHeader "Content-Type" ct_json b).

Inductive op :=
| OStatus (c : Z) | OHeader (k v : string) | OCookie (v : string)
| OWrite (p : string) | OHTML (p : string) | OJSON (p : string)
| ORedirect (u : string) (c : Z) | ONoContent (c : Z) | OWriteHeader (c : Z)
| OHTMLWith (p : string) (c : Z)      (* script: $w->html($body, $code)  = SetStatus; WriteHTML *)
| OFormatted (c : Z) (p : string)     (* success()/error()/format(): writeFormattedResponse = SetStatus; WriteJSON *)
| ORefused.                           (* any status-taking script method called with a code outside 100..999:
                                         validStatusCode refuses it with a catchable error before the writer is touched *)

Definition step (b : bw) (o : op) : bw :=
  match o with
  | OStatus c => SetStatus c b
  | OHeader k v => SetHeader k v b
  | OCookie v => SetCookie v b
  | OWrite p => Write p b
  | OHTML p => WriteHTML p b
  | OJSON p => WriteJSON p b
  | ORedirect u c => Redirect u c b
  | ONoContent c => NoContent c b
  | OWriteHeader c => WriteHeader c b
  | OHTMLWith p c => WriteHTML p (SetStatus c b)
  | OFormatted c p => WriteJSON p (SetStatus c b)
  | ORefused => b
  end.

Definition init : bw :=
  {| status := 200; statusSet := false; headerSent := false;
     under := {| hdr := []; wire := None; body := ""; whCalls := 0 |} |}.

Definition run_raw (ops : list op) : bw := fold_left step ops init.
(* a handler: beginResponse, the calls, then the deferred commitPending *)
Definition run (ops : list op) : bw := commitPending (run_raw ops).

(* what the client sees once the handler has returned: net/http commits 200 with the current
   header map if nothing was committed (ASSUMED, as ResponseRecorder.Result does) *)
Definition client (b : bw) : Z * hdrs * string :=
  match wire (under b) with
  | Some (c, h) => (c, h, body (under b))
  | None => (200, hdr (under b), body (under b))
  end.

(* ---- middleware_stack.go: applyMiddlewares = stable sort by priority, then wrap from the
        last to the first (sort.SliceStable ASSUMED stable: modelled as insertion sort) *)
Record entry := { prio : Z; ident : nat }.
Fixpoint insert_stable (e : entry) (l : list entry) : list entry :=
  match l with
  | [] => [e]
  | x :: r => if (prio e <=? prio x)%Z then e :: x :: r else x :: insert_stable e r
  end.
(* insert from the right so that equal priorities keep registration order *)
Definition ssort (l : list entry) : list entry := fold_right insert_stable [] l.

Inductive ev := Enter (e : entry) | Exit (e : entry) | Final.
Definition handler := list ev.   (* the trace a handler produces when served *)
Definition wrap (e : entry) (next : handler) : handler := ([Enter e] ++ next ++ [Exit e])%list.
(* for i := len(sorted)-1 downto 0 { h = sorted[i].fn(h) } *)
Definition apply_middlewares (final : handler) (entries : list entry) : handler :=
  match entries with
  | [] => final
  | _ => fold_left (fun h e => wrap e h) (rev (ssort entries)) final
  end.

(* One request through a Server: middlewares (priority, calls before $next, calls after $next),
   the route handler, optionally an uncaught throw handled by onError. Every layer's
   beginResponse obtains the SAME bufferedWriter (newBufferedWriter passes an existing one
   through; withErrorHandler wraps the connection once), only the outermost finishResponse
   commits a pending status, and a panicking layer does not commit: so the response is what the
   calls of all layers, in execution order, produce as ONE sequence. A throw skips the
   after-$next calls and runs the onError calls instead. *)
Fixpoint number {A} (i : nat) (l : list A) : list (nat * A) :=
  match l with [] => [] | x :: r => (i, x) :: number (S i) r end.
Definition server_ops (mws : list (Z * (list op * list op))) (h : list op) (err : option (list op)) : list op :=
  let es := ssort (map (fun im => {| prio := fst (snd im); ident := fst im |}) (number 0 mws)) in
  let layer e := snd (nth (ident e) mws (0, ([], []))) in
  (List.concat (map (fun e => fst (layer e)) es) ++ h ++
   match err with
   | Some e => e
   | None => List.concat (map (fun e => snd (layer e)) (rev es))
   end)%list.
Definition serve mws h err : bw := run (server_ops mws h err).


(* ---- response.go SendFile (script: $w->file(path[, name])): after the path has been resolved (a missing
   path or a directory is refused before anything is set: ORefused) it is two SetHeader calls, sendHeader
   and the content copied to the connection, i.e. exactly these three calls *)
Definition send_file (ctype disposition content : string) : list op :=
  [OHeader "Content-Type" ctype; OHeader "Content-Disposition" disposition; OWrite content].

(* ---- server_class.go / server_group.go / server_middleware.go / server_handler.go: registration.
   A Server holds a middleware stack.  middleware() appends an entry to the RECEIVER's stack;
   group() creates a new Server whose stack starts as a copy of the parent's stack at that moment
   (NewServerClassFromGroup: append([]middlewareEntry{}, server.middlewares...)); registering a
   route wraps the handler with the receiver's stack as it is then (applyMiddlewares copies before
   sorting).  Go slices are modelled as immutable list values: sharing of a backing array between a
   parent and its groups would NOT be this model, and the correspondence check would see it.
   Servers are numbered in creation order (0 = the root), entries in registration order. *)
Inductive rop := RMw (t : nat) (p : Z) | RGroup (t : nat) | RRoute (t : nat).
Record rstate := { stacks : list (list entry); routes : list (list entry); nextid : nat }.
Definition rinit : rstate := {| stacks := [[]]; routes := []; nextid := 0 |}.
Fixpoint set_nth {A} (i : nat) (x : A) (l : list A) {struct l} : list A :=
  match l, i with
  | [], _ => []
  | _ :: r, O => x :: r
  | y :: r, S j => y :: set_nth j x r
  end.
Definition rstep (s : rstate) (o : rop) : rstate :=
  match o with
  | RMw t p =>
      match nth_error (stacks s) t with
      | Some st => {| stacks := set_nth t (st ++ [{| prio := p; ident := nextid s |}])%list (stacks s);
                      routes := routes s; nextid := S (nextid s) |}
      | None => s
      end
  | RGroup t =>
      match nth_error (stacks s) t with
      | Some st => {| stacks := (stacks s ++ [st])%list; routes := routes s; nextid := nextid s |}
      | None => s
      end
  | RRoute t =>
      match nth_error (stacks s) t with
      | Some st => {| stacks := stacks s; routes := (routes s ++ [st])%list; nextid := nextid s |}
      | None => s
      end
  end.
Definition rrun (h : list rop) : rstate := fold_left rstep h rinit.
(* what serving route r produces (each layer and the handler emit one event) *)
Definition route_trace (s : rstate) (r : nat) : option handler :=
  match nth_error (routes s) r with Some st => Some (apply_middlewares [Final] st) | None => None end.

(* ---- one request where ANY layer may end in an uncaught throw (handler.go newMiddleware /
   class middlewares: the panic unwinds through every outer layer, skipping its after-$next calls,
   and withErrorHandler runs the onError closure on the same bufferedWriter).  A layer: the calls
   before $next, whether it throws there, the calls after $next, whether it throws there. *)
Record layer := { l_pre : list op; l_tpre : bool; l_post : list op; l_tpost : bool }.
(* ls outermost first; result: the calls that ran, and whether a throw is propagating outwards *)
Fixpoint layers_ops (ls : list layer) (h : list op) (hthrow : bool) : list op * bool :=
  match ls with
  | [] => (h, hthrow)
  | l :: rest =>
      if l_tpre l then (l_pre l, true)
      else let (inner, thrown) := layers_ops rest h hthrow in
           if thrown then ((l_pre l ++ inner)%list, true)
           else ((l_pre l ++ inner ++ l_post l)%list, l_tpost l)
  end.
Definition no_layer : layer := {| l_pre := []; l_tpre := false; l_post := []; l_tpost := false |}.
Definition sorted_layers (mws : list (Z * layer)) : list layer :=
  let es := ssort (map (fun im => {| prio := fst (snd im); ident := fst im |}) (number 0 mws)) in
  map (fun e => snd (nth (ident e) mws (0, no_layer))) es.
Definition server_ops_t (mws : list (Z * layer)) (h : list op) (hthrow : bool) (onerr : list op) : list op :=
  let (ops, thrown) := layers_ops (sorted_layers mws) h hthrow in
  if thrown then (ops ++ onerr)%list else ops.
Definition serve_t mws h hthrow onerr : bw := run (server_ops_t mws h hthrow onerr).
(* a middleware that never throws, as a layer *)
Definition quiet (m : Z * (list op * list op)) : Z * layer :=
  (fst m, {| l_pre := fst (snd m); l_tpre := false; l_post := snd (snd m); l_tpost := false |}).
