(* C13 — correspondence: evaluate model and spec on the cases the implementation ran. *)
From V.C13 Require Import Model Spec.

Definition slist_eqb (a b : list string) : bool :=
  (Nat.eqb (List.length a) (List.length b)) && forallb (fun p => String.eqb (fst p) (snd p)) (combine a b).
(* header maps compared as maps (key order is not observable; value order within a key is) *)
Definition hdr_sub (h1 h2 : hdrs) : bool :=
  forallb (fun kv => match snd kv with [] => true | _ => slist_eqb (snd kv) (hget (fst kv) h2) end) h1.
Definition hdr_eqb (h1 h2 : hdrs) : bool := hdr_sub h1 h2 && hdr_sub h2 h1.

Record obs := { o_wh : nat; o_code : Z; o_hdr : hdrs; o_body : string }.
Definition case := (list op * obs)%type.

Definition obs_eqb (c : Z * hdrs * string) (o : obs) : bool :=
  let '(code, h, bd) := c in (code =? o_code o)%Z && hdr_eqb h (o_hdr o) && String.eqb bd (o_body o).

(* failing clause numbers: 1 = model/implementation disagree on the client view,
   2 = spec/implementation disagree, 3 = WriteHeader call count differs from the model,
   4 = more than one header commit observed *)
Definition check_case (c : case) : list nat :=
  let (ops, o) := c in
  let b := run ops in
  (if obs_eqb (client b) o then [] else [1%nat]) ++
  (if obs_eqb (spec ops) o then [] else [2%nat]) ++
  (if Nat.eqb (whCalls (under b)) (o_wh o) then [] else [3%nat]) ++
  (if Nat.leb (o_wh o) 1 then [] else [4%nat]).

(* middleware: entries (priority, id) and the observed trace: (0,id) enter, (1,id) exit, (2,0) final *)
Definition mcase := (list (Z * nat) * list (nat * nat))%type.
Definition ev_code (e : ev) : nat * nat :=
  match e with Enter x => (0%nat, ident x) | Exit x => (1%nat, ident x) | Final => (2%nat, 0%nat) end.
Definition pair_eqb (a b : nat * nat) : bool := Nat.eqb (fst a) (fst b) && Nat.eqb (snd a) (snd b).
Definition trace_eqb (a b : list (nat * nat)) : bool :=
  Nat.eqb (List.length a) (List.length b) && forallb (fun p => pair_eqb (fst p) (snd p)) (combine a b).
Definition check_mcase (c : mcase) : list nat :=
  let (es, tr) := c in
  let entries := map (fun p => {| prio := fst p; ident := snd p |}) es in
  if trace_eqb (map ev_code (apply_middlewares [Final] entries)) tr then [] else [1%nat].

(* server mode: middlewares (priority, before-$next ops, after-$next ops), handler ops, onError ops
   when the handler throws; observed like an ops case *)
Definition scase := (list (Z * (list op * list op)) * list op * option (list op) * obs)%type.
Definition check_scase (c : scase) : list nat :=
  let '(mws, h, err, o) := c in check_case (server_ops mws h err, o).

(* registration with groups: the history of middleware()/group()/route registrations and the observed
   trace of every route in registration order; failing clause = 1 + index of the route whose trace differs,
   0 = the number of routes differs *)
Definition gcase := (list rop * list (list (nat * nat)))%type.
Fixpoint check_routes (i : nat) (sts : list (list entry)) (trs : list (list (nat * nat))) : list nat :=
  match sts, trs with
  | [], [] => []
  | st :: sr, tr :: tr' =>
      (if trace_eqb (map ev_code (apply_middlewares [Final] st)) tr then [] else [S i]) ++ check_routes (S i) sr tr'
  | _, _ => [0%nat]
  end.
Definition check_gcase (c : gcase) : list nat :=
  let (h, trs) := c in check_routes 0 (routes (rrun h)) trs.

(* throwing layers: (priority, (pre, throws before $next, post, throws after $next)) *)
Definition tcase := (list (Z * (list op * bool * list op * bool)) * list op * bool * list op * obs)%type.
Definition check_tcase (c : tcase) : list nat :=
  let '(mws, h, ht, e, o) := c in
  let mk := fun m : Z * (list op * bool * list op * bool) =>
    let '(p, (a, ta, b, tb)) := m in (p, {| l_pre := a; l_tpre := ta; l_post := b; l_tpost := tb |}) in
  check_case (server_ops_t (map mk mws) h ht e, o).
