(* C13 — the property as a reference model (no reference to the writer's state variables). *)
From V.C13 Require Import Model.

(* an operation commits the response when it writes body bytes or is terminal *)
Definition commits (o : op) : bool :=
  match o with
  | OWrite _ | OHTML _ | OJSON _ | ORedirect _ _ | ONoContent _ | OWriteHeader _
  | OHTMLWith _ _ | OFormatted _ _ => true
  | _ => false
  end.
Definition body_of (o : op) : string :=
  match o with OWrite p | OHTML p | OJSON p | OHTMLWith p _ | OFormatted _ p => p | _ => "" end.

(* status and headers accumulated by the calls made before the commit point *)
Definition pre_step (sh : Z * hdrs) (o : op) : Z * hdrs :=
  let (s, h) := sh in
  match o with
  | OStatus c => (c, h)
  | OHeader k v => (s, hset (canon k) v h)
  | OCookie v => (s, hadd "Set-Cookie" v h)
  | _ => sh
  end.
(* what the committing call itself contributes *)
Definition commit_step (sh : Z * hdrs) (o : op) : Z * hdrs :=
  let (s, h) := sh in
  match o with
  | OHTML _ => (s, hset "Content-Type" ct_html h)
  | OJSON _ => (s, hset "Content-Type" ct_json h)
  | ORedirect u c => (c, hset "Location" u h)
  | ONoContent c => (c, h)
  | OWriteHeader c => (c, h)
  | OHTMLWith _ c => (c, hset "Content-Type" ct_html h)
  | OFormatted c _ => (c, hset "Content-Type" ct_json h)
  | _ => sh
  end.

Fixpoint spec_head (sh : Z * hdrs) (ops : list op) : Z * hdrs :=
  match ops with
  | [] => sh                       (* nothing committed: handler end commits what was set *)
  | o :: r => if commits o then commit_step sh o else spec_head (pre_step sh o) r
  end.
Definition spec_body (ops : list op) : string := fold_left (fun acc o => acc ++ body_of o) ops "".

Definition spec (ops : list op) : Z * hdrs * string :=
  (spec_head (200, []) ops, spec_body ops).

(* prefix of calls made before the commit point *)
Fixpoint before_commit (ops : list op) : list op :=
  match ops with
  | [] => []
  | o :: r => if commits o then [] else o :: before_commit r
  end.
Definition committed (ops : list op) : bool := existsb commits ops.

(* vocabulary for reading the status clause off the reference model *)
Definition sets_status (o : op) : bool :=
  match o with OStatus _ | ORedirect _ _ | ONoContent _ | OWriteHeader _ | OHTMLWith _ _ | OFormatted _ _ => true | _ => false end.
Fixpoint last_status (d : Z) (ops : list op) : Z :=
  match ops with
  | [] => d
  | OStatus c :: r => last_status c r
  | _ :: r => last_status d r
  end.
Fixpoint first_commit (ops : list op) : option op :=
  match ops with [] => None | o :: r => if commits o then Some o else first_commit r end.

(* middleware order: ascending priority, ties in registration order *)
Fixpoint sorted_prio (l : list entry) : Prop :=
  match l with
  | [] => True
  | x :: r => (forall y, In y r -> (prio x <= prio y)%Z) /\ sorted_prio r
  end.
Definition same_prio (p : Z) (e : entry) : bool := (prio e =? p)%Z.

(* ---- registration with route groups, stated per server and without any store of stacks: which
   middlewares server t holds after a history (given latest-first).  Only three things matter:
   t's own middleware() calls, and — if t is a group — what its parent held when t was created. *)
Fixpoint nservers_rev (rh : list rop) : nat :=
  match rh with
  | [] => 1
  | RGroup p :: rest => let n := nservers_rev rest in if (p <? n)%nat then S n else n
  | _ :: rest => nservers_rev rest
  end.
Fixpoint nmw_rev (rh : list rop) : nat :=
  match rh with
  | [] => 0
  | RMw t _ :: rest => if (t <? nservers_rev rest)%nat then S (nmw_rev rest) else nmw_rev rest
  | _ :: rest => nmw_rev rest
  end.
Fixpoint spec_stack_rev (rh : list rop) (t : nat) : list entry :=
  match rh with
  | [] => []
  | RMw t' p :: rest =>
      if ((t' =? t)%nat && (t <? nservers_rev rest)%nat)%bool
      then (spec_stack_rev rest t ++ [{| prio := p; ident := nmw_rev rest |}])%list
      else spec_stack_rev rest t
  | RGroup p :: rest =>
      if ((t =? nservers_rev rest)%nat && (p <? nservers_rev rest)%nat)%bool
      then spec_stack_rev rest p
      else spec_stack_rev rest t
  | RRoute _ :: rest => spec_stack_rev rest t
  end.
Definition nservers (h : list rop) : nat := nservers_rev (rev h).
Definition spec_stack (h : list rop) (t : nat) : list entry := spec_stack_rev (rev h) t.
(* the chains of the routes registered by a history, in registration order *)
Fixpoint spec_routes_rev (rh : list rop) : list (list entry) :=
  match rh with
  | [] => []
  | RRoute t :: rest =>
      if (t <? nservers_rev rest)%nat then (spec_routes_rev rest ++ [spec_stack_rev rest t])%list else spec_routes_rev rest
  | _ :: rest => spec_routes_rev rest
  end.
Definition spec_routes (h : list rop) : list (list entry) := spec_routes_rev (rev h).
