(* C13 — the property, clause by clause.  Only statements here; every proof is `exact lemma`. *)
From Coq Require Import Permutation.
From V.C13 Require Import Model Spec Proofs.

(* "the underlying connection sees at most one header commit" — for every operation sequence,
   at the end of the handler and at every point inside it *)
Theorem commit_at_most_once : forall ops, (whCalls (under (run ops)) <= 1)%nat.
Proof. exact commit_at_most_once_l. Qed.
Print Assumptions commit_at_most_once.

Theorem commit_at_most_once_at_every_point : forall ops, (whCalls (under (run_raw ops)) <= 1)%nat.
Proof. exact commit_at_most_once_prefix_l. Qed.
Print Assumptions commit_at_most_once_at_every_point.

(* "the client receives the last status set before the first body byte or terminal call (200 if
   none), every header set before that point, and the concatenation of all body writes":
   what the client sees is exactly the reference model, for every operation sequence *)
Theorem wire_is_spec : forall ops, client (run ops) = spec ops.
Proof. exact wire_is_spec_l. Qed.
Print Assumptions wire_is_spec.

(* the status clause read off the reference model, spelled out *)
Theorem client_status : forall ops,
  fst (fst (client (run ops))) =
  match first_commit ops with
  | Some (ORedirect _ c) | Some (ONoContent c) | Some (OWriteHeader c)
  | Some (OHTMLWith _ c) | Some (OFormatted c _) => c
  | _ => last_status 200 (before_commit ops)
  end.
Proof. exact client_status_l. Qed.
Print Assumptions client_status.

Theorem status_default_200 : forall ops,
  existsb sets_status ops = false -> fst (fst (client (run ops))) = 200.
Proof. exact status_default_200_l. Qed.
Print Assumptions status_default_200.

(* "every header set before that point [reaches the client]": a header set by a call before the
   commit point is present in what the client receives (with the value of the last call that set
   it — that finer statement is wire_is_spec) *)
Theorem header_reaches_client : forall ops k v, In (OHeader k v) (before_commit ops) ->
  hget (canon k) (snd (fst (client (run ops)))) <> [].
Proof. exact header_reaches_client_l. Qed.
Print Assumptions header_reaches_client.

(* one request through middlewares + handler (+ onError) is ONE operation sequence (Model.server_ops),
   so every theorem above applies to it; in particular the connection sees at most one commit *)
Theorem server_commit_at_most_once : forall mws h err, (whCalls (under (serve mws h err)) <= 1)%nat.
Proof. intros. apply commit_at_most_once_l. Qed.
Theorem server_wire_is_spec : forall mws h err, client (serve mws h err) = spec (server_ops mws h err).
Proof. intros. apply wire_is_spec_l. Qed.
Print Assumptions server_commit_at_most_once.

(* "calls after the commit cannot alter status or already-sent headers" *)
Theorem post_commit_inert : forall a b, headerSent (run_raw a) = true ->
  wire (under (run (a ++ b))) = wire (under (run_raw a)) /\
  whCalls (under (run (a ++ b))) = whCalls (under (run_raw a)) /\
  exists tail, body (under (run (a ++ b))) = (body (under (run_raw a)) ++ tail)%string.
Proof. exact post_commit_inert_l. Qed.
Print Assumptions post_commit_inert.

(* "Middlewares run outermost-first in ascending priority, ties in registration order, each
   wrapping all later ones" *)
Theorem mw_trace : forall final entries,
  apply_middlewares final entries =
  (map Enter (ssort entries) ++ final ++ map Exit (rev (ssort entries)))%list.
Proof. exact mw_trace_l. Qed.
Print Assumptions mw_trace.

Theorem mw_order_permutation : forall entries, Permutation entries (ssort entries).
Proof. exact ssort_perm. Qed.
Theorem mw_order_ascending : forall entries, sorted_prio (ssort entries).
Proof. exact ssort_sorted. Qed.
Theorem mw_order_stable : forall p entries,
  filter (same_prio p) (ssort entries) = filter (same_prio p) entries.
Proof. exact ssort_stable_l. Qed.
Print Assumptions mw_order_permutation.
Print Assumptions mw_order_ascending.
Print Assumptions mw_order_stable.

(* Registration with route groups ($server->group(prefix)).  The model keeps one stack per Server
   (Model.rstep); the spec says per server what it holds (Spec.spec_stack) with no store at all. *)
Theorem reg_refines_spec : forall h t, (t < nservers h)%nat ->
  nth_error (stacks (rrun h)) t = Some (spec_stack h t).
Proof. exact reg_stack_l. Qed.
Theorem reg_routes_are_spec : forall h, routes (rrun h) = spec_routes h.
Proof. exact reg_routes_l. Qed.
Print Assumptions reg_refines_spec.
Print Assumptions reg_routes_are_spec.
(* what a Server holds changes only by its OWN middleware() calls: nothing registered on the parent,
   on a sibling group or on a sub-group afterwards adds, removes or replaces an entry ... *)
Theorem reg_independent : forall h o t, (t < nservers h)%nat -> (forall p, o <> RMw t p) ->
  spec_stack (h ++ [o]) t = spec_stack h t.
Proof. exact reg_independent_l. Qed.
(* ... its own middleware() appends exactly one entry ... *)
Theorem reg_own_appends : forall h t p, (t < nservers h)%nat ->
  exists k, spec_stack (h ++ [RMw t p]) t = (spec_stack h t ++ [{| prio := p; ident := k |}])%list.
Proof. exact reg_own_l. Qed.
(* ... and a new group starts with what its parent holds at that moment *)
Theorem reg_group_inherits : forall h p, (p < nservers h)%nat ->
  nservers (h ++ [RGroup p]) = S (nservers h) /\
  spec_stack (h ++ [RGroup p]) (nservers h) = spec_stack h p.
Proof. exact reg_group_l. Qed.
(* a route is wrapped by what its Server holds when it is registered, and keeps that chain whatever is
   registered later; with mw_trace this fixes the order in which its layers run *)
Theorem reg_route_chain : forall h t, (t < nservers h)%nat ->
  spec_routes (h ++ [RRoute t]) = (spec_routes h ++ [spec_stack h t])%list.
Proof. exact reg_route_l. Qed.
Theorem reg_routes_keep_their_chain : forall h h', exists more, spec_routes (h ++ h') = (spec_routes h ++ more)%list.
Proof. exact spec_routes_prefix_l. Qed.
Print Assumptions reg_independent.
Print Assumptions reg_own_appends.
Print Assumptions reg_group_inherits.
Print Assumptions reg_route_chain.
Print Assumptions reg_routes_keep_their_chain.

(* A request in which any layer — a middleware before or after $next, or the handler — may end in an
   uncaught throw (Model.server_ops_t): still ONE operation sequence on one bufferedWriter, so the
   connection sees at most one commit and the client sees the spec of the calls that ran ... *)
Theorem server_throw_commit_at_most_once : forall mws h ht e, (whCalls (under (serve_t mws h ht e)) <= 1)%nat.
Proof. intros. apply commit_at_most_once_l. Qed.
Theorem server_throw_wire_is_spec : forall mws h ht e, client (serve_t mws h ht e) = spec (server_ops_t mws h ht e).
Proof. intros. apply wire_is_spec_l. Qed.
(* ... when no middleware throws this is exactly the request of server_ops ... *)
Theorem server_throw_generalises : forall mws h ht e,
  server_ops_t (map quiet mws) h ht e = server_ops mws h (if ht then Some e else None).
Proof. exact server_ops_t_quiet_l. Qed.
(* ... and a middleware that throws before $next stops the request there: the calls made are those of
   the layers outside it before $next and its own, nothing of any inner layer, no after-$next call *)
Theorem throw_before_next_stops_the_chain : forall ls1 l ls2 h ht, Forall quiet_layer ls1 -> l_tpre l = true ->
  layers_ops (ls1 ++ l :: ls2) h ht = ((List.concat (map l_pre ls1) ++ l_pre l)%list, true).
Proof. exact layers_ops_tpre. Qed.
Print Assumptions server_throw_commit_at_most_once.
Print Assumptions server_throw_wire_is_spec.
Print Assumptions server_throw_generalises.
Print Assumptions throw_before_next_stops_the_chain.
