(* C13 — lemmas. *)
From Coq Require Import Lia Permutation Sorted.
From V.Common Require Import StrLemmas.
From V.C13 Require Import Model Spec.

(* ------------------------------------------------------------------ states *)
Definition unsent (s : Z) (ss : bool) (h : hdrs) : bw :=
  {| status := s; statusSet := ss; headerSent := false;
     under := {| hdr := h; wire := None; body := ""; whCalls := 0 |} |}.
Definition sent (s : Z) (ss : bool) (h : hdrs) (w : Z * hdrs) (bd : string) : bw :=
  {| status := s; statusSet := ss; headerSent := true;
     under := {| hdr := h; wire := Some w; body := bd; whCalls := 1 |} |}.

Ltac unf := unfold step, WriteHTML, WriteJSON, Redirect, NoContent, SetStatus, SetHeader, SetCookie, Write,
  sendHeader, WriteHeader, set_code_if_unsent, commitPending, with_under, rw_write, rw_set, rw_add,
  rw_write_header in *; cbn in *.

Lemma init_unsent : init = unsent 200 false []. Proof. reflexivity. Qed.

(* every op keeps a sent state sent, with the same wire and one commit, appending its body *)
Lemma step_sent s ss h w bd o :
  exists s' ss' h', step (sent s ss h w bd) o = sent s' ss' h' w (bd ++ body_of o).
Proof.
  destruct o; unfold sent; unf; rewrite ?append_nil_r; eauto.
Qed.

Lemma fold_body_acc ops : forall acc,
  fold_left (fun a o => a ++ body_of o) ops acc = acc ++ spec_body ops.
Proof.
  unfold spec_body. induction ops as [|o ops IH]; intros acc; cbn.
  - now rewrite append_nil_r.
  - rewrite IH. rewrite (IH (body_of o)). now rewrite append_assoc.
Qed.

Lemma spec_body_cons o ops : spec_body (o :: ops) = body_of o ++ spec_body ops.
Proof. unfold spec_body at 1. cbn [fold_left]. now rewrite fold_body_acc. Qed.

Lemma run_sent ops : forall s ss h w bd,
  exists s' ss' h', fold_left step ops (sent s ss h w bd) = sent s' ss' h' w (bd ++ spec_body ops).
Proof.
  induction ops as [|o ops IH]; intros s ss h w bd; cbn [fold_left].
  - exists s, ss, h. unfold spec_body; cbn. now rewrite append_nil_r.
  - destruct (step_sent s ss h w bd o) as (s' & ss' & h' & ->).
    destruct (IH s' ss' h' w (bd ++ body_of o)) as (s2 & ss2 & h2 & ->).
    exists s2, ss2, h2. f_equal. rewrite spec_body_cons. now rewrite append_assoc.
Qed.

(* a non-committing op keeps an unsent state unsent and follows pre_step *)
Lemma step_unsent_pre s ss h o : commits o = false ->
  exists ss', step (unsent s ss h) o = unsent (fst (pre_step (s, h) o)) ss' (snd (pre_step (s, h) o))
              /\ (ss' = false -> ss = false /\ fst (pre_step (s, h) o) = s).
Proof.
  destruct o; cbn [commits]; intros Hc; try discriminate; unfold unsent; unf;
    eexists; (split; [reflexivity|intros E; try discriminate E; auto]).
Qed.

(* a committing op on an unsent state: the wire is exactly commit_step *)
Lemma step_unsent_commit s ss h o : commits o = true ->
  exists s' ss' h', step (unsent s ss h) o = sent s' ss' h' (commit_step (s, h) o) (body_of o).
Proof.
  destruct o; cbn [commits]; intros Hc; try discriminate; unfold unsent, sent; unf; eauto.
Qed.

Lemma body_nocommit ops : existsb commits ops = false -> spec_body ops = "".
Proof.
  unfold spec_body. induction ops as [|o ops IH]; cbn; intros H; [reflexivity|].
  apply orb_false_iff in H as [Ho Hr]. destruct o; try discriminate; cbn; auto.
Qed.

Lemma client_run_unsent ops : forall s ss h, (ss = false -> s = 200) ->
  client (commitPending (fold_left step ops (unsent s ss h))) = (spec_head (s, h) ops, spec_body ops).
Proof.
  induction ops as [|o ops IH]; intros s ss h Hs; cbn [fold_left spec_head].
  - unfold commitPending, client; cbn. destruct ss; cbn; [reflexivity|]. now rewrite Hs.
  - destruct (commits o) eqn:Hc.
    + destruct (step_unsent_commit s ss h o Hc) as (s' & ss' & h' & ->).
      destruct (run_sent ops s' ss' h' (commit_step (s, h) o) (body_of o)) as (s2 & ss2 & h2 & ->).
      rewrite spec_body_cons. destruct (commit_step (s, h) o) as [c hh] eqn:Ecs.
      unfold commitPending, sent, client. cbn [headerSent negb andb under wire body]. reflexivity.
    + destruct (step_unsent_pre s ss h o Hc) as (ss' & -> & Hss).
      rewrite IH.
      * rewrite spec_body_cons. destruct (pre_step (s, h) o) as [s1 h1] eqn:E. cbn [fst snd]. f_equal.
        destruct o; try discriminate; reflexivity.
      * intros E. destruct (Hss E) as [-> ->]. auto.
Qed.

Lemma wire_is_spec_l ops : client (run ops) = spec ops.
Proof. unfold run, run_raw, spec. rewrite init_unsent. apply client_run_unsent. auto. Qed.

(* ------------------------------------------------------------------ commit once *)
(* reachable states are `unsent` or `sent`, so the underlying WriteHeader count is 0 or 1 *)
Lemma reach_shape ops : forall s ss h,
  (exists s' ss' h', fold_left step ops (unsent s ss h) = unsent s' ss' h') \/
  (exists s' ss' h' w bd, fold_left step ops (unsent s ss h) = sent s' ss' h' w bd).
Proof.
  induction ops as [|o ops IH]; intros s ss h; cbn [fold_left].
  - left; eauto.
  - destruct (commits o) eqn:Hc.
    + destruct (step_unsent_commit s ss h o Hc) as (s' & ss' & h' & ->).
      destruct (run_sent ops s' ss' h' (commit_step (s, h) o) (body_of o)) as (s2 & ss2 & h2 & ->).
      right. do 5 eexists. reflexivity.
    + destruct (step_unsent_pre s ss h o Hc) as (ss' & -> & _). apply IH.
Qed.

Lemma commit_at_most_once_l ops : (whCalls (under (run ops)) <= 1)%nat.
Proof.
  unfold run, run_raw. rewrite init_unsent.
  destruct (reach_shape ops 200 false []) as [(s & ss & h & ->)|(s & ss & h & w & bd & ->)].
  - unfold commitPending; cbn. destruct ss; cbn; lia.
  - unfold commitPending; cbn. lia.
Qed.

(* the number of WriteHeader calls on the underlying writer never exceeds one at ANY point of
   the handler, not only at its end *)
Lemma commit_at_most_once_prefix_l ops : (whCalls (under (run_raw ops)) <= 1)%nat.
Proof.
  unfold run_raw. rewrite init_unsent.
  destruct (reach_shape ops 200 false []) as [(s & ss & h & ->)|(s & ss & h & w & bd & ->)]; cbn; lia.
Qed.

(* ------------------------------------------------------------------ inert after commit *)
Lemma sent_of_headerSent ops : headerSent (run_raw ops) = true ->
  exists s ss h w bd, run_raw ops = sent s ss h w bd.
Proof.
  unfold run_raw. rewrite init_unsent.
  destruct (reach_shape ops 200 false []) as [(s & ss & h & ->)|(s & ss & h & w & bd & ->)].
  - cbn. discriminate.
  - intros _. do 5 eexists. reflexivity.
Qed.

Lemma post_commit_inert_l a b : headerSent (run_raw a) = true ->
  wire (under (run (a ++ b))) = wire (under (run_raw a)) /\
  whCalls (under (run (a ++ b))) = whCalls (under (run_raw a)) /\
  exists tail, body (under (run (a ++ b))) = body (under (run_raw a)) ++ tail.
Proof.
  intros H. destruct (sent_of_headerSent a H) as (s & ss & h & w & bd & E).
  unfold run, run_raw in *. rewrite fold_left_app, E.
  destruct (run_sent b s ss h w bd) as (s2 & ss2 & h2 & ->).
  unfold commitPending; cbn. repeat split. eauto.
Qed.

(* ------------------------------------------------------------------ corollaries of the spec *)
Lemma spec_head_default ops : forall h, existsb sets_status ops = false -> fst (spec_head (200, h) ops) = 200.
Proof.
  induction ops as [|o ops IH]; intros h H; cbn; [reflexivity|].
  cbn in H. apply orb_false_iff in H as [Ho Hr].
  destruct o; cbn in *; try discriminate; auto.
Qed.

Lemma status_default_200_l ops : existsb sets_status ops = false -> fst (fst (client (run ops))) = 200.
Proof. intros H. rewrite wire_is_spec_l. unfold spec; cbn. now apply spec_head_default. Qed.

(* status seen by the client = the last status set before the commit point, the committing
   call's own code counting *)
Lemma spec_head_status ops : forall s h,
  fst (spec_head (s, h) ops) =
  match first_commit ops with
  | Some (ORedirect _ c) | Some (ONoContent c) | Some (OWriteHeader c)
  | Some (OHTMLWith _ c) | Some (OFormatted c _) => c
  | _ => last_status s (before_commit ops)
  end.
Proof.
  induction ops as [|o ops IH]; intros s h; cbn; [reflexivity|].
  destruct o; cbn; try reflexivity; apply IH.
Qed.

Lemma client_status_l ops :
  fst (fst (client (run ops))) =
  match first_commit ops with
  | Some (ORedirect _ c) | Some (ONoContent c) | Some (OWriteHeader c)
  | Some (OHTMLWith _ c) | Some (OFormatted c _) => c
  | _ => last_status 200 (before_commit ops)
  end.
Proof. rewrite wire_is_spec_l. unfold spec; cbn. apply spec_head_status. Qed.

(* a header set before the commit point (and not overwritten before it) reaches the client *)
Lemma hget_hset_same k v h : hget k (hset k v h) = [v].
Proof.
  induction h as [|[k' vs] r IH]; cbn; [now rewrite String.eqb_refl|].
  destruct (String.eqb k k') eqn:E; cbn; [now rewrite String.eqb_refl|now rewrite E].
Qed.
Lemma hget_hset_other k k' v h : String.eqb k k' = false -> hget k (hset k' v h) = hget k h.
Proof.
  intros E. induction h as [|[k2 vs] r IH]; cbn; [now rewrite E|].
  destruct (String.eqb k' k2) eqn:E2; cbn.
  - apply String.eqb_eq in E2; subst. now rewrite E.
  - destruct (String.eqb k k2); auto.
Qed.

(* a header set before the commit point reaches the client (possibly with a later value) *)
Definition hmem (k : string) (h : hdrs) : Prop := hget k h <> [].
Lemma hmem_hset_same k v h : hmem k (hset k v h).
Proof. unfold hmem. rewrite hget_hset_same. discriminate. Qed.
Lemma hmem_hset k k' v h : hmem k h -> hmem k (hset k' v h).
Proof.
  unfold hmem. destruct (String.eqb k k') eqn:E.
  - apply String.eqb_eq in E; subst. rewrite hget_hset_same. discriminate.
  - now rewrite hget_hset_other.
Qed.
Lemma hget_hadd_other k k' v h : String.eqb k k' = false -> hget k (hadd k' v h) = hget k h.
Proof.
  intros E. induction h as [|[k2 vs] r IH]; cbn; [now rewrite E|].
  destruct (String.eqb k' k2) eqn:E2; cbn.
  - apply String.eqb_eq in E2; subst. now rewrite E.
  - destruct (String.eqb k k2); auto.
Qed.
Lemma hget_hadd_same k v h : hget k (hadd k v h) = (hget k h ++ [v])%list.
Proof.
  induction h as [|[k2 vs] r IH]; cbn; [now rewrite String.eqb_refl|].
  destruct (String.eqb k k2) eqn:E; cbn; [now rewrite String.eqb_refl|now rewrite E].
Qed.
Lemma hmem_hadd k k' v h : hmem k h -> hmem k (hadd k' v h).
Proof.
  unfold hmem. destruct (String.eqb k k') eqn:E.
  - apply String.eqb_eq in E; subst. rewrite hget_hadd_same. intros H C. apply app_eq_nil in C as [C _]. auto.
  - now rewrite hget_hadd_other.
Qed.
Lemma hmem_pre_step k s h o : hmem k h -> hmem k (snd (pre_step (s, h) o)).
Proof. destruct o; cbn; auto using hmem_hset, hmem_hadd. Qed.
Lemma hmem_commit_step k s h o : hmem k h -> hmem k (snd (commit_step (s, h) o)).
Proof. destruct o; cbn; auto using hmem_hset. Qed.
Lemma spec_head_keeps k ops : forall s h, hmem k h -> hmem k (snd (spec_head (s, h) ops)).
Proof.
  induction ops as [|o ops IH]; intros s h H; cbn [spec_head]; [exact H|].
  destruct (commits o); [now apply hmem_commit_step|].
  destruct (pre_step (s, h) o) as [s1 h1] eqn:E. apply IH.
  change h1 with (snd (s1, h1)). rewrite <- E. now apply hmem_pre_step.
Qed.
Lemma spec_head_has_header k v ops : forall s h, In (OHeader k v) (before_commit ops) ->
  hmem (canon k) (snd (spec_head (s, h) ops)).
Proof.
  induction ops as [|o ops IH]; intros s h H; cbn in H; [contradiction|].
  cbn [spec_head]. destruct (commits o) eqn:Hc; [contradiction|].
  destruct H as [->|H].
  - cbn [pre_step]. apply spec_head_keeps. apply hmem_hset_same.
  - destruct (pre_step (s, h) o) as [s1 h1]. now apply IH.
Qed.
Lemma header_reaches_client_l ops k v : In (OHeader k v) (before_commit ops) ->
  hget (canon k) (snd (fst (client (run ops)))) <> [].
Proof. intros H. rewrite wire_is_spec_l. unfold spec; cbn [fst snd]. now apply (spec_head_has_header k v ops 200 []). Qed.

(* ------------------------------------------------------------------ middlewares *)
Lemma insert_perm e l : Permutation (e :: l) (insert_stable e l).
Proof.
  induction l as [|x r IH]; cbn; [apply Permutation_refl|].
  destruct (prio e <=? prio x)%Z; [apply Permutation_refl|].
  eapply perm_trans; [apply perm_swap|]. now apply perm_skip.
Qed.
Lemma ssort_perm l : Permutation l (ssort l).
Proof.
  unfold ssort. induction l as [|x r IH]; cbn; [constructor|].
  eapply perm_trans; [apply perm_skip, IH|apply insert_perm].
Qed.

Lemma insert_sorted e l : sorted_prio l -> sorted_prio (insert_stable e l).
Proof.
  induction l as [|x r IH]; cbn; intros H; [split; [intros y []|exact I]|].
  destruct H as [Hx Hr]. destruct (prio e <=? prio x)%Z eqn:E.
  - apply Z.leb_le in E. cbn. split; [|split; assumption].
    intros y [<-|Hy]; [lia|]. specialize (Hx y Hy). lia.
  - apply Z.leb_gt in E. cbn. split; [|apply IH, Hr].
    intros y Hy. apply (Permutation_in _ (Permutation_sym (insert_perm e r))) in Hy.
    destruct Hy as [<-|Hy]; [lia|auto].
Qed.
Lemma ssort_sorted l : sorted_prio (ssort l).
Proof. unfold ssort. induction l as [|x r IH]; cbn; [exact I|now apply insert_sorted]. Qed.

(* stability: among the entries of one priority, registration order is kept *)
Lemma insert_filter p e l :
  filter (same_prio p) (insert_stable e l) =
  if same_prio p e then e :: filter (same_prio p) l else filter (same_prio p) l.
Proof.
  induction l as [|x r IH]; cbn.
  - destruct (same_prio p e); reflexivity.
  - destruct (prio e <=? prio x)%Z eqn:E; cbn.
    + destruct (same_prio p e); reflexivity.
    + rewrite IH. apply Z.leb_gt in E. unfold same_prio in *.
      destruct (prio x =? p)%Z eqn:Ex; destruct (prio e =? p)%Z eqn:Ee; try reflexivity.
      apply Z.eqb_eq in Ex. apply Z.eqb_eq in Ee. lia.
Qed.
Lemma ssort_stable_l p l : filter (same_prio p) (ssort l) = filter (same_prio p) l.
Proof.
  unfold ssort. induction l as [|x r IH]; cbn; [reflexivity|].
  rewrite insert_filter, IH. reflexivity.
Qed.

Lemma wrap_trace final l :
  fold_right wrap final l = (map Enter l ++ final ++ map Exit (rev l))%list.
Proof.
  induction l as [|x r IH]; cbn; [now rewrite app_nil_r|].
  rewrite IH. unfold wrap. cbn. rewrite map_app. cbn. now rewrite !app_assoc.
Qed.

Lemma mw_trace_l final entries :
  apply_middlewares final entries =
  (map Enter (ssort entries) ++ final ++ map Exit (rev (ssort entries)))%list.
Proof.
  unfold apply_middlewares. destruct entries as [|e es]; [cbn; now rewrite app_nil_r|].
  rewrite <- wrap_trace. rewrite <- fold_left_rev_right. rewrite rev_involutive. reflexivity.
Qed.

(* ---- registration with groups *)
Lemma nth_error_set_nth_same {A} (l : list A) : forall i x, (i < List.length l)%nat -> nth_error (set_nth i x l) i = Some x.
Proof. induction l as [|y r IH]; intros i x H; simpl in H; [lia|]. destruct i; simpl; [reflexivity|]. apply IH; lia. Qed.
Lemma nth_error_set_nth_other {A} (l : list A) : forall i j x, i <> j -> nth_error (set_nth i x l) j = nth_error l j.
Proof. induction l as [|y r IH]; intros i j x H; simpl; [reflexivity|].
  destruct i, j; simpl; try reflexivity; [congruence|]. apply IH; congruence. Qed.
Lemma set_nth_length {A} (l : list A) : forall i x, List.length (set_nth i x l) = List.length l.
Proof. induction l as [|y r IH]; intros i x; simpl; [reflexivity|]. destruct i; simpl; [reflexivity|]. now rewrite IH. Qed.

Definition rinv (rh : list rop) (s : rstate) : Prop :=
  List.length (stacks s) = nservers_rev rh /\ nextid s = nmw_rev rh /\ routes s = spec_routes_rev rh /\
  forall t, (t < nservers_rev rh)%nat -> nth_error (stacks s) t = Some (spec_stack_rev rh t).

Lemma rinv_init : rinv [] rinit.
Proof. repeat split. intros t H. simpl in H. destruct t; [reflexivity|lia]. Qed.

Lemma rinv_step rh s o : rinv rh s -> rinv (o :: rh) (rstep s o).
Proof.
  intros (HL & HN & HR & HS). unfold rinv. destruct o as [t p|t|t]; simpl.
  - destruct (nth_error (stacks s) t) as [st|] eqn:E.
    + assert (Ht : (t < nservers_rev rh)%nat) by (rewrite <- HL; apply nth_error_Some; congruence).
      assert (Hb : (t <? nservers_rev rh)%nat = true) by (apply Nat.ltb_lt; exact Ht).
      rewrite Hb. repeat split; simpl.
      * now rewrite set_nth_length.
      * now rewrite HN.
      * exact HR.
      * intros u Hu. destruct (Nat.eqb_spec t u) as [->|Hne].
        -- rewrite Hb. simpl. rewrite nth_error_set_nth_same by (rewrite HL; exact Hu).
           rewrite HS in E by exact Hu. injection E as <-. now rewrite HN.
        -- simpl. rewrite nth_error_set_nth_other by exact Hne. now apply HS.
    + assert (Hb : (t <? nservers_rev rh)%nat = false).
      { apply Nat.ltb_ge. rewrite <- HL. now apply nth_error_None. }
      rewrite Hb. repeat split; auto. intros u Hu. rewrite Bool.andb_comm.
      destruct (Nat.eqb_spec t u) as [->|Hne]; simpl.
      * apply Nat.ltb_ge in Hb. lia.
      * destruct (u <? nservers_rev rh)%nat; simpl; now apply HS.
  - destruct (nth_error (stacks s) t) as [st|] eqn:E.
    + assert (Ht : (t < nservers_rev rh)%nat) by (rewrite <- HL; apply nth_error_Some; congruence).
      assert (Hb : (t <? nservers_rev rh)%nat = true) by (apply Nat.ltb_lt; exact Ht).
      rewrite Hb. repeat split; simpl; auto.
      * rewrite app_length. simpl. lia.
      * intros u Hu. rewrite Bool.andb_true_r. destruct (Nat.eqb_spec u (nservers_rev rh)) as [->|Hne].
        -- rewrite nth_error_app2 by lia. rewrite HL, Nat.sub_diag. simpl. rewrite HS in E by exact Ht. symmetry; exact E.
        -- rewrite nth_error_app1 by lia. apply HS. lia.
    + assert (Hb : (t <? nservers_rev rh)%nat = false).
      { apply Nat.ltb_ge. rewrite <- HL. now apply nth_error_None. }
      rewrite Hb. repeat split; auto. intros u Hu. rewrite Bool.andb_false_r. now apply HS.
  - destruct (nth_error (stacks s) t) as [st|] eqn:E.
    + assert (Ht : (t < nservers_rev rh)%nat) by (rewrite <- HL; apply nth_error_Some; congruence).
      assert (Hb : (t <? nservers_rev rh)%nat = true) by (apply Nat.ltb_lt; exact Ht).
      rewrite Hb. repeat split; simpl; auto. rewrite HR. rewrite HS in E by exact Ht. now injection E as <-.
    + assert (Hb : (t <? nservers_rev rh)%nat = false).
      { apply Nat.ltb_ge. rewrite <- HL. now apply nth_error_None. }
      rewrite Hb. repeat split; auto.
Qed.

Lemma rinv_run h : forall rh s, rinv rh s -> rinv (rev h ++ rh)%list (fold_left rstep h s).
Proof. induction h as [|o h IH]; intros rh s H; simpl; [exact H|].
  rewrite <- app_assoc. simpl. apply IH. now apply rinv_step. Qed.

Lemma reg_refines_spec_l h : rinv (rev h) (rrun h).
Proof. unfold rrun. rewrite <- (app_nil_r (rev h)). apply rinv_run. exact rinv_init. Qed.

Lemma reg_stack_l h t : (t < nservers h)%nat -> nth_error (stacks (rrun h)) t = Some (spec_stack h t).
Proof. intros H. destruct (reg_refines_spec_l h) as (_ & _ & _ & HS). now apply HS. Qed.
Lemma reg_routes_l h : routes (rrun h) = spec_routes h.
Proof. now destruct (reg_refines_spec_l h) as (_ & _ & HR & _). Qed.

(* independence, on the spec: only t's own middleware() changes what t holds *)
Lemma reg_independent_l h o t : (t < nservers h)%nat -> (forall p, o <> RMw t p) ->
  spec_stack (h ++ [o]) t = spec_stack h t.
Proof.
  unfold spec_stack, nservers. rewrite rev_app_distr. simpl. intros Ht Hn.
  destruct o as [t' p|p|t']; simpl; auto.
  - destruct (Nat.eqb_spec t' t) as [->|Hne]; simpl; auto. exfalso. now apply (Hn p).
  - destruct (Nat.eqb_spec t (nservers_rev (rev h))) as [->|Hne]; simpl; auto. lia.
Qed.
Lemma reg_own_l h t p : (t < nservers h)%nat ->
  exists k, spec_stack (h ++ [RMw t p]) t = (spec_stack h t ++ [{| prio := p; ident := k |}])%list.
Proof.
  unfold spec_stack, nservers. rewrite rev_app_distr. simpl. intros Ht.
  rewrite Nat.eqb_refl. apply Nat.ltb_lt in Ht. rewrite Ht. simpl. eexists. reflexivity.
Qed.
Lemma reg_group_l h p : (p < nservers h)%nat ->
  nservers (h ++ [RGroup p]) = S (nservers h) /\
  spec_stack (h ++ [RGroup p]) (nservers h) = spec_stack h p.
Proof.
  unfold spec_stack, nservers. rewrite rev_app_distr. simpl. intros Hp.
  apply Nat.ltb_lt in Hp. rewrite Hp, Nat.eqb_refl. simpl. auto.
Qed.
(* a route keeps the chain it was registered with, whatever is registered later *)
Lemma spec_routes_prefix_l h h' : exists more, spec_routes (h ++ h') = (spec_routes h ++ more)%list.
Proof.
  unfold spec_routes. induction h' as [|o h' IH] using rev_ind.
  - exists []. now rewrite !app_nil_r.
  - destruct IH as [more IH]. rewrite app_assoc, rev_app_distr. simpl.
    destruct o as [t p|p|t]; simpl; try (exists more; exact IH).
    destruct (t <? nservers_rev (rev (h ++ h')))%nat.
    + eexists. rewrite IH, <- app_assoc. reflexivity.
    + exists more. exact IH.
Qed.
Lemma reg_route_l h t : (t < nservers h)%nat ->
  spec_routes (h ++ [RRoute t]) = (spec_routes h ++ [spec_stack h t])%list.
Proof.
  unfold spec_routes, spec_stack, nservers. rewrite rev_app_distr. simpl. intros Ht.
  apply Nat.ltb_lt in Ht. now rewrite Ht.
Qed.

(* ---- throwing layers *)
Definition quiet_layer (l : layer) : Prop := l_tpre l = false /\ l_tpost l = false.
Lemma layers_ops_quiet ls h ht : Forall quiet_layer ls ->
  layers_ops ls h ht =
  ((List.concat (map l_pre ls) ++ h ++ (if ht then [] else List.concat (map l_post (rev ls))))%list, ht).
Proof.
  induction ls as [|l ls IH]; intros F; simpl.
  - destruct ht; now rewrite ?app_nil_r.
  - inversion F as [|? ? [Q1 Q2] F']; subst. rewrite Q1, (IH F'). destruct ht.
    + now rewrite !app_nil_r, <- app_assoc.
    + rewrite Q2. f_equal. rewrite map_app, concat_app. simpl. rewrite app_nil_r.
      now rewrite <- !app_assoc.
Qed.

Lemma number_quiet mws : forall i, number i (map quiet mws) = map (fun im => (fst im, quiet (snd im))) (number i mws).
Proof. induction mws as [|m r IH]; intros i; simpl; [reflexivity|]. now rewrite IH. Qed.

Lemma nth_quiet mws : forall i,
  snd (nth i (map quiet mws) (0%Z, no_layer)) = snd (quiet (nth i mws (0%Z, ([], [])))).
Proof. induction mws as [|m r IH]; intros i; destruct i; simpl; try reflexivity. apply IH. Qed.

Lemma server_ops_t_quiet_l mws h ht e :
  server_ops_t (map quiet mws) h ht e = server_ops mws h (if ht then Some e else None).
Proof.
  unfold server_ops_t, server_ops, sorted_layers.
  rewrite number_quiet, map_map. simpl.
  set (es := ssort (map (fun im => {| prio := fst (snd im); ident := fst im |}) (number 0 mws))).
  rewrite layers_ops_quiet.
  2:{ apply Forall_forall. intros l Hl. apply in_map_iff in Hl. destruct Hl as (x & <- & _).
      rewrite nth_quiet. split; reflexivity. }
  rewrite !map_map, <- map_rev, !map_map.
  assert (P : forall l, map (fun x => l_pre (snd (nth (ident x) (map quiet mws) (0%Z, no_layer)))) l =
                        map (fun x => fst (snd (nth (ident x) mws (0%Z, ([], []))))) l).
  { intros l. apply map_ext. intros x. now rewrite nth_quiet. }
  assert (Q : forall l, map (fun x => l_post (snd (nth (ident x) (map quiet mws) (0%Z, no_layer)))) l =
                        map (fun x => snd (snd (nth (ident x) mws (0%Z, ([], []))))) l).
  { intros l. apply map_ext. intros x. now rewrite nth_quiet. }
  rewrite P, Q. destruct ht; [now rewrite app_nil_r, <- app_assoc | reflexivity].
Qed.

(* what a propagating throw means for the calls: nothing after it runs in any layer *)
Lemma layers_ops_tpre ls1 l ls2 h ht : Forall quiet_layer ls1 -> l_tpre l = true ->
  layers_ops (ls1 ++ l :: ls2) h ht = ((List.concat (map l_pre ls1) ++ l_pre l)%list, true).
Proof.
  induction ls1 as [|a ls1 IH]; intros F T; simpl.
  - now rewrite T.
  - inversion F as [|? ? [Q1 Q2] F']; subst. rewrite Q1, (IH F' T). now rewrite <- app_assoc.
Qed.
