(* C18 — the property, as boolean predicates on a source and a list of top-level tokens; independent of
   the lexer model's control flow (used both as the statement of the theorems about the model and as the
   oracle applied to the tokens the REAL lexer returned). *)
From Coq Require Import List Arith NArith Bool.
Import ListNotations.
From V.gen Require Import TokenTable.
From V.Lexer Require Import Model.

Fixpoint list_eqb (a b : list nat) : bool :=
  match a, b with
  | [], [] => true
  | x :: a', y :: b' => (x =? y) && list_eqb a' b'
  | _, _ => false
  end.

(* "every top-level token's byte span lies inside the source" *)
Definition span_inside (s : list nat) (t : tok) : bool := (st t <=? en t) && (en t <=? List.length s).
Definition spans_inside (s : list nat) (ts : list tok) : bool := forallb (span_inside s) ts.

(* "spans are ordered and do not overlap" *)
Fixpoint spans_ordered (ts : list tok) : bool :=
  match ts with
  | a :: ((b :: _) as r) => (en a <=? st b) && spans_ordered r
  | _ => true
  end.

(* "the recorded line equals the number of newlines before the span" *)
Definition line_ok (s : list nat) (t : tok) : bool := ln t =? count_nl (firstn (st t) s).
Definition lines_ok (s : list nat) (ts : list tok) : bool := forallb (line_ok s) ts.

(* "for identifiers, keywords, operators, numbers and unescaped strings the token text is exactly the source
   text at that span": identifiers incl. variables; keywords and operators = every type of the token table;
   numbers = INT FLOAT NUMBER; strings whose source text contains no backslash *)
Definition table_type (t : N) : bool := existsb (fun d => fst d =T t) token_defs.
Definition text_class (s : list nat) (t : tok) : bool :=
  (ty t =T T_IDENTIFIER) || (ty t =T T_VARIABLE) || (ty t =T T_INT) || (ty t =T T_FLOAT) || (ty t =T T_NUMBER) ||
  ((ty t =T T_STRING) && negb (existsb (Nat.eqb 92) (slice s (st t) (en t)))) ||
  table_type (ty t).
Definition text_ok (s : list nat) (t : tok) : bool :=
  if text_class s t then list_eqb (lit t) (slice s (st t) (en t)) else true.
Definition texts_ok (s : list nat) (ts : list tok) : bool := forallb (text_ok s) ts.
