(* C18 — the property, clause by clause, for the lexer model (both modes, every source the model covers:
   `tokenize template s = Ok ts`; `Unsup` inputs are outside the theorems).  Only statements here. *)
From Coq Require Import List Arith NArith Bool.
Import ListNotations.
From V.gen Require Import TokenTable.
From V.Lexer Require Import Model Proofs.
From V.C18 Require Import Spec Proofs.

(* "Every top-level token's byte span lies inside the source" (and is not empty) *)
Theorem spans_inside_source : forall template s ts, tokenize template s = Ok ts ->
  forall t, In t ts -> st t < en t /\ en t <= List.length s.
Proof. intros template s ts H t I. destruct (fwd_all_good _ _ _ (tokenize_fwd _ _ _ H) _ I) as (A & B & _). auto. Qed.
Print Assumptions spans_inside_source.

(* "spans are ordered and do not overlap": every earlier token ends at or before the start of every later one *)
Theorem spans_ordered_disjoint : forall template s ts, tokenize template s = Ok ts ->
  ForallOrdPairs (fun a b => en a <= st b) ts.
Proof. intros template s ts H. exact (fwd_pairs _ _ _ (tokenize_fwd _ _ _ H)). Qed.
Print Assumptions spans_ordered_disjoint.

(* "the recorded line equals the number of newlines before the span" — every token, including the merged
   $name and \Name\Space tokens and the automatic semicolons *)
Theorem line_is_newline_count : forall template s ts, tokenize template s = Ok ts ->
  forall t, In t ts -> ln t = count_nl (firstn (st t) s).
Proof. intros template s ts H t I. destruct (fwd_all_good _ _ _ (tokenize_fwd _ _ _ H) _ I) as (_ & _ & _ & L & _). exact L. Qed.
Print Assumptions line_is_newline_count.

(* "the token text is exactly the source text at that span" — proved for EVERY token of the model's output,
   not only the classes the property lists (the interpolation-candidate strings, kept abstract in the model
   as T_FUZZY, carry the source slice as well; what the real lexer puts there is left open) *)
Theorem literal_is_slice : forall template s ts, tokenize template s = Ok ts ->
  forall t, In t ts -> lit t = slice s (st t) (en t).
Proof. intros template s ts H t I. destruct (fwd_all_good _ _ _ (tokenize_fwd _ _ _ H) _ I) as (_ & _ & T & _). exact T. Qed.
Print Assumptions literal_is_slice.

(* the same four clauses in the boolean form that checks/C18.py evaluates on the REAL lexer's tokens *)
Theorem spec_predicates_hold : forall template s ts, tokenize template s = Ok ts ->
  spans_inside s ts = true /\ spans_ordered ts = true /\ lines_ok s ts = true /\ texts_ok s ts = true.
Proof.
  intros template s ts H. pose proof (tokenize_fwd _ _ _ H) as F.
  repeat split; [eapply fwd_spans_inside|eapply fwd_spans_ordered|eapply fwd_lines|eapply fwd_texts]; exact F.
Qed.
Print Assumptions spec_predicates_hold.

(* the lexer model is total and never reaches an out-of-range read (shared with C01) *)
Theorem lexer_total : forall template s, tokenize template s <> OutOfFuel.
Proof. exact tokenize_total. Qed.
Theorem lexer_no_crash : forall template s, tokenize template s <> Crash.
Proof. exact tokenize_no_crash. Qed.
Print Assumptions lexer_no_crash.
