(* C18 — non-vacuity: the model tokenizes concrete sources (`tokenize … = Ok …`, the hypothesis of every
   theorem), including the shapes that were wrong on the pinned tree. *)
From Coq Require Import List Arith NArith Bool String.
Import ListNotations.
From V.gen Require Import TokenTable.
From V.Lexer Require Import Model Hex.
From V.C18 Require Import Spec.
Open Scope string_scope.

Definition toks_of (tpl : bool) (h : string) : list (N * nat * nat * nat) :=
  match tokenize tpl (unhex h) with
  | Ok ts => map (fun t => (ty t, st t, en t, ln t)) ts
  | _ => []
  end.

(*  $a = 1 + 2; // c CRLF $b = "x LF y"; LF \App\T::f($b)
    line of $b is 1 (one newline before it): the // comment ended by CRLF no longer counts two (fix 47cb713) *)
Definition src1 := "2461203d2031202b20323b202f2f20630d0a2462203d2022780a79223b0a5c4170705c543a3a6628246229".
Example ex1 : toks_of false src1 =
  [(T_VARIABLE, 0, 2, 0); (T_ASSIGN, 3, 4, 0); (T_INT, 5, 6, 0); (T_ADD, 7, 8, 0); (T_INT, 9, 10, 0);
   (T_SEMICOLON, 10, 11, 0);
   (T_VARIABLE, 18, 20, 1); (T_ASSIGN, 21, 22, 1); (T_STRING, 23, 28, 1); (T_SEMICOLON, 28, 29, 2);
   (T_IDENTIFIER, 30, 36, 3); (T_SCOPE_RESOLUTION, 36, 38, 3); (T_IDENTIFIER, 38, 39, 3); (T_LPAREN, 39, 40, 3);
   (T_VARIABLE, 40, 42, 3); (T_RPAREN, 42, 43, 3)]%nat.
Proof. vm_compute. reflexivity. Qed.

Example ex1_spec : match tokenize false (unhex src1) with
  | Ok ts => spans_inside (unhex src1) ts && spans_ordered ts && lines_ok (unhex src1) ts && texts_ok (unhex src1) ts
  | _ => false end = true.
Proof. vm_compute. reflexivity. Qed.

(* template mode:  <p>LF<?php echo 1 ?>LF</p>  *)
Example ex_template : toks_of true "3c703e0a3c3f706870206563686f2031203f3e0a3c2f703e" =
  [(T_HTML_TAG, 0, 4, 0); (37%N, 10, 14, 1); (T_INT, 15, 16, 1); (T_HTML_TAG, 19, 24, 1)]%nat.
Proof. vm_compute. reflexivity. Qed.

(* the two sources that made the pinned lexer panic are ordinary inputs now: "$" and "a" E3 80 *)
Example ex_dollar_only : toks_of false "24" = [(T_DOLLAR, 0, 1, 0)]%nat.
Proof. vm_compute. reflexivity. Qed.
Example ex_truncated_fullwidth : tokenize false (unhex "61e380") = Unsup.   (* byte >= 0x80 outside a string *)
Proof. vm_compute. reflexivity. Qed.

(* "$ a" is not merged into a variable any more (fix adf7e43): the token text stays the source text *)
Example ex_dollar_gap : toks_of false "242061" = [(T_DOLLAR, 0, 1, 0); (T_IDENTIFIER, 2, 3, 0)]%nat.
Proof. vm_compute. reflexivity. Qed.

(* a string with a candidate interpolation is one token of open type with its span and line *)
Example ex_fuzzy : toks_of false "2261246222" = [(T_FUZZY, 0, 5, 0)]%nat.
Proof. vm_compute. reflexivity. Qed.
