(* C18 — correspondence: the lexer model and the Spec evaluated on the token streams the real lexer returned *)
From Coq Require Import List Arith NArith Bool String.
Import ListNotations.
From V.gen Require Import TokenTable.
From V.Lexer Require Import Model Hex.
From V.C18 Require Import Spec.

(* one real token: type, start, end, line, literal (hex) *)
Definition rtok := (N * N * N * N * string)%type.      (* binary numbers: large nat literals are slow to check *)
Definition of_rtok (r : rtok) : tok :=
  let '(t, a, b, l, h) := r in mkTok t (unhex h) (N.to_nat a) (N.to_nat b) (N.to_nat l).

Inductive robs := RToks (ts : list rtok) | RPanic.
Record case := { template : bool; src : string; real : robs }.

(* a = model token, b = real token *)
Definition tok_eqb (a b : tok) : bool :=
  (st a =? st b) && (en a =? en b) && (ln a =? ln b) &&
  (if ty a =T T_FUZZY then (ty b =T T_STRING) || (ty b =T T_INTERPOLATION_TOKEN)
   else (ty a =T ty b) && list_eqb (lit a) (lit b)).
Fixpoint toks_eqb (a b : list tok) : bool :=
  match a, b with
  | [], [] => true
  | x :: a', y :: b' => tok_eqb x y && toks_eqb a' b'
  | _, _ => false
  end.

(* failing clauses: 1 model and real lexer disagree (tie); on the REAL tokens: 2 a span outside the source,
   3 spans out of order / overlapping, 4 line <> newlines before the span, 5 text <> source slice for a
   text-class token; 6 the real lexer panicked; 9 (not a failure) the model answers Unsup *)
Definition check_case (c : case) : list nat :=
  let s := unhex (src c) in
  match real c with
  | RPanic => (match tokenize (template c) s with Crash => [] | Unsup => [9] | _ => [1] end) ++ [6]
  | RToks rts =>
      let ts := map of_rtok rts in
      (match tokenize (template c) s with
       | Ok m => if toks_eqb m ts then [] else [1]
       | Unsup => [9]
       | _ => [1]
       end) ++
      (if spans_inside s ts then [] else [2]) ++
      (if spans_ordered ts then [] else [3]) ++
      (if lines_ok s ts then [] else [4]) ++
      (if texts_ok s ts then [] else [5])
  end.
