(* C18 — from the lexer invariant `fwd` (Lexer/Proofs.v) to the Spec's predicates *)
From Coq Require Import List Arith NArith Bool Lia.
Import ListNotations.
From V.gen Require Import TokenTable.
From V.Lexer Require Import Model Proofs.
From V.C18 Require Import Spec.

Lemma list_eqb_refl l : list_eqb l l = true.
Proof. induction l as [|x l IH]; [reflexivity|]. cbn. rewrite Nat.eqb_refl, IH. reflexivity. Qed.

Lemma fwd_all_good s : forall ts lo, fwd s lo ts -> forall t, In t ts -> good s t.
Proof.
  induction ts as [|x r IH]; intros lo F t I; [contradiction|]. cbn [fwd] in F. destruct F as (_ & G & Fr).
  destruct I as [<-|I]; [exact G|]. eapply IH; eauto.
Qed.

Lemma fwd_lower s : forall ts lo, fwd s lo ts -> forall t, In t ts -> lo <= st t.
Proof.
  induction ts as [|x r IH]; intros lo F t I; [contradiction|]. cbn [fwd] in F. destruct F as (L & G & Fr).
  destruct I as [<-|I]; [exact L|]. specialize (IH _ Fr _ I). destruct G as (G1 & _). lia.
Qed.

Lemma fwd_pairs s : forall ts lo, fwd s lo ts -> ForallOrdPairs (fun a b => en a <= st b) ts.
Proof.
  induction ts as [|x r IH]; intros lo F; [constructor|]. cbn [fwd] in F. destruct F as (L & G & Fr).
  constructor; [|eapply IH; eauto]. apply Forall_forall. intros b I. eapply fwd_lower; eauto.
Qed.

Lemma fwd_spans_inside s ts lo : fwd s lo ts -> spans_inside s ts = true.
Proof.
  intros F. apply forallb_forall. intros t I. destruct (fwd_all_good _ _ _ F _ I) as (A & B & _).
  unfold span_inside. apply andb_true_iff. split; apply Nat.leb_le; lia.
Qed.

Lemma fwd_spans_ordered s : forall ts lo, fwd s lo ts -> spans_ordered ts = true.
Proof.
  induction ts as [|a r IH]; intros lo F; [reflexivity|]. cbn [fwd] in F. destruct F as (_ & _ & Fr).
  destruct r as [|b r']; [reflexivity|]. cbn [spans_ordered]. apply andb_true_iff. split.
  - apply Nat.leb_le. cbn [fwd] in Fr. tauto.
  - eapply IH; eauto.
Qed.

Lemma fwd_lines s ts lo : fwd s lo ts -> lines_ok s ts = true.
Proof.
  intros F. apply forallb_forall. intros t I. destruct (fwd_all_good _ _ _ F _ I) as (_ & _ & _ & L & _).
  unfold line_ok. apply Nat.eqb_eq. exact L.
Qed.

Lemma fwd_texts s ts lo : fwd s lo ts -> texts_ok s ts = true.
Proof.
  intros F. apply forallb_forall. intros t I. destruct (fwd_all_good _ _ _ F _ I) as (_ & _ & T & _).
  unfold text_ok. destruct (text_class s t); [|reflexivity]. rewrite <- T. apply list_eqb_refl.
Qed.
