(* small string lemmas missing from Coq 8.16's String *)
From Coq Require Import String List.
Open Scope string_scope.
Lemma append_nil_r s : s ++ "" = s.
Proof. induction s as [|c s IH]; simpl; [reflexivity|now rewrite IH]. Qed.
Lemma append_assoc s1 s2 s3 : (s1 ++ s2) ++ s3 = s1 ++ (s2 ++ s3).
Proof. induction s1 as [|c s IH]; simpl; [reflexivity|now rewrite IH]. Qed.
Lemma append_nil_l s : "" ++ s = s.
Proof. reflexivity. Qed.
