(* Generic lock-discipline development, independent of the code (built for C10, also used by C09).
   Actions of one thread in program order; an RWMutex; `wl` = static discipline check;
   theorem: a table of methods that passes `wl` is race free (and mutually exclusive) for every
   number of threads, every program built from the table's methods and every schedule.
   Lemmas and theorem here (this file is the generic theory, not the model of the code). *)
From Coq Require Import List Arith Bool Lia String.
Import ListNotations.

Inductive act :=
| ALock | ARLock | AUnlock | ARUnlock
| ARead (m : nat) | AWrite (m : nat)
| AARead (m : nat) | AAWrite (m : nat)   (* sync/atomic load / store of field m: needs no lock, never races *)
| AExt          (* a call into code that may re-enter the VM (autoload, user callbacks) *)
| AOpaque.      (* a construct the source walker does not understand: fails closed *)
Inductive lmode := Free | Shared | Excl.

(* static discipline check of a method body, threading the held mode: writes only under the
   exclusive lock, reads under at least the shared lock, no recursive acquisition, no call-out while
   holding the lock, balanced at the end *)
Fixpoint wl (h : lmode) (p : list act) : bool :=
  match p with
  | [] => match h with Free => true | _ => false end
  | a :: r =>
    match a, h with
    | ALock, Free => wl Excl r
    | ARLock, Free => wl Shared r
    | AUnlock, Excl => wl Free r
    | ARUnlock, Shared => wl Free r
    | ARead _, (Shared | Excl) => wl h r
    | AWrite _, Excl => wl h r
    | AExt, Free => wl Free r
    | AARead _, _ | AAWrite _, _ => wl h r
    | _, _ => false
    end
  end.

Definition table := list (string * list act).
Definition well_locked (tbl : table) : bool := forallb (fun e => wl Free (snd e)) tbl.
(* the entries that fail, for diagnosis *)
Definition ill_locked (tbl : table) : list string := map fst (filter (fun e => negb (wl Free (snd e))) tbl).

(* check-then-act on an atomic flag: an entry that both tests field m atomically and stores to it must do the
   test and the store inside ONE exclusive section (test first).  A store to a field the entry never tests (a
   counter) is unconstrained.  Decidable, structural; used as a regenerated obligation next to `wl`. *)
Definition nmem (x : nat) (l : list nat) : bool := existsb (Nat.eqb x) l.
Definition tested_fields (p : list act) : list nat :=
  flat_map (fun a => match a with AARead m => [m] | _ => [] end) p.
Fixpoint cta (tested : list nat) (h : lmode) (seen : list nat) (p : list act) : bool :=
  match p with
  | [] => true
  | a :: r =>
    match a with
    | ALock => cta tested Excl [] r
    | ARLock => cta tested Shared [] r
    | AUnlock | ARUnlock => cta tested Free [] r
    | AARead m => cta tested h (m :: seen) r
    | AAWrite m =>
        (negb (nmem m tested) || (match h with Excl => nmem m seen | _ => false end)) && cta tested h seen r
    | _ => cta tested h seen r
    end
  end.
Definition check_then_act_ok (tbl : table) : bool := forallb (fun e => cta (tested_fields (snd e)) Free [] (snd e)) tbl.
Definition cta_bad (tbl : table) : list string :=
  map fst (filter (fun e => negb (cta (tested_fields (snd e)) Free [] (snd e))) tbl).

(* a real execution path of a method performs the lock operations of its table entry and a
   sub-multiset-with-repetition of its accesses (branches skip accesses, loops repeat them) *)
Definition is_access (a : act) : bool := match a with ARead _ | AWrite _ | AARead _ | AAWrite _ | AExt => true | _ => false end.
Inductive sub : list act -> list act -> Prop :=
| sub_nil : sub [] []
| sub_keep a p q : sub p q -> sub (a :: p) (a :: q)
| sub_skip a p q : is_access a = true -> sub p q -> sub p (a :: q)
| sub_rep a p q : is_access a = true -> sub p (a :: q) -> sub (a :: p) (a :: q)
(* a complete balanced region (an inlined callee that takes and releases the lock itself) sitting in a
   branch or loop of the caller is executed as a whole, skipped as a whole, or repeated as a whole *)
| sub_skip_region reg p q : wl Free reg = true -> sub p q -> sub p (reg ++ q)
| sub_rep_region reg p q : wl Free reg = true -> sub p (reg ++ q) -> sub (reg ++ p) (reg ++ q).

(* decidable version used for the regenerated obligation "the model's paths are paths of the table" *)
Definition act_eqb (a b : act) : bool :=
  match a, b with
  | ALock, ALock | ARLock, ARLock | AUnlock, AUnlock | ARUnlock, ARUnlock | AExt, AExt | AOpaque, AOpaque => true
  | ARead m, ARead n | AWrite m, AWrite n | AARead m, AARead n | AAWrite m, AAWrite n => Nat.eqb m n
  | _, _ => false
  end.
Fixpoint subb (p q : list act) : bool :=
  match q with
  | [] => match p with [] => true | _ => false end
  | b :: q' =>
      match p with
      | [] => is_access b && subb [] q'
      | a :: p' => (act_eqb a b && subb p' q') || (is_access b && subb p q')
      end
  end.

(* ---------------------------------------------------------------- the LTS *)
Definition thread := (lmode * list act)%type.
Definition state := list thread.
Definition nobody (pred : lmode -> bool) (s : state) : bool := forallb (fun t => negb (pred (fst t))) s.
Definition is_excl h := match h with Excl => true | _ => false end.
Definition is_held h := match h with Free => false | _ => true end.

Fixpoint upd (s : state) (i : nat) (t : thread) : state :=
  match s, i with [], _ => [] | _ :: r, O => t :: r | x :: r, S j => x :: upd r j t end.
(* one step of thread i; None = blocked or finished.  Lock needs nobody holding, RLock nobody holding
   exclusively.  Reads and writes are NOT checked against the lock: that is the point. *)
Definition step (s : state) (i : nat) : option state :=
  match nth_error s i with
  | None => None
  | Some (h, []) => None
  | Some (h, a :: r) =>
    match a with
    | ALock => if nobody is_held s then Some (upd s i (Excl, r)) else None
    | ARLock => if nobody is_excl s then Some (upd s i (Shared, r)) else None
    | AUnlock | ARUnlock => Some (upd s i (Free, r))
    | ARead _ | AWrite _ | AARead _ | AAWrite _ | AExt | AOpaque => Some (upd s i (h, r))
    end
  end.
Fixpoint run (s : state) (sched : list nat) : state :=
  match sched with [] => s | i :: r => match step s i with Some s' => run s' r | None => run s r end end.

Definition excl_alone (s : state) : Prop :=
  forall i j hi pi hj pj, nth_error s i = Some (hi, pi) -> nth_error s j = Some (hj, pj) -> i <> j ->
    hi = Excl -> hj = Free.
Definition all_wl (s : state) : Prop := forall i h p, nth_error s i = Some (h, p) -> wl h p = true.

(* a race: two distinct threads whose next actions touch the same variable, one of them writing *)
Definition next_acc (t : thread) : option (bool * nat) :=
  match snd t with ARead m :: _ => Some (false, m) | AWrite m :: _ => Some (true, m) | _ => None end.
Definition race (s : state) : Prop :=
  exists i j ti tj wi wj m, i <> j /\ nth_error s i = Some ti /\ nth_error s j = Some tj /\
    next_acc ti = Some (wi, m) /\ next_acc tj = Some (wj, m) /\ (wi || wj = true).

Lemma nth_upd_same s i t x : nth_error s i = Some x -> nth_error (upd s i t) i = Some t.
Proof. revert i; induction s as [|y s IH]; intros [|i] H; simpl in *; try discriminate; auto. Qed.
Lemma nth_upd_other s i j t : i <> j -> nth_error (upd s i t) j = nth_error s j.
Proof. revert i j; induction s as [|y s IH]; intros [|i] [|j] H; simpl; auto; try lia. Qed.

Lemma nobody_spec pred s : nobody pred s = true -> forall j h p, nth_error s j = Some (h, p) -> pred h = false.
Proof.
  unfold nobody. rewrite forallb_forall. intros H j h p Hn. apply nth_error_In in Hn.
  specialize (H _ Hn). simpl in H. destruct (pred h); auto; discriminate.
Qed.

Lemma step_inv s i s' : all_wl s -> excl_alone s -> step s i = Some s' -> all_wl s' /\ excl_alone s'.
Proof.
  intros W X. unfold step. destruct (nth_error s i) as [[h [|a r]]|] eqn:Ei; try discriminate.
  pose proof (W _ _ _ Ei) as Wi.
  assert (G : forall h', (wl h' r = true) ->
     (h' = Excl -> forall j hj pj, j <> i -> nth_error s j = Some (hj, pj) -> hj = Free) ->
     (h' = Shared -> forall j hj pj, j <> i -> nth_error s j = Some (hj, pj) -> hj <> Excl) ->
     all_wl (upd s i (h', r)) /\ excl_alone (upd s i (h', r))).
  { intros h' Wr HE HS. split.
    - intros j hj pj Hj. destruct (Nat.eq_dec i j) as [<-|N].
      + rewrite (nth_upd_same _ _ _ _ Ei) in Hj. inversion Hj; subst. exact Wr.
      + rewrite nth_upd_other in Hj by exact N. eapply W; eauto.
    - intros a1 a2 h1 p1 h2 p2 H1 H2 N E1.
      destruct (Nat.eq_dec i a1) as [<-|N1].
      + rewrite (nth_upd_same _ _ _ _ Ei) in H1. injection H1 as Eh Ep. subst h1.
        rewrite nth_upd_other in H2 by exact N. apply (HE E1 a2 h2 p2); [intros ->; apply N; reflexivity|exact H2].
      + rewrite nth_upd_other in H1 by exact N1.
        destruct (Nat.eq_dec i a2) as [<-|N2].
        * rewrite (nth_upd_same _ _ _ _ Ei) in H2. injection H2 as Eh Ep. subst h1. rewrite <- Eh.
          destruct h' eqn:Eh'; [reflexivity| |].
          -- exfalso. apply (HS eq_refl a1 Excl p1); [intros ->; apply N1; reflexivity|exact H1|reflexivity].
          -- exfalso. assert (Excl = Free) by (apply (HE eq_refl a1 Excl p1); [intros ->; apply N1; reflexivity|exact H1]). discriminate.
        * rewrite nth_upd_other in H2 by exact N2. exact (X a1 a2 h1 p1 h2 p2 H1 H2 N E1). }
  destruct a; simpl in Wi; destruct h; try discriminate.
  - destruct (nobody is_held s) eqn:Nb; [|discriminate]. intros H; inversion H; subst. apply G; auto.
    + intros _ j hj pj _ Hj. pose proof (nobody_spec _ _ Nb _ _ _ Hj). destruct hj; simpl in *; auto; discriminate.
    + discriminate.
  - destruct (nobody is_excl s) eqn:Nb; [|discriminate]. intros H; inversion H; subst. apply G; auto.
    + discriminate.
    + intros _ j hj pj _ Hj. pose proof (nobody_spec _ _ Nb _ _ _ Hj). destruct hj; simpl in *; auto; discriminate.
  - intros H; inversion H; subst. apply G; auto; discriminate.
  - intros H; inversion H; subst. apply G; auto; discriminate.
  - intros H; inversion H; subst. apply G; auto; [discriminate|].
    intros _ j hj pj Nj Hj E. subst hj. assert (Shared = Free) by (eapply (X j i); eauto). discriminate.
  - intros H; inversion H; subst. apply G; auto; [|discriminate].
    intros _ j hj pj Nj Hj. eapply (X i j); eauto.
  - intros H; inversion H; subst. apply G; auto; [|discriminate].
    intros _ j hj pj Nj Hj. eapply (X i j); eauto.
  (* atomic load / store: the thread keeps whatever it holds (Free, Shared, Excl; twice) *)
  - intros H; inversion H; subst. apply G; auto; discriminate.
  - intros H; inversion H; subst. apply G; auto; [discriminate|].
    intros _ j hj pj Nj Hj E. subst hj. assert (Shared = Free) by (eapply (X j i); eauto). discriminate.
  - intros H; inversion H; subst. apply G; auto; [|discriminate].
    intros _ j hj pj Nj Hj. eapply (X i j); eauto.
  - intros H; inversion H; subst. apply G; auto; discriminate.
  - intros H; inversion H; subst. apply G; auto; [discriminate|].
    intros _ j hj pj Nj Hj E. subst hj. assert (Shared = Free) by (eapply (X j i); eauto). discriminate.
  - intros H; inversion H; subst. apply G; auto; [|discriminate].
    intros _ j hj pj Nj Hj. eapply (X i j); eauto.
  - intros H; inversion H; subst. apply G; auto; discriminate.
Qed.

Lemma run_inv sched : forall s, all_wl s -> excl_alone s -> all_wl (run s sched) /\ excl_alone (run s sched).
Proof.
  induction sched as [|i r IH]; intros s W X; simpl; auto.
  destruct (step s i) eqn:E; auto. destruct (step_inv _ _ _ W X E). auto.
Qed.

Lemma inv_no_race s : all_wl s -> excl_alone s -> ~ race s.
Proof.
  intros W X (i & j & [hi pi] & [hj pj] & wi & wj & m & N & Hi & Hj & Ai & Aj & Wr).
  pose proof (W _ _ _ Hi) as Wi. pose proof (W _ _ _ Hj) as Wj.
  unfold next_acc in *; simpl in *.
  destruct pi as [|[] pi]; try discriminate; destruct pj as [|[] pj]; try discriminate;
  inversion Ai; inversion Aj; subst; simpl in *; try discriminate;
  destruct hi; try discriminate; destruct hj; try discriminate;
  try (assert (Excl = Free) by (eapply (X i j); eauto); discriminate);
  try (assert (Excl = Free) by (eapply (X j i); eauto); discriminate);
  try (assert (Shared = Free) by (eapply (X i j); eauto); discriminate);
  try (assert (Shared = Free) by (eapply (X j i); eauto); discriminate).
Qed.

(* ---------------------------------------------------------------- programs built from a table *)
Lemma wl_app p : forall h q, wl h p = true -> wl Free q = true -> wl h (p ++ q) = true.
Proof.
  induction p as [|a p IH]; intros h q Wp Wq; simpl in *.
  - destruct h; try discriminate; auto.
  - destruct a, h; try discriminate; auto.
Qed.
(* a balanced prefix is transparent *)
Lemma wl_app_eq p : forall h q, wl h p = true -> wl h (p ++ q) = wl Free q.
Proof.
  induction p as [|a p IH]; intros h q Wp; simpl in *.
  - destruct h; try discriminate; auto.
  - destruct a, h; try discriminate; auto.
Qed.
(* under a held lock a balanced region can only consist of atomic accesses (a lock operation or a call-out
   would be rejected); so it can be dropped / doubled without breaking the discipline *)
Lemma wl_region_held reg : forall h q, h <> Free -> wl Free reg = true -> wl h (reg ++ q) = true ->
  wl h q = true /\ forall p, wl h p = true -> wl h (reg ++ p) = true.
Proof.
  induction reg as [|a reg IH]; intros h q NF R W; simpl in *; [split; auto|].
  destruct a; destruct h; simpl in *; try discriminate; try congruence;
    try (destruct (IH _ q NF R W) as [A B]; split; auto; fail);
    (destruct (IH Shared q) as [A B] || destruct (IH Excl q) as [A B]); auto; try discriminate.
Qed.
Lemma wl_region_skip reg h q : wl Free reg = true -> wl h (reg ++ q) = true -> wl h q = true.
Proof.
  intros R W. destruct h.
  - rewrite (wl_app_eq reg Free q R) in W. exact W.
  - apply (wl_region_held reg Shared q); auto; discriminate.
  - apply (wl_region_held reg Excl q); auto; discriminate.
Qed.
Lemma wl_region_rep reg h p q : wl Free reg = true -> wl h (reg ++ q) = true -> wl h p = true -> wl h (reg ++ p) = true.
Proof.
  intros R Wq W. destruct h.
  - rewrite (wl_app_eq reg Free p R). exact W.
  - apply (wl_region_held reg Shared q); auto; discriminate.
  - apply (wl_region_held reg Excl q); auto; discriminate.
Qed.
Lemma wl_sub q : forall p h, sub p q -> wl h q = true -> wl h p = true.
Proof.
  intros p h S. revert h. induction S; intros h W; auto.
  - destruct a, h; simpl in *; try discriminate; auto.
  - apply IHS. destruct a, h; simpl in *; try discriminate; auto.
  - pose proof (IHS h W) as W'. destruct a, h; simpl in *; try discriminate; auto.
  - apply IHS. eapply wl_region_skip; eauto.
  - pose proof (IHS h W) as W'. eapply wl_region_rep; eauto.
Qed.

(* a thread program: a concatenation of execution paths of table methods *)
Definition from_table (tbl : table) (p : list act) : Prop :=
  exists parts, p = List.concat parts /\ Forall (fun q => exists e, In e tbl /\ sub q (snd e)) parts.

Lemma from_table_wl tbl p : well_locked tbl = true -> from_table tbl p -> wl Free p = true.
Proof.
  intros WL (parts & -> & F). induction F as [|q parts (e & Ie & Se) F IH]; simpl; auto.
  apply wl_app; auto. eapply wl_sub; eauto.
  unfold well_locked in WL. rewrite forallb_forall in WL. apply (WL e Ie).
Qed.

Definition init_state (progs : list (list act)) : state := map (fun p => (Free, p)) progs.

Lemma init_inv tbl progs : well_locked tbl = true -> Forall (from_table tbl) progs ->
  all_wl (init_state progs) /\ excl_alone (init_state progs).
Proof.
  intros WL F. split.
  - intros i h p Hn. unfold init_state in Hn. rewrite nth_error_map in Hn.
    destruct (nth_error progs i) eqn:E; [|discriminate]. inversion Hn; subst.
    apply (from_table_wl tbl); auto. rewrite Forall_forall in F. apply F. eapply nth_error_In; eauto.
  - intros i j hi pi hj pj Hi Hj _ E. unfold init_state in Hi. rewrite nth_error_map in Hi.
    destruct (nth_error progs i); [|discriminate]. inversion Hi; subst. discriminate.
Qed.

Lemma well_locked_race_free_l : forall tbl, well_locked tbl = true ->
  forall progs sched, Forall (from_table tbl) progs -> ~ race (run (init_state progs) sched).
Proof.
  intros tbl WL progs sched F. destruct (init_inv tbl progs WL F) as [W X].
  destruct (run_inv sched _ W X). apply inv_no_race; auto.
Qed.
Lemma well_locked_mutex_l : forall tbl, well_locked tbl = true ->
  forall progs sched, Forall (from_table tbl) progs -> excl_alone (run (init_state progs) sched).
Proof.
  intros tbl WL progs sched F. destruct (init_inv tbl progs WL F) as [W X].
  destruct (run_inv sched _ W X). auto.
Qed.
(* no call-out is made while a lock is held (the RWMutex is not re-entrant: a re-entering callee would deadlock) *)
Lemma well_locked_ext_free_l : forall tbl, well_locked tbl = true ->
  forall progs sched, Forall (from_table tbl) progs ->
  forall i h r, nth_error (run (init_state progs) sched) i = Some (h, AExt :: r) -> h = Free.
Proof.
  intros tbl WL progs sched F i h r Hn. destruct (init_inv tbl progs WL F) as [W X].
  destruct (run_inv sched _ W X) as [W' _]. specialize (W' _ _ _ Hn). destruct h; simpl in W'; auto; discriminate.
Qed.

Lemma subb_sound q : forall p, subb p q = true -> sub p q.
Proof.
  induction q as [|b q IH]; intros p H; simpl in H.
  - destruct p; [constructor|discriminate].
  - destruct p as [|a p].
    + apply andb_true_iff in H as [A B]. apply sub_skip; auto.
    + apply orb_true_iff in H as [H|H]; apply andb_true_iff in H as [A B].
      * assert (a = b).
        { destruct a, b; simpl in A; try discriminate; auto; apply Nat.eqb_eq in A; subst; auto. }
        subst. apply sub_keep; auto.
      * apply sub_skip; auto.
Qed.
