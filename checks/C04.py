"""C04 — expressions parse by the fixed precedence and associativity table.
Proof: coq/C04 (model of parser/expression_parser.go + the parts of lparen_parser.go / variable_parser.go an
operator expression reaches; Spec = the property's table, printing with explicit parentheses; theorem:
parse (print t) = t-without-parentheses for EVERY tree whose required parentheses are present).
Tie: generated expression trees are printed (minimal / full / random redundant parentheses, binary minus
spaced or tight), lexed and parsed by the REAL lexer+parser (harness/cmd/c04), and
  (2) the real token stream must equal the Spec's printing,
  (3) the real tree must equal the model parser's tree on the same tokens,
  (4) the real tree must equal the tree the table dictates (property oracle on the implementation),
and all printings of one tree are evaluated on the real interpreter and must give the same value."""
import itertools
import json
import subprocess

from vcheck import coq_list

HEADER = ("From Coq Require Import List NArith ZArith Bool.\nImport ListNotations.\n"
          "From V.C04 Require Import Model Spec Run.\nOpen Scope N_scope.\n")

BIN = [("OCoal", "??", 2), ("ODot", ".", 3), ("OLor", "||", 4), ("OLand", "&&", 5), ("OBor", "|", 6),
       ("OBxor", "^", 7), ("OBand", "&", 8), ("OEq", "==", 9), ("ONe", "!=", 9), ("OEqS", "===", 9),
       ("ONeS", "!==", 9), ("OLt", "<", 10), ("OLe", "<=", 10), ("OGt", ">", 10), ("OGe", ">=", 10),
       ("OCmp", "<=>", 10), ("OShl", "<<", 11), ("OShr", ">>", 11), ("OAdd", "+", 12), ("OSub", "-", 12),
       ("OMul", "*", 14), ("ODiv", "/", 14), ("ORem", "%", 14), ("OPow", "**", 16)]
ASG = [("AEq", "="), ("AAdd", "+="), ("ASub", "-="), ("AMul", "*="), ("ADiv", "/="), ("ARem", "%="),
       ("ADot", ".="), ("ACoal", "??="), ("ABor", "|="), ("ABand", "&="), ("ABxor", "^="), ("AShl", "<<="),
       ("AShr", ">>="), ("APow", "**=")]
UN = [("UNeg", "-"), ("UNot", "!"), ("UBnot", "~")]
CASTS = ["int", "string", "bool", "float", "foo"]     # index 4 is not a conversion function (error path)
VARS = ["a", "b", "c", "d"] + ["r%d" % i for i in range(20)]    # r<i>: placeholder variable standing for RAW[i]
BIN_LIT = {c: l for c, l, _ in BIN}
BIN_LVL = {c: n for c, _, n in BIN}
LIT_BIN = {l: c for c, l, _ in BIN}
ASG_LIT = dict(ASG)
LIT_ASG = {l: c for c, l in ASG}
UN_LIT = dict(UN)


# ---------------------------------------------------------------- trees (nested lists)
RAW = ["g($a)", "g($b, 1)", "$arr[0]", "$arr[$a]", "$o->p", "$o->m()", "K::C", "K::s()", "(new K())->p", "1.5", "2e1", "0x10",
       "$arr[1][0]", "strlen('ab')"]    # operand shapes outside the model's token alphabet: value oracle only


LRAW = [2, 4, 12]     # the RAW entries usable as assignment targets


def has_raw(e):
    return e[0] == "raw" or any(isinstance(c, list) and has_raw(c) for c in e[1:])


def has_lraw(e):
    return (e[0] == "asg" and e[2][0] == "raw") or any(isinstance(c, list) and has_lraw(c) for c in e[1:])


def unraw(e):
    """the same tree with every raw operand replaced by its placeholder variable"""
    if e[0] == "raw":
        return ["var", 4 + e[1]]
    return [unraw(c) if isinstance(c, list) else c for c in e]


def prec(e):
    k = e[0]
    if k in ("var", "int", "nint", "str", "true", "false", "null", "par", "raw"):
        return 17
    if k == "bin":
        return BIN_LVL[e[1]]
    if k == "asg":
        return 0
    if k in ("un", "cast"):
        return 15
    return 1   # tern, elvis


def opctx(o):
    return (17, 16) if o == "OPow" else (BIN_LVL[o], BIN_LVL[o] + 1)


def par_if(b, e):
    return ["par", e] if b else e


def pmin(ctx, e):
    k = e[0]
    if k == "bin":
        cl, cr = opctx(e[1])
        body = ["bin", e[1], pmin(cl, e[2]), pmin(cr, e[3])]
    elif k == "asg":
        body = ["asg", e[1], e[2], pmin(0, e[3])]
    elif k == "un":
        body = ["un", e[1], pmin(15, e[2])]
    elif k == "cast":
        body = ["cast", e[1], pmin(15, e[2])]
    elif k == "tern":
        body = ["tern", pmin(2, e[1]), pmin(1, e[2]), pmin(1, e[3])]
    elif k == "elvis":
        body = ["elvis", pmin(2, e[1]), pmin(1, e[2])]
    elif k == "par":
        body = ["par", pmin(0, e[1])]
    else:
        body = e
    return par_if(prec(e) < ctx, body)


def is_atom(e):
    return e[0] in ("var", "int", "nint", "str", "true", "false", "null", "raw")


def pfull(e):
    def sub(x):
        return par_if(not is_atom(x), pfull(x))
    k = e[0]
    if k == "bin":
        return ["bin", e[1], sub(e[2]), sub(e[3])]
    if k == "asg":
        return ["asg", e[1], e[2], sub(e[3])]
    if k in ("un", "cast"):
        return [k, e[1], sub(e[2])]
    if k == "tern":
        return ["tern", sub(e[1]), sub(e[2]), sub(e[3])]
    if k == "elvis":
        return ["elvis", sub(e[1]), sub(e[2])]
    return e


def add_redundant(rng, e, p=0.25):
    """wrap random sub-expressions (never the left side of an assignment) in extra parentheses"""
    k = e[0]
    if k == "bin":
        r = ["bin", e[1], add_redundant(rng, e[2], p), add_redundant(rng, e[3], p)]
    elif k == "asg":
        r = ["asg", e[1], e[2], add_redundant(rng, e[3], p)]
    elif k in ("un", "cast"):
        r = [k, e[1], add_redundant(rng, e[2], p)]
    elif k == "tern":
        r = ["tern"] + [add_redundant(rng, x, p) for x in e[1:]]
    elif k == "elvis":
        r = ["elvis"] + [add_redundant(rng, x, p) for x in e[1:]]
    elif k == "par":
        r = ["par", add_redundant(rng, e[1], p)]
    else:
        r = e
    while rng.random() < p:
        r = ["par", r]
    return r


def drop_one_paren(rng, e):
    """remove one parenthesis node (the result is usually NOT well-parenthesised: tie-only case)"""
    paths = []

    def walk(x, path):
        if x[0] == "par":
            paths.append(path)
        for idx, c in enumerate(x):
            if isinstance(c, list):
                walk(c, path + [idx])
    walk(e, [])
    if not paths:
        return None
    path = rng.choice(paths)

    def rebuild(x, p):
        if not p:
            return x[1]
        y = list(x)
        y[p[0]] = rebuild(x[p[0]], p[1:])
        return y
    return rebuild(e, path)


def toks(e, tight):
    """Spec.pr: token list, as (class, text) pairs in the engine's projection"""
    k = e[0]
    if k == "var":
        return [("var", "$" + VARS[e[1]])]
    if k == "int":
        return [("int", str(e[1]))]
    if k == "nint":
        return [("int", "-" + str(e[1]))]
    if k == "str":
        return [("str", '"s%d"' % e[1])]
    if k in ("true", "false", "null"):
        return [(k, "")]
    if k == "raw":
        return [("raw", RAW[e[1]])]
    if k == "bin":
        right = toks(e[3], tight)
        if e[1] == "OSub" and tight and right[0][0] == "int" and not right[0][1].startswith("-"):
            return toks(e[2], tight) + [("int", "-" + right[0][1])] + right[1:]
        if e[1] == "OSub" and tight and right[0][0] == "raw" and right[0][1][0].isdigit():
            return toks(e[2], tight) + [("raw", "-" + right[0][1])] + right[1:]
        return toks(e[2], tight) + [("op", BIN_LIT[e[1]])] + right
    if k == "asg":
        return toks(e[2], tight) + [("op", ASG_LIT[e[1]])] + toks(e[3], tight)
    if k == "un":
        return [("op", UN_LIT[e[1]])] + toks(e[2], tight)
    if k == "cast":
        return [("op", "("), ("ident", CASTS[e[1]]), ("op", ")")] + toks(e[2], tight)
    if k == "tern":
        return toks(e[1], tight) + [("op", "?")] + toks(e[2], tight) + [("op", ":")] + toks(e[3], tight)
    if k == "elvis":
        return toks(e[1], tight) + [("op", "?:")] + toks(e[2], tight)
    if k == "par":
        return [("op", "(")] + toks(e[1], tight) + [("op", ")")]
    raise ValueError(k)


def render(tk, compact=False):
    """spaced: one space between tokens.  compact: no space unless dropping it would change the token stream
    (two word-like tokens, two operator characters meeting, or a minus before a digit that is not meant to fold)."""
    out = []
    words = [t if c not in ("true", "false", "null") else c for c, t in tk]
    if not compact:
        return " ".join(words)
    opch = set("+-*/%=<>!&|^~?:.")
    res = ""
    for w in words:
        if res:
            a, b = res[-1], w[0]
            wordish = lambda ch: ch.isalnum() or ch in "_$'\""
            if (wordish(a) and wordish(b)) or (a in opch and b in opch) or (a == "-" and b.isdigit()) or (a in opch and b == "-") \
                    or (a == ")" and wordish(b)) or (a == "?" or b == "?") or a == ":" or b == ":" \
                    or (a.isdigit() and b == ".") or (a == "." and b.isdigit()):
                res += " "
        res += w
    return res


def ops_of(e):
    k = e[0]
    res = []
    if k == "bin":
        res.append(BIN_LIT[e[1]])
    elif k == "asg":
        res.append(ASG_LIT[e[1]])
    elif k == "un":
        res.append("u" + UN_LIT[e[1]])
    elif k == "cast":
        res.append("(cast)")
    elif k == "tern":
        res.append("?:")
    elif k == "elvis":
        res.append("?:e")
    for c in e[1:]:
        if isinstance(c, list):
            res += ops_of(c)
    return res


# ---------------------------------------------------------------- Coq terms
def coq_expr(e):
    k = e[0]
    if k == "var":
        return "(EAtom (AVar %d%%nat))" % e[1]
    if k == "int":
        return "(EAtom (ANum false %d))" % e[1]
    if k == "nint":
        return "(EAtom (ANum true %d))" % e[1]
    if k == "str":
        return "(EAtom (AStr %d%%nat))" % e[1]
    if k == "true":
        return "(EAtom ATrue)"
    if k == "false":
        return "(EAtom AFalse)"
    if k == "null":
        return "(EAtom ANull)"
    if k == "bin":
        return "(EBin %s %s %s)" % (e[1], coq_expr(e[2]), coq_expr(e[3]))
    if k == "asg":
        return "(EAsg %s %s %s)" % (e[1], coq_expr(e[2]), coq_expr(e[3]))
    if k == "un":
        return "(EUn %s %s)" % (e[1], coq_expr(e[2]))
    if k == "cast":
        return "(ECast %d%%nat %s)" % (e[1], coq_expr(e[2]))
    if k == "tern":
        return "(ETern %s %s %s)" % tuple(coq_expr(x) for x in e[1:])
    if k == "elvis":
        return "(EElvis %s %s)" % tuple(coq_expr(x) for x in e[1:])
    if k == "par":
        return "(EPar %s)" % coq_expr(e[1])
    raise ValueError(k)


def coq_tok(c, t):
    if c == "var":
        n = t[1:]
        return "TAtom (AVar %d%%nat)" % VARS.index(n) if n in VARS else "TOther"
    if c == "int":
        if t.startswith("-") and t[1:].isdigit():
            return "TAtom (ANum true %s)" % t[1:]
        return "TAtom (ANum false %s)" % t if t.isdigit() else "TOther"
    if c == "str":
        if t.startswith('"s') and t.endswith('"') and t[2:-1].isdigit():
            return "TAtom (AStr %s%%nat)" % t[2:-1]
        return "TOther"
    if c == "true":
        return "TAtom ATrue"
    if c == "false":
        return "TAtom AFalse"
    if c == "null":
        return "TAtom ANull"
    if c == "ident":
        return "TIdent %d%%nat" % CASTS.index(t) if t in CASTS else "TOther"
    if c == "op":
        if t in LIT_BIN:
            return "TBin " + LIT_BIN[t]
        if t in LIT_ASG:
            return "TAsg " + LIT_ASG[t]
        return {"!": "TNot", "~": "TBnot", "?": "TQ", ":": "TColon", "?:": "TElvis", "(": "TLp", ")": "TRp",
                ";": "TSemi"}.get(t, "TOther")
    return "TOther"


def sexp_parse(s):
    """parse the engine's s-expression into nested python lists"""
    pos = 0
    n = len(s)

    def skip():
        nonlocal pos
        while pos < n and s[pos] == " ":
            pos += 1

    def item():
        nonlocal pos
        skip()
        if s[pos] == "(":
            pos += 1
            out = []
            while True:
                skip()
                if s[pos] == ")":
                    pos += 1
                    return out
                out.append(item())
        if s[pos] == '"':
            j = pos + 1
            while s[j] != '"':
                j += 2 if s[j] == "\\" else 1
            tok = s[pos:j + 1]
            pos = j + 1
            return tok
        j = pos
        while j < n and s[j] not in " ()":
            j += 1
        tok = s[pos:j]
        pos = j
        return tok
    return item()


def coq_gt(x):
    if not isinstance(x, list) or not x:
        return "GOther"
    h = x[0]
    try:
        if h == "var" and x[1] in VARS:
            return "(GVar %d%%nat)" % VARS.index(x[1])
        if h == "int":
            v = int(x[1])
            return "(GInt (%d)%%Z)" % v
        if h == "str" and x[1].startswith('"s') and x[1][2:-1].isdigit():
            return "(GStr %s%%nat)" % x[1][2:-1]
        if h == "true":
            return "GTrue"
        if h == "false":
            return "GFalse"
        if h == "null":
            return "GNull"
        if h == "=":
            return "(GAssign %s %s)" % (coq_gt(x[1]), coq_gt(x[2]))
        if h in LIT_BIN and len(x) == 3:
            return "(GBin %s %s %s)" % (LIT_BIN[h], coq_gt(x[1]), coq_gt(x[2]))
        if h in ("un-", "un!", "un~"):
            return "(GUn %s %s)" % ({"-": "UNeg", "!": "UNot", "~": "UBnot"}[h[2]], coq_gt(x[1]))
        if h == "cast" and x[1] in CASTS:
            return "(GCast %d%%nat %s)" % (CASTS.index(x[1]), coq_gt(x[2]))
        if h == "?:":
            return "(GTern %s %s %s)" % (coq_gt(x[1]), coq_gt(x[2]), coq_gt(x[3]))
    except (ValueError, IndexError):
        pass
    return "GOther"


def coq_case(c, o):
    if o.get("panic"):
        real = "RBad"
    elif o.get("perr"):
        real = "RErr"
    elif o.get("nstmt") == 1 and o.get("tree"):
        real = "(ROk %s)" % coq_gt(sexp_parse(o["tree"]))
    else:
        real = "RBad"
    rt = coq_list(coq_tok(a, b) for a, b in (o.get("toks") or []))
    return "{| wfclaim := %s; tabclaim := %s; tight := %s; src := %s; rtoks := %s; real := %s |}" % (
        "true" if c["wf"] else "false", "true" if c.get("tab") else "false", "true" if c["tight"] else "false",
        coq_expr(c["deco"]), rt, real)


# ---------------------------------------------------------------- generators
def rand_atom(rng):
    r = rng.random()
    if r < 0.45:
        return ["var", rng.randrange(4)]
    if r < 0.8:
        return ["int", rng.choice([2, 3, 5, 7, 11, 13, 0, 1])]
    if r < 0.86:
        return ["nint", rng.choice([2, 3, 5])]
    if r < 0.92:
        return ["str", rng.randrange(2)]
    if r < 0.95 and RAW_ON[0]:
        return ["raw", rng.randrange(len(RAW))]
    return [rng.choice(["true", "false", "null"])]


RAW_ON = [False]
# (source, the table's reading) pairs around the sign-folding lexer rule; the first three are the documented finding
# signed-literal-pow (a literal -k is one token, so ** sees it as its left operand), the others must agree
SIGN_PROBES = [("!-2 ** 2", "!(-(2 ** 2))"), ("~-2 ** 2", "~(-(2 ** 2))"), ("(int)-2 ** 2", "(int)(-(2 ** 2))"),
               ("2 ** -2 ** 2", "2 ** (-(2 ** 2))"), ("1 - -2 ** 2", "1 - (-(2 ** 2))"),
               ("$a-1", "$a - 1"), ("$a -1", "$a - 1"), ("1+-2", "1 + (-2)"), ("2**-1", "2 ** (-1)"), ("$a- -1", "$a - (-1)"),
               ("$a - - 1", "$a - (-1)"), ("$a+1", "$a + 1"), ("$a +1", "$a + 1"), ("$a - -$b", "$a - (-$b)"), ("$a+1.5", "$a + 1.5"),
               ("g($a)?-1:2", "g($a) ? (-1) : 2"), ("g($a) ?$b:2", "g($a) ? $b : 2"), ("$arr[0]?$b:2", "$arr[0] ? $b : 2"),
               ("1.5-1", "1.5 - 1"), ("$a-1.5", "$a - 1.5"), ("$a -1.5", "$a - 1.5"), ("1-0x10", "1 - 0x10"), ("$a-2e1", "$a - 2e1"), ("$arr[0]-1", "$arr[0] - 1"), ("g($a)-1", "g($a) - 1"),
               ("$o->p-1", "$o->p - 1"), ("K::C-1", "K::C - 1"), ("'5'-1", "'5' - 1"), ("true-1", "true - 1"),
               ("$a--1", None), ("-$a ** 2", "-($a ** 2)"), ("(-2) ** 2", "4"), ("$a*-1", "$a * (-1)"), ("$a.-1", "$a . (-1)"),
               ("$a ? -1 : -2", "$a ? (-1) : (-2)"), ("$a<-1", "$a < (-1)"), ("$a=-1", "$a = (-1)")]
SIGN_PROBES = [(a, b) for a, b in SIGN_PROBES if b is not None]
CONCAT_OPS = ["==", "!=", "===", "!==", "<", ">", "<=", ">=", "<=>", "&&", "||", "&", "^", "|"]
SIGN_FOLD_KNOWN = 5     # the first five probes are instances of the finding signed-literal-pow


def rand_tree(rng, depth):
    if depth == 0 or rng.random() < 0.12:
        return rand_atom(rng)
    r = rng.random()
    if r < 0.62:
        return ["bin", rng.choice(BIN)[0], rand_tree(rng, depth - 1), rand_tree(rng, depth - 1)]
    if r < 0.72:
        return ["asg", rng.choice(ASG)[0], ["var", rng.randrange(4)], rand_tree(rng, depth - 1)]
    if r < 0.82:
        return ["un", rng.choice(UN)[0], rand_tree(rng, depth - 1)]
    if r < 0.87:
        return ["cast", rng.randrange(4), rand_tree(rng, depth - 1)]
    if r < 0.95:
        return ["tern", rand_tree(rng, depth - 1), rand_tree(rng, depth - 1), rand_tree(rng, depth - 1)]
    return ["elvis", rand_tree(rng, depth - 1), rand_tree(rng, depth - 1)]


def op_shapes():
    """every operator as a function from operand list to tree, with its operand count"""
    shapes = []
    for c, _, _ in BIN:
        shapes.append((c, 2, lambda xs, c=c: ["bin", c, xs[0], xs[1]]))
    for c, _ in ASG:
        shapes.append((c, 1, lambda xs, c=c: ["asg", c, ["var", 0], xs[0]]))
    for c, _ in UN:
        shapes.append((c, 1, lambda xs, c=c: ["un", c, xs[0]]))
    shapes.append(("cast", 1, lambda xs: ["cast", 0, xs[0]]))
    shapes.append(("tern", 3, lambda xs: ["tern", xs[0], xs[1], xs[2]]))
    shapes.append(("elvis", 2, lambda xs: ["elvis", xs[0], xs[1]]))
    return shapes


ncombos = [0]
ATOMS = [["var", 1], ["int", 3], ["var", 2], ["int", 7], ["var", 3], ["int", 2], ["int", 5]]


def fill(shape, start):
    """apply an operator to distinct atoms starting at index `start`"""
    _, k, f = shape
    return f([ATOMS[(start + j) % len(ATOMS)] for j in range(k)]), start + k


def pair_trees():
    sh = op_shapes()
    out = []
    for a in sh:
        for b in sh:
            for slot in range(a[1]):
                inner, nxt = fill(b, 0)
                xs = []
                for j in range(a[1]):
                    if j == slot:
                        xs.append(inner)
                    else:
                        xs.append(ATOMS[nxt % len(ATOMS)])
                        nxt += 1
                out.append(a[2](xs))
    return out


def raw_trees():
    """every operator with every raw operand shape in every operand slot; assignment operators also with raw targets"""
    out = []
    for a in op_shapes():
        for r in range(len(RAW)):
            for slot in range(a[1]):
                xs = [["raw", r] if j == slot else ATOMS[j] for j in range(a[1])]
                out.append(a[2](xs))
    for c, _ in ASG:
        for r in LRAW:
            out.append(["asg", c, ["raw", r], ["int", 3]])
            out.append(["bin", "OAdd", ["int", 1], ["asg", c, ["raw", r], ["bin", "OMul", ["var", 1], ["int", 2]]]])
    return out


def chain_trees(quick):
    """x op1 PREFIX y op2 z written WITHOUT parentheses, for every binary / assignment operator op1 and op2 and every
    prefix operator and cast: the tree the table dictates.  The prefix operator's operand ends before op2 unless op2 binds
    tighter than a prefix (`**`) or is an assignment (whose target is the variable right of the prefix); then the two
    binary operators are resolved by their rows (left-associative on the same row)."""
    A, B, C = ["var", 0], ["var", 1], ["var", 2]
    ops1 = [("bin", c) for c, _, _ in BIN] + [("asg", c) for c, _ in ASG]
    ops2 = list(ops1)
    pres = [("un", c) for c, _ in UN] + [("cast", k) for k in range(4)]

    def mk(kind, c, l, r):
        return [kind, c, l, r]

    def lvl(kind, c):
        return BIN_LVL[c] if kind == "bin" else 0

    out = []
    idx = 0
    for k1, c1 in ops1:
        for k2, c2 in ops2:
            for pi, (pk, pc) in enumerate(pres):
                idx += 1
                pow_pair = (k1 == "bin" and c1 == "OPow") or (k2 == "bin" and c2 == "OPow")
                if quick and not pow_pair and (idx // len(pres) + pi) % len(pres) != 0:
                    continue          # quick tier: one prefix per operator pair (rotating), all prefixes around `**`
                if (k2 == "bin" and c2 == "OPow") or k2 == "asg":
                    tree = mk(k1, c1, A, [pk, pc, mk(k2, c2, B, C)])
                else:
                    U = [pk, pc, B]
                    if k1 == "asg":
                        tree = mk(k1, c1, A, mk(k2, c2, U, C))
                    elif lvl(k1, c1) >= lvl(k2, c2):
                        tree = mk(k2, c2, mk(k1, c1, A, U), C)
                    else:
                        tree = mk(k1, c1, A, mk(k2, c2, U, C))
                out.append(tree)
    return out


def triple_trees(rng, limit):
    """op1[op2[op3]] chains and op1[op2, op3] forks over all operators; sampled when limit is set"""
    sh = op_shapes()
    combos = []
    for a in sh:
        for b in sh:
            for c in sh:
                combos.append((a, b, c))
    ncombos[0] = len(combos)
    if limit and len(combos) > limit:
        combos = rng.sample(combos, limit)
    out = []
    for a, b, c in combos:
        for s1 in range(a[1]):
            for s2 in range(b[1]):
                inner, nxt = fill(c, 0)
                xs2 = []
                for j in range(b[1]):
                    if j == s2:
                        xs2.append(inner)
                    else:
                        xs2.append(ATOMS[nxt % len(ATOMS)])
                        nxt += 1
                mid = b[2](xs2)
                xs1 = []
                for j in range(a[1]):
                    if j == s1:
                        xs1.append(mid)
                    else:
                        xs1.append(ATOMS[nxt % len(ATOMS)])
                        nxt += 1
                out.append(a[2](xs1))
        if a[1] >= 2:
            l, nxt = fill(b, 0)
            r, nxt = fill(c, nxt)
            xs = [l, r] + [ATOMS[(nxt + j) % len(ATOMS)] for j in range(a[1] - 2)]
            out.append(a[2](xs))
    return out


PRE = ("function g($x, $y = 1) { return $x * 3 + $y; }\nfunction h2($x, $y) { return $y; }\nclass K { const C = 11; public $p = 13; static function s() { return 17; } "
       "function m() { return 19; } }\n$a = 2; $b = 3; $c = 5; $d = 7; $arr = [23, [29, 31], 37]; $o = new K();")
POST = "echo json_encode([gettype($r), $r, $a, $b, $c, $d, $arr, $o->p]);"


def run_impl(binary, cases, nproc=8):
    """run the engine on the cases, split over nproc worker processes (order preserved)"""
    if not cases:
        return [], 0, ""
    size = (len(cases) + nproc - 1) // nproc
    chunks = [cases[i:i + size] for i in range(0, len(cases), size)]
    procs = []
    for ch in chunks:
        inp = "\n".join(json.dumps({"src": c["text"], "pre": PRE, "post": POST, "eval": c["eval"]}) for c in ch) + "\n"
        p = subprocess.Popen([binary], stdin=subprocess.PIPE, stdout=subprocess.PIPE, stderr=subprocess.PIPE, text=True)
        procs.append((p, inp))
    # feed and collect concurrently
    import threading
    results = [None] * len(procs)

    def work(i):
        p, inp = procs[i]
        try:
            so, se = p.communicate(inp, timeout=1500)
        except subprocess.TimeoutExpired:
            p.kill()
            so, se = p.communicate()
        results[i] = (so, se, p.returncode)
    ths = [threading.Thread(target=work, args=(i,)) for i in range(len(procs))]
    for t in ths:
        t.start()
    for t in ths:
        t.join()
    outs, rc, err = [], 0, ""
    for (so, se, r), ch in zip(results, chunks):
        got = []
        for l in so.splitlines():
            l = l.strip()
            if l.startswith("{"):
                try:
                    got.append(json.loads(l))
                except ValueError:
                    pass
        if len(got) != len(ch):
            rc = r or 1
            err += se[-1500:]
        outs += got
    return outs, rc, err


def mk_cases(tree, rng, tid, styles):
    res = []
    for style in styles:
        if style == "min":
            d, wf = pmin(0, tree), True
        elif style == "full":
            d, wf = pfull(tree), True
        elif style == "red":
            d, wf = add_redundant(rng, pmin(0, tree)), True
        else:  # "drop": one required-or-redundant parenthesis removed from the full printing
            d = drop_one_paren(rng, pfull(tree))
            wf = False
            if d is None:
                continue
        for tight in ((False, True) if style in ("min", "red") else (False,)):
            tk = toks(d, tight)
            if tight and tk == toks(d, False):
                continue
            res.append({"tid": tid, "tree": tree, "deco": d, "wf": wf, "tight": tight, "style": style,
                        "text": render(tk), "eval": wf, "coq": not has_raw(tree)})
            if style == "min" and rng.random() < 0.35:
                # the same tokens written without optional spaces ($a-1, 1+-2, 2**-1)
                res.append({"tid": tid, "tree": tree, "deco": d, "wf": wf, "tight": tight, "style": "compact",
                            "text": render(tk, compact=True), "eval": wf, "coq": not has_raw(tree)})
    return res


def main(ck):
    rng = ck.rng
    ck.trusted += [
        "the interpreter evaluates the parsed tree: equal trees give equal values (also checked by running every printing)",
        "source text = the Spec's tokens joined by single spaces, a signed literal written -k (checked each run: clause 2 compares the real lexer's tokens with Spec.pr)",
        "harness/cmd/c04 (Go: token projection, node-tree dump) and checks/C04.py (generators, Coq term printer)",
        "model answers Unsup (not compared) for: calls/indexing/->/::, &$x, nullable-type pattern, a missing operand, a missing ')'",
    ]
    ck.prove()
    ck.log("proofs checked")
    binary, out = ck.go_build("c04")
    ck.log("engine built")
    if binary is None:
        ck.broken.append("harness-build")
        ck.finish(evaluations=0, distinct_nontrivial=0, rule="harness did not build")

    cases = []
    probes = []
    if ck.replay:
        rp = json.load(open(ck.replay))
        if "case" in rp:
            c = rp["case"]
            cases = [c] if "deco" in c else []
    else:
        quick = ck.tier == "quick"
        trees = []
        trees += pair_trees()
        npairs = len(trees)
        # quick: a seeded sample of operator triples; thorough: all 44^3 of them (the sampled 30000 with every style,
        # the rest in the minimal printing only)
        tri = triple_trees(rng, 1200 if quick else 0)
        trees += tri
        nfull = len(trees) if quick else npairs + 90000
        nrand = 2000 if quick else 25000
        for _ in range(nrand):
            trees.append(rand_tree(rng, rng.choice([2, 3, 3, 4, 4, 5])))
        # operand shapes outside the model alphabet (calls, indexing, ->, ::, new, float/hex literals)
        nmodel = len(trees)
        trees += raw_trees()
        RAW_ON[0] = True
        for _ in range(400 if quick else 6000):
            t = rand_tree(rng, rng.choice([2, 3, 3, 4]))
            if has_raw(t):
                trees.append(t)
        RAW_ON[0] = False
        for tid, t in enumerate(trees):
            styles = ["min", "full"]
            if tid % 3 == 0:
                styles.append("red")
            if tid % 4 == 0:
                styles.append("drop")
            if npairs <= tid < nmodel - nrand and tid >= nfull:
                styles = ["min"]
            cases += mk_cases(t, rng, tid, styles)
        # prefix operator in the middle of an unparenthesised chain: tie (clause 3), table tree (clause 4 via tabclaim) and
        # value against the fully parenthesised printing of the table tree
        ntid = len(trees)
        for k, t in enumerate(chain_trees(quick)):
            tid = ntid + k
            tk = toks(t, False)
            cases.append({"tid": tid, "tree": t, "deco": t, "wf": False, "tab": True, "tight": False, "style": "chain",
                          "text": render(tk), "eval": True, "coq": True})
            d = pfull(t)
            cases.append({"tid": tid, "tree": t, "deco": d, "wf": True, "tight": False, "style": "full",
                          "text": render(toks(d, False)), "eval": True, "coq": True})
        # the same source as an element of a comma list whose first element is a plain variable (echo list, array literal,
        # call arguments: parsed through Parse(), which looks ahead for `$a, $b = ...` and re-parses): its tree must be
        # the tree it has alone, and its value the value it has alone
        wrapped = []
        WRAPS = [("echo $a , \": \" , %s", False, "echo"), ("[ $a , %s ]", True, "array"), ("h2 ( $a , %s )", True, "call"),
                 ("[ $a , $b , %s ]", True, "array3")]
        wk = 0
        for j, c in enumerate(cases):
            if not c["wf"] or not c["eval"] or not c.get("coq", True) or c["style"] not in ("min", "red", "compact", "full"):
                continue
            if not (c["tight"] or c["style"] == "compact" or j % 9 == 0):
                continue
            if c["tree"][0] == "asg":
                continue          # `$a, $x = e` is the language's multiple assignment: an assignment is not a list element
            fmt, ev, wname = WRAPS[wk % len(WRAPS)]
            wk += 1
            wrapped.append({"text": fmt % c["text"], "eval": ev, "wrap_of": j, "wrap": wname})
        # companions of the raw-operand cases: the same printing with each raw operand replaced by its placeholder variable
        # (checked against model and table like every other case); the real tree of the raw case must be the companion's
        # real tree with the raw operand's own tree put back
        comp = []
        for j, c in enumerate(cases):
            if not c["coq"] and not has_lraw(c["tree"]):
                d = unraw(c["deco"])
                tk = toks(d, c["tight"])
                comp.append({"tid": c["tid"], "tree": unraw(c["tree"]), "deco": d, "wf": c["wf"], "tight": c["tight"],
                             "style": c["style"], "text": render(tk, compact=c["style"] == "compact"), "eval": False,
                             "coq": True, "companion_of": j})
        cases += comp
        # the sign-folding lexer rule against the table (known finding signed-literal-pow)
        probes = [{"text": "-2 ** 2", "eval": True}, {"text": "-(2 ** 2)", "eval": True},
                  {"text": "- 2 ** 2", "eval": True}]
        probes += [{"text": r, "eval": False} for r in RAW]
        for a, b in SIGN_PROBES:
            probes += [{"text": a, "eval": True}, {"text": b, "eval": True}]
        # where the property text leaves the row of '.' open (Spec assumption (a)) PHP does not: in PHP '.' binds tighter than
        # the comparison, equality, bitwise and logical operators.  One probe per operator: the source against PHP's reading.
        for op in CONCAT_OPS:
            probes += [{"text": "$a %s 'x' . $b" % op, "eval": True}, {"text": "$a %s ('x' . $b)" % op, "eval": True}]
        nfixed_probes = len(probes)
        probes += wrapped

    ck.log("generated %d cases" % len(cases))
    outs, rc, err = run_impl(binary, cases + probes)
    ck.log("implementation ran")
    if len(outs) != len(cases) + len(probes):
        ck.log("harness returned %d results for %d cases rc=%d\n%s" % (len(outs), len(cases) + len(probes), rc, err[-2000:]))
        ck.broken.append("harness-run")
        ck.finish(evaluations=len(outs), distinct_nontrivial=0, rule="harness crashed")
    o_cases, o_probes = outs[:len(cases)], outs[len(cases):]

    coq_idx = [j for j, c in enumerate(cases) if c.get("coq", True)]
    terms = [coq_case(cases[j], o_cases[j]) for j in coq_idx]
    bad = ck.eval_cases("cases", HEADER, terms, "check_case", shard=1200)
    bad = {coq_idx[k]: v for k, v in bad.items()}
    ck.log("model/spec evaluated")
    unsup = 0
    names = {1: "generator: source not well-parenthesised", 2: "real lexer tokens != Spec.pr",
             3: "model parser != real parser", 4: "real parser != tree dictated by the table"}
    for j, cls in sorted(bad.items(), key=lambda kv: len(cases[kv[0]]["text"])):
        c, o = cases[j], o_cases[j]
        if 9 in cls:
            unsup += 1
        cls = [x for x in cls if x != 9]
        if not cls:
            continue
        ops = "".join(sorted(set(ops_of(c["tree"]))))
        rep = {"case": c, "impl_out": o, "clause": [names[x] for x in cls]}
        if 1 in cls:
            ck.broken.append("generator:wf")
        if 4 in cls:
            ck.violation("table:%s" % ops, rep)
        else:
            if 2 in cls:
                ck.broken.append("correspondence:C04.print-vs-lexer")
            if 3 in cls:
                ck.broken.append("correspondence:C04.parse")
            ck.violation("tie:%s" % ops, rep)

    # value oracle: every well-parenthesised printing of one tree evaluates to the same outcome
    groups = {}
    for c, o in zip(cases, o_cases):
        if c["eval"]:
            groups.setdefault(c["tid"], []).append((c, o))
    valued = 0
    outcomes = {}
    for tid, lst in groups.items():
        vals = set((o.get("val"), o.get("vout")) for _, o in lst)
        valued += len(lst)
        for _, o in lst:
            outcomes[o.get("val")] = outcomes.get(o.get("val"), 0) + 1
        if len(vals) > 1:
            c0 = min((c for c, _ in lst), key=lambda c: len(c["text"]))
            ops = "".join(sorted(set(ops_of(c0["tree"]))))
            ck.violation("value:%s" % ops, {"case": c0, "printings": [(c["text"], o.get("val"), o.get("vout")) for c, o in lst],
                                             "clause": "value of printings differ"})
    raw_checked = 0
    wrapped_checked = 0
    if probes:
        a, b, c = o_probes[:3]
        if (a.get("val"), a.get("vout")) != (b.get("val"), b.get("vout")):
            ck.violation("signed-literal-pow", {"case": {"text": "-2 ** 2"}, "impl_out": a, "spec_out": b,
                                                 "clause": "-2 ** 2 must equal -(2 ** 2): ** binds tighter than unary minus"})
        if (c.get("val"), c.get("vout")) != (b.get("val"), b.get("vout")):
            ck.violation("spaced-minus-pow", {"case": {"text": "- 2 ** 2"}, "impl_out": c, "spec_out": b,
                                               "clause": "- 2 ** 2 must equal -(2 ** 2)"})
        raw_out = o_probes[3:3 + len(RAW)]
        for r, o in zip(RAW, raw_out):
            if o.get("perr") or o.get("panic") or not o.get("tree"):
                ck.violation("raw-operand:parse:" + r, {"case": {"text": r}, "impl_out": o, "clause": "operand shape does not parse"})
        sp = o_probes[3 + len(RAW):]
        for k, (src, want) in enumerate(SIGN_PROBES):
            x, y = sp[2 * k], sp[2 * k + 1]
            if (x.get("val"), x.get("vout")) != (y.get("val"), y.get("vout")) or x.get("val") == "parse":
                key = ("signed-literal-pow:" if k < SIGN_FOLD_KNOWN else "sign-fold:") + src.replace(" ", "")
                ck.violation(key, {"case": {"text": src}, "impl_out": x, "spec_text": want, "spec_out": y,
                                   "clause": "%s must evaluate like %s" % (src, want)})
        cp = o_probes[nfixed_probes - 2 * len(CONCAT_OPS):nfixed_probes]
        for k, op in enumerate(CONCAT_OPS):
            x, y = cp[2 * k], cp[2 * k + 1]
            if (x.get("val"), x.get("vout")) != (y.get("val"), y.get("vout")):
                ck.violation("concat-below-comparison:" + op, {"case": {"text": "$a %s 'x' . $b" % op}, "impl_out": x, "spec_out": y,
                                                               "clause": "PHP reads $a %s 'x' . $b as $a %s ('x' . $b); the parser reads ($a %s 'x') . $b" % (op, op, op)})
        # comma-list wrappers
        for w, ow in zip(probes[nfixed_probes:], o_probes[nfixed_probes:]):
            j = w["wrap_of"]
            c, o = cases[j], o_cases[j]
            wrapped_checked += 1
            ops = "".join(sorted(set(ops_of(c["tree"]))))
            bad = None
            if o.get("perr") or o.get("panic") or not o.get("tree"):
                continue                      # the bare source itself is rejected: reported elsewhere
            if ow.get("perr") or ow.get("panic") or not ow.get("tree"):
                bad = "the source parses alone but not as an element of the list: %s" % (ow.get("perr") or ow.get("panic"))
            else:
                tw, tb = sexp_parse(ow["tree"]), sexp_parse(o["tree"])
                if not (isinstance(tw, list) and tw and tw[0] == "wrap" and tw[-1] == tb):
                    bad = "tree of the element differs from the tree of the source alone"
                elif w["eval"] and o.get("val") == "ok" and ow.get("val") == "ok":
                    try:
                        vb, vw = json.loads(o["vout"]), json.loads(ow["vout"])
                        elem = vw[1][-1] if w["wrap"].startswith("array") else vw[1]
                        if elem != vb[1] or vw[2:6] != vb[2:6]:
                            bad = "value of the element differs from the value of the source alone"
                    except (ValueError, IndexError, TypeError, KeyError):
                        pass          # json_encode gave up (INF / NAN): no value to compare
                elif w["eval"] and (o.get("val") == "ok") != (ow.get("val") == "ok"):
                    bad = "outcome %s alone, %s in the list" % (o.get("val"), ow.get("val"))
            if bad:
                ck.violation("comma-list:%s:%s" % (w["wrap"], ops), {"case": {"text": w["text"]}, "alone": c["text"], "impl_out": ow,
                                                                    "alone_out": o, "clause": bad})
        # raw-operand cases: structure against the companion, and the wf printings must parse
        for cj, cc in enumerate(cases):
            j = cc.get("companion_of")
            if j is None:
                continue
            c, o, oc = cases[j], o_cases[j], o_cases[cj]
            raw_checked += 1
            ops = "".join(sorted(set(ops_of(c["tree"]))))
            if oc.get("tree") and not oc.get("perr"):
                want = oc["tree"]
                for i, r in enumerate(RAW):
                    want = want.replace("(var r%d)" % i, raw_out[i].get("tree") or "(?)")
                got = o.get("tree") if not o.get("perr") and not o.get("panic") else "error: %s" % (o.get("perr") or o.get("panic"))
            else:
                want = "error"
                got = "error" if (o.get("perr") or o.get("panic")) else o.get("tree")
            if want != got:
                ck.violation("raw-operand:%s" % ops, {"case": c, "impl_out": o, "companion": cc["text"], "expected_tree": want,
                                                      "clause": "tree with a call/index/member/float operand differs from the tree "
                                                                "of the same source with a variable in its place"})
        for c, o in zip(cases, o_cases):
            if not c.get("coq", True) and c["wf"] and (o.get("perr") or o.get("panic")):
                ops = "".join(sorted(set(ops_of(c["tree"]))))
                ck.violation("raw-operand:%s" % ops, {"case": c, "impl_out": o, "clause": "well-parenthesised source rejected"})

    # ---- measured coverage
    distinct = set()
    nontriv = 0
    opdist = {}
    depthdist = {}
    for c in cases:
        key = c["text"]
        if key in distinct:
            continue
        distinct.add(key)
        ops = ops_of(c["tree"])
        if len(ops) >= 2:
            nontriv += 1
        for o in ops:
            opdist[o] = opdist.get(o, 0) + 1
        depthdist[len(ops)] = depthdist.get(len(ops), 0) + 1
    ck.samples = [c["text"] for c in (cases[:2] + cases[len(cases) // 2: len(cases) // 2 + 3] + cases[-3:])]
    ck.cov["operator_distribution"] = opdist
    ck.cov["operators_per_source_distribution"] = {str(k): v for k, v in sorted(depthdist.items())}
    ck.cov["styles"] = {s: sum(1 for c in cases if c["style"] == s) for s in ("min", "full", "red", "drop", "compact", "chain")}
    ck.cov["raw_operand_cases"] = sum(1 for c in cases if not c.get("coq", True))
    ck.cov["raw_operand_cases_structurally_checked"] = raw_checked
    ck.cov["sign_fold_probes"] = len(SIGN_PROBES)
    ck.cov["comma_list_wrappers_checked"] = wrapped_checked
    ck.cov["tight_minus_cases"] = sum(1 for c in cases if c["tight"])
    ck.cov["model_unsupported"] = unsup
    ck.cov["evaluated_on_interpreter"] = valued
    ck.cov["interpreter_outcomes"] = outcomes
    ck.cov["exhaustive"] = "all ordered operator pairs x operand slot over %d operators; triples: %s" % (
        len(op_shapes()), "seeded sample of 1200 of the %d operator triples (all slots, chain and fork)" % ncombos[0] if ck.tier == "quick" else "all %d operator triples (all slots, chain and fork)" % ncombos[0])
    ck.finish(level="proof", evaluations=len(cases) + len(probes), distinct_nontrivial=nontriv,
              rule="expression trees over 24 binary, 14 assignment, 3 prefix operators, casts, ?: and ?:-elvis: every ordered "
                   "operator pair in every operand slot, operator triples, seeded random trees of depth 2..5; each printed with "
                   "minimal and full parentheses (+ random redundant parentheses, + one parenthesis dropped = tie-only), "
                   "binary minus spaced and tight; non-trivial = distinct source with at least two operators",
              traces=len(terms) - unsup)
