"""C01 — any source text lexes and parses to a program or a diagnostic, never a crash.  (PARTIAL)
Proof (coq/Lexer, coq/C04, coq/C01): the lexer model (both modes) terminates within |s|+1 iterations and never
reaches an unchecked read; the expression core of the parser terminates with a fixed linear fuel.
Tie: the real lexer's token streams are compared with the model on this property's input distribution
(token-boundary prefixes, single-token deletions / duplications, byte mutations).
Search (not proof): every generated input is run through the FULL real parser under a watchdog in worker
processes (panic, fatal error / stack overflow = worker death, timeout are violations), and accepted mutants of
generated side-effect-free programs are executed in-process (an internal panic is a violation)."""
import glob
import json
import os
import re

import lexrun
import lextable
import stmttie
import vcheck

HEADER = ("From Coq Require Import List Arith NArith Bool String.\nImport ListNotations.\n"
          "From V.Lexer Require Import Model Hex.\nFrom V.C18 Require Import Spec Run.\nFrom V.C01 Require Run.\n"
          "Open Scope string_scope.\n")


def coq_case(c, o):
    if o.get("lexpanic") or o.get("dead") or o.get("toks") is None:
        real = "RPanic"
    else:
        real = "(RToks [%s])" % "; ".join('(%d%%N, %d%%N, %d%%N, %d%%N, "%s")' % (t[0], t[1], t[2], t[3], t[4]) for t in o["toks"])
    return '{| template := %s; src := "%s"; real := %s |}' % ("true" if c["mode"] == "template" else "false", c["hex"], real)


# ---------------------------------------------------------------- generated side-effect-free programs
def gen_expr(rng, d, vars_):
    if d == 0 or rng.random() < 0.3:
        r = rng.random()
        if r < 0.4 and vars_:
            return rng.choice(vars_)
        if r < 0.7:
            return str(rng.randrange(0, 20))
        if r < 0.85:
            return rng.choice(['"ab"', "'c'", '"x y"'])
        return rng.choice(["true", "false", "null"])
    r = rng.random()
    if r < 0.5:
        return "%s %s %s" % (gen_expr(rng, d - 1, vars_), rng.choice(["+", "-", "*", ".", "==", "<", ">=", "&&", "||", "??", "%"]),
                             gen_expr(rng, d - 1, vars_))
    if r < 0.6:
        return "(%s)" % gen_expr(rng, d - 1, vars_)
    if r < 0.7:
        return "%s ? %s : %s" % (gen_expr(rng, d - 1, vars_), gen_expr(rng, d - 1, vars_), gen_expr(rng, d - 1, vars_))
    if r < 0.8:
        return "%s%s" % (rng.choice(["!", "-"]), gen_expr(rng, d - 1, vars_))
    if r < 0.9:
        return "%s(%s)" % (rng.choice(["strlen", "count", "abs", "f"]), gen_expr(rng, d - 1, vars_))
    return "[%s, %s]" % (gen_expr(rng, d - 1, vars_), gen_expr(rng, d - 1, vars_))


EXT = [False]      # constructs outside the statement model (match, do-while, closures, isset, casts): search only


def gen_stmts(rng, d, vars_, n):
    out = []
    for _ in range(n):
        r = rng.random()
        if r < 0.35 or d == 0:
            v = "$v%d" % rng.randrange(4)
            out.append("%s = %s;" % (v, gen_expr(rng, 2, vars_)))
            if v not in vars_:
                vars_.append(v)
        elif r < 0.45:
            out.append("echo %s;" % gen_expr(rng, 2, vars_))
        elif r < 0.6:
            out.append("if (%s) {\n%s\n} else {\n%s\n}" % (gen_expr(rng, 2, vars_), "\n".join(gen_stmts(rng, d - 1, vars_, 2)),
                                                            "\n".join(gen_stmts(rng, d - 1, vars_, 1))))
        elif r < 0.7:
            out.append("for ($i = 0; $i < 3; $i++) {\n%s\n}" % "\n".join(gen_stmts(rng, d - 1, vars_ + ["$i"], 2)))
        elif r < 0.78:
            out.append("$k = 0;\nwhile ($k < 2) {\n%s\n$k = $k + 1;\n}" % "\n".join(gen_stmts(rng, d - 1, vars_ + ["$k"], 1)))
        elif r < 0.86:
            out.append("foreach ([1, 2] as $fk => $fv) {\n%s\n}" % "\n".join(gen_stmts(rng, d - 1, vars_ + ["$fk", "$fv"], 1)))
        elif r < 0.93:
            catch = rng.choice(["Exception $e", "Exception $e", "Exception", "f | Exception $e", "f | Exception"])
            out.append(("try {\n%s\nthrow new Exception(\"e\");\n} catch (" + catch + ") {\n%s\n} finally {\n%s\n}") % (
                "\n".join(gen_stmts(rng, d - 1, vars_, 1)), "\n".join(gen_stmts(rng, d - 1, vars_, 1)),
                "\n".join(gen_stmts(rng, d - 1, vars_, 1))))
        elif EXT[0] and r < 0.965:
            k = rng.randrange(4)
            if k == 0:
                out.append("$v%d = match (%s) {\n1 => %s,\n2, 3 => %s,\ndefault => %s,\n};" % (
                    rng.randrange(4), gen_expr(rng, 1, vars_), gen_expr(rng, 1, vars_), gen_expr(rng, 1, vars_), gen_expr(rng, 1, vars_)))
            elif k == 1:
                out.append("$j = 0;\ndo {\n%s\n$j = $j + 1;\n} while ($j < 2);" % "\n".join(gen_stmts(rng, d - 1, vars_ + ["$j"], 1)))
            elif k == 2:
                out.append("$cl = function ($p) use (&$v0) {\n%s\nreturn $p;\n};\n$v1 = $cl(%s);" % (
                    "\n".join(gen_stmts(rng, d - 1, vars_ + ["$p"], 1)), gen_expr(rng, 1, vars_)))
            else:
                out.append("$v2 = isset($v%d) ? (int)(%s) : [%s][0] ?? null;" % (rng.randrange(4), gen_expr(rng, 1, vars_), gen_expr(rng, 1, vars_)))
        else:
            out.append("switch (%s) {\ncase 1:\n%s\nbreak;\ndefault:\n%s\n}" % (gen_expr(rng, 1, vars_),
                                                                                   "\n".join(gen_stmts(rng, d - 1, vars_, 1)),
                                                                                   "\n".join(gen_stmts(rng, d - 1, vars_, 1))))
    return out


def gen_program(rng):
    head = "function f($x) {\n$y = $x;\nreturn $y;\n}\n"
    return head + "\n".join(gen_stmts(rng, 2, [], rng.randrange(2, 6))) + "\n"


ALPHA = [b"$a", b"$b", b"f", b"if", b"else", b"while", b"for", b"function", b"return", b"echo", b"class", b"new", b"try",
         b"catch", b"1", b"-2", b"'s'", b'"d"', b"(", b")", b"{", b"}", b"[", b"]", b";", b",", b"=", b"+", b"-", b"*", b"**",
         b".", b"==", b"<", b"?", b":", b"::", b"->", b"=>", b"!", b"&", b"$", b"\\", b"@", b"#", b"...", b"??", b"++"]


def unbalanced(toks, br):
    """'' when the ( ) [ ] { } tokens nest properly, else a short description keyed by the offending bracket"""
    stack = []
    for t in toks:
        ty = t[0]
        if ty in br["open"]:
            stack.append(ty)
        elif ty in br["close"]:
            if not stack or br["open"][stack[-1]] != ty:
                return "%s unmatched closer at byte %d" % (br["close"][ty], t[1])
            stack.pop()
    if stack:
        return "%s never closed" % br["name"][stack[-1]]
    return ""


BR = {"open": {}, "close": {}, "name": {}}


def arraylit_sources():
    """array / object literals in positional, keyed, mixed, nested and JSON-like form, and for every element position the
    three defective variants: value missing, key missing, both missing (only the `=>` / `:` left)"""
    E = lambda i: ["$v%d" % (i % 4), str(10 * i + 1), "'c'", "f ( %d )" % i][i % 4]
    K = lambda i: ['"k%d"' % i, str(i), "$v%d" % (i % 4)][i % 3]
    shapes = []
    shapes.append(("positional", [(None, E(i)) for i in range(4)], "=>"))
    shapes.append(("keyed", [(K(i), E(i)) for i in range(4)], "=>"))
    shapes.append(("mixed", [(None, E(0)), (None, E(1)), (K(2), E(2)), (K(3), E(3))], "=>"))
    shapes.append(("mixed-late", [(None, E(0)), (K(1), E(1)), (None, E(2)), (K(3), E(3))], "=>"))
    shapes.append(("single-keyed", [(K(0), E(0))], "=>"))
    shapes.append(("json", [("a", E(0)), ("b", E(1)), ("c", E(2))], ":"))
    out = []

    def render(elems, sep, op="[", cl="]"):
        parts = []
        for k, v, has_sep in elems:
            parts.append(" ".join(x for x in (k, sep if has_sep else None, v) if x))
        return op + " " + " , ".join(parts) + " " + cl

    for name, elems, sep in shapes:
        full = [(k, v, k is not None) for k, v in elems]
        variants = [("ok", full)]
        for i, (k, v, hs) in enumerate(full):
            variants.append(("novalue@%d" % i, full[:i] + [(k, None, hs or True)] + full[i + 1:]))       # k =>    /   =>
            if k is not None:
                variants.append(("nokey@%d" % i, full[:i] + [(None, v, True)] + full[i + 1:]))           # => v
            variants.append(("neither@%d" % i, full[:i] + [(None, None, True)] + full[i + 1:]))          # =>
            variants.append(("empty@%d" % i, full[:i] + [(None, None, False)] + full[i + 1:]))           # , ,
        for vname, el in variants:
            for wrap in ("$v0 = %s ;", "$v0 = [ 1 , %s , 2 ] ;", "echo count ( %s ) ;", "$v0 = [ \"n\" => %s ] ;"):
                out.append(("%s:%s" % (name, vname), wrap % render(el, sep)))
            if sep == ":":
                out.append(("%s-brace:%s" % (name, vname), "$v0 = %s ;" % render(el, sep, "{", "}")))
            # the array( ... ) spelling of the same literal
            out.append(("%s-arraykw:%s" % (name, vname), "$v0 = %s ;" % render(el, sep, "array (", ")")))
            out.append(("%s-arraykw:%s" % (name, vname), "echo count ( %s ) ;" % render(el, sep, "array (", ")")))
    # other constructs whose body / subject expression can be left out: accepted must mean complete (executed)
    for tag, src in [("fn-nobody", "$g = fn ( $p ) => ; echo $g ( 1 ) ;"), ("fn-nobody-arg", "echo f ( fn ( $p ) => ) ;"),
                     ("fn-nobody-arr", "$g = [ fn ( ) => ] ; echo $g [ 0 ] ( ) ;"), ("fn-ok", "$g = fn ( $p ) => $p + 1 ; echo $g ( 1 ) ;"),
                     ("static-fn-nobody", "$g = static fn ( ) => ; echo $g ( ) ;"),
                     ("forin-noarray", "for $i in { echo 1 ; }"), ("forin-noarray-eof", "for $i in"), ("forin-noarray-paren", "for ( $i in ) { echo 1 ; }"),
                     ("forin-noarray-semi", "for $i in ; echo 2 ;"), ("forin-kv-noarray", "for $k , $w in ) { }"), ("forin-ok", "for $i in [ 1 , 2 ] { echo $i ; }"),
                     ("foreach-noarray", "foreach ( as $w ) { }"), ("while-nocond", "while ( ) { }"), ("closure-nobody", "$g = function ( ) ; echo $g ( ) ;"),
                     ("match-noarm", "$v0 = match ( 1 ) { 1 => } ;"), ("match-nocond", "$v0 = match ( 1 ) { => 2 } ;"),
                     ("ternary-nomid", "$v0 = $v1 ? : ;"), ("new-noargs", "$v0 = new Exception ( , ) ;"), ("list-assign-novalue", "$v1 , $v2 = ;"),
                     ("print-nothing", "print ;"), ("clone-nothing", "$v0 = clone ;"), ("throw-nothing-expr", "$v0 = 1 ?? throw ;"),
                     ("yield-nothing", "function y ( ) { yield => ; } foreach ( y ( ) as $w ) { }"), ("static-novalue", "static $z = ;"),
                     ("const-novalue", "const Z = ;"), ("global-nothing", "global ;"), ("unset-nothing", "unset ( , ) ;"), ("isset-nothing", "echo isset ( , ) ;"),
                     ("keyed-destructuring", "[ \"a\" => $v1 ] = [ \"a\" => 5 ] ; echo $v1 ;"), ("list-destructuring", "[ $v1 , $v2 ] = [ 5 , 6 ] ; echo $v1 ;"),
                     ("instanceof-nothing", "echo $v1 instanceof ;"), ("spread-nothing", "echo f ( ... ) ;"), ("index-nothing", "echo $v1 [ , ] ;")]:
        out.append((tag, src))
    return out


def heredoc_sources():
    """heredocs and nowdocs with every combination of closing-label indentation and body-line shape (shorter than the
    indentation, blank, blanks only, tabs, exactly as long, longer; with and without interpolation), executed"""
    out = []
    bodies = ["ab", "  ab", "      ab", "", " ", "   ", "\t", "\tab", "a", "      ", "  {$v1} x", "$v1", "        deep $v1 {$v2}"]
    for nowdoc in (False, True):
        for ind in ("", " ", "  ", "      ", "\t", " \t ", "        "):
            for k, b in enumerate(bodies):
                lines = [bodies[(k + 1) % len(bodies)], b, ind + "tail"]
                for order in (lines, [b]):
                    label = "'EOT'" if nowdoc else "EOT"
                    src = "$v1 = 1; $v2 = 2;\n$h = <<<%s\n%s\n%sEOT;\necho strlen($h);\n" % (label, "\n".join(order), ind)
                    out.append(("%s:ind%d:body%d" % ("nowdoc" if nowdoc else "heredoc", len(ind), k), src))
            out.append(("%s:ind%d:empty" % ("nowdoc" if nowdoc else "heredoc", len(ind)),
                        "$h = <<<%s\n%sEOT;\necho strlen($h);\n" % ("'EOT'" if nowdoc else "EOT", ind)))
    return out


def token_mutants(rng, data, toks, nprefix, ndel, ndup, nsub=0):
    """prefixes at token boundaries, single-token deletions and duplications (spans from the real lexer)"""
    res = []
    spans = [(t[1], t[2]) for t in toks if 0 <= t[1] <= t[2] <= len(data)]
    if not spans:
        return res
    for (a, b) in rng.sample(spans, min(nprefix, len(spans))):
        res.append(("prefix", data[:b]))
    for (a, b) in rng.sample(spans, min(ndel, len(spans))):
        res.append(("delete:" + data[a:b].decode("latin-1")[:12], data[:a] + data[b:]))
    for (a, b) in rng.sample(spans, min(ndup, len(spans))):
        res.append(("dup:" + data[a:b].decode("latin-1")[:12], data[:b] + b" " + data[a:b] + data[b:]))
    # single-token SUBSTITUTION: a token replaced by one of a small alphabet (a defect that deleting cannot reach:
    # `switch (1)` -> `switch (;)`)
    for (a, b) in rng.sample(spans, min(nsub, len(spans))):
        for sub in rng.sample(SUBST, 4):
            res.append(("sub:%s->%s" % (data[a:b].decode("latin-1")[:8], sub.decode()), data[:a] + sub + data[b:]))
    # the whole content of a parenthesis / bracket pair replaced by one alphabet token
    pairs, stack = [], []
    for t in toks:
        txt = data[t[1]:t[2]] if 0 <= t[1] <= t[2] <= len(data) else b""
        if txt in (b"(", b"["):
            stack.append(t)
        elif txt in (b")", b"]") and stack:
            o = stack.pop()
            if o[2] < t[1]:
                pairs.append((o[2], t[1]))
    for (a, b) in rng.sample(pairs, min(nsub, len(pairs))):
        for sub in ([b";", b"?>", b")", b""] + rng.sample(SUBST[2:], 3)) if nsub <= 2 else SUBST:
            res.append(("inner->%s" % sub.decode(), data[:a] + sub + data[b:]))
    return res


SUBST = [b";", b")", b"(", b",", b"{", b"}", b"?>", b"+", b"foo", b"$z", b"1", b"=>", b":", b"", b"[", b"]"]


def byte_mutants(rng, data, n):
    res = []
    for _ in range(n):
        k = rng.randrange(4)
        pos = rng.randrange(len(data) + 1) if data else 0
        if k == 0:
            res.append(("byte-trunc", data[:pos]))
        elif k == 1 and data:
            res.append(("byte-del", data[:pos] + data[pos + 1:]))
        elif k == 2:
            res.append(("byte-ins", data[:pos] + bytes([rng.choice(b"$'\"`\\/*(){}[]<>?:;#@\n\r\x00\xe3\x80\xff-0")]) + data[pos:]))
        else:
            res.append(("byte-rep", data[:pos] + bytes([rng.randrange(256)]) + data[pos + 1:]))
    return res


def panic_class(msg):
    msg = msg or ""
    for k, pat in (("nil", "nil pointer"), ("index", "index out of range"), ("slice", "slice bounds"),
                   ("typeassert", "interface conversion"), ("stack", "stack overflow"), ("map", "nil map")):
        if pat in msg:
            return k
    return "other"


def main(ck):
    rng = ck.rng
    ck.trusted += [
        "harness/cmd/lex (Go): lexing, full parse with a per-case watchdog, in-process run with recover(); lib/lexrun.py attributes worker deaths",
        "the statement parsers (class, function, control flow, HTML, annotations, ...) are NOT modelled: searched only",
        "wall-clock and Go stack depth cannot be exhibited by the model: iteration/fuel bounds are their logical counterpart; the watchdog covers the rest",
    ]
    binary, out = ck.go_build("lex")
    if binary is None:
        ck.broken.append("harness-build")
        ck.finish(evaluations=0, distinct_nontrivial=0, rule="harness did not build")
    tbl, changed = lextable.regenerate(ck, binary)
    stmt_bin, out2 = ck.go_build("stmt")
    if stmt_bin is None:
        ck.broken.append("harness-build")
        ck.finish(evaluations=0, distinct_nontrivial=0, rule="harness did not build")
    ck.prove(deps=["Lexer", "gen", "C18", "C04", "Stmt"], extra_targets=["Stmt/Model.vo", "Stmt/Run.vo", "Stmt/Proofs.vo", "Stmt/Complete.vo", "Stmt/Theorems.vo"])
    ck.log("proofs checked")
    quick = ck.tier == "quick"

    K = tbl["consts"]
    for a, b, nm in (("LPAREN", "RPAREN", "("), ("LBRACKET", "RBRACKET", "["), ("LBRACE", "RBRACE", "{")):
        BR["open"][K[a]] = K[b]
        BR["close"][K[b]] = {"(": ")", "[": "]", "{": "}"}[nm]
        BR["name"][K[a]] = nm
    cases = []     # dicts: hex, mode, origin, mut, run
    if ck.replay:
        rp = json.load(open(ck.replay))
        if "case" in rp and "hex" in rp["case"]:
            cases = [rp["case"]]
    else:
        # (iii) exhaustive short sources over a token alphabet (+ every keyword of the token table), executed too
        kw_lo, kw_hi = tbl["consts"]["KEYWORD_START"], tbl["consts"]["KEYWORD_END"]
        alpha = list(ALPHA)
        for ty, hx in tbl["defs"]:
            lit = bytes.fromhex(hx)
            if kw_lo < ty < kw_hi and lit not in alpha and lit.isascii():
                alpha.append(lit)
        alpha += [b"instanceof", b"$a instanceof", b"endif;", b"else:", b"if ($a):", b"endwhile;", b"@end"]
        ck.cov["alpha_tokens"] = len(alpha)
        for a in alpha:
            cases.append({"hex": a.hex(), "mode": "plain", "origin": "alpha1", "mut": "-", "run": True})
            cases.append({"hex": (b"<?php " + a).hex(), "mode": "template", "origin": "alpha1", "mut": "-", "run": True})
            for b in (alpha if not quick else rng.sample(alpha, 20)):
                m = "template" if rng.random() < 0.25 else "plain"
                cases.append({"hex": ((b"<?php " if m == "template" else b"") + a + b" " + b).hex(), "mode": m, "origin": "alpha2",
                              "mut": "-", "run": True})
        # (all 110 592 triples over the 48 hand-picked tokens made the thorough tier too long for this machine: a seeded fifth)
        trip = [tuple(rng.choice(alpha) for _ in range(3)) for _ in range(1000 if quick else 8000)] + ([] if quick else rng.sample([(a, b, c) for a in ALPHA for b in ALPHA for c in ALPHA], 22000))
        for a, b, c in trip:
            cases.append({"hex": (a + b" " + b + b" " + c).hex(), "mode": "plain", "origin": "alpha3", "mut": "-", "run": False})
        # tails that end a source in the middle of a multi-byte look-ahead or of an opening construct
        tails = [b"\xe3", b"\xe3\x80", b"\xe3\x80\x80", b"$", b"\\", b"'", b'"', b"`", b"/", b"/*", b"/* x *", b"//", b"<", b"<<", b"<<<",
                 b"<<<A", b"<<<'A'", b"b'", b"b'\\", b"-", b"1e", b"1e+", b"1.", b"0x", b"?", b"?-", b"<?", b"<?ph", b"\xff", b"\xc3", b"\xf0\x9f",
                 b"$.SERVER(", b'"$', b'"{$', b'"@{', b"#", b"#!", b"@", b"::", b"->", b"=>", b"..."]
        # a source that starts with <!DOCTYPE is handed to the HTML lexer: every tail and a set of HTML-ish fragments after it
        html_frags = [b"<}", b"<div for=&{", b"<p-<div \x00", b"{<style>x{$a}=>-><!->", b"<?php \n?><!DOCTYPE", b"<br/>-></<div {$a}", b"</script><->",
                      b"{'<div ?>-<?php ", b"{{=<::\\}}:div", b"<&amp;</style>", b"<script>-><)</<?php ", b"$a<div><div text{{{$a}", b"<html><body>x</body></html>",
                      b"<div a=\"b\">{$a}</div>", b"<", b">", b"</", b"\xff", b"<!--", b"<div @click=\"f()\">"]
        for hdr in (b"<!DOCTYPE html>", b"<!DOCTYPE", b"<!DOCTYPE html>\n<html>"):
            for t in tails + html_frags:
                for m in ("plain", "template"):
                    cases.append({"hex": (hdr + t).hex(), "mode": m, "origin": "doctype", "mut": "-", "run": False})
        # pseudo open tags in the HTML part of a template ('<?php' directly followed by a non-blank): one, two, three of
        # them, with and without a real '<?php ' block before / between / after; also a '#!' script (lexed as a template).
        # The lexer must come back for every one of them (the watchdog reports a hang).
        pseudo = [b"<?phpinfo", b"<?php_x", b"<?phpA", b"<?php;", b"<?php?>", b"<?PHP", b"<?ph", b"<?="]
        real = b"<?php echo 1; ?>"
        for i, a in enumerate(pseudo):
            for b in (pseudo[(i + 1) % len(pseudo)], a):
                for src in (b"<p>" + a + b"</p>\n", b"<p>" + a + b" and " + b + b"</p>\n", a + b, b"<p>" + a + b"</p>" + real + b"<p>" + b + b"</p>\n",
                            b"<p>" + a + b" " + b + b"</p>\n" + real + b"\n", real + b"\n<p>" + a + b" " + b + b" " + a + b"</p>\n",
                            b"#!/usr/bin/env origami\n" + a + b" " + b + b"\n"):
                    cases.append({"hex": src.hex(), "mode": "template", "origin": "opentag", "mut": "-", "run": False})
        for base in (b"", b"$a = 1;\n", b"$a = ", b"f(", b"'s' ", b"// c\n"):
            for t in tails:
                for m in ("plain", "template"):
                    src = (b"<?php " if m == "template" else b"") + base + t
                    cases.append({"hex": src.hex(), "mode": m, "origin": "tail", "mut": "-", "run": False})
        # nesting depth: openers repeated n times (with and without their closers), both modes.  The parser must answer
        # with a program or a diagnostic — a worker death (fatal error: stack overflow) or a timeout is a violation.
        # every construct that can contain itself (or be chained by right recursion), alone and alternating in pairs
        openers = [(b"(", b")"), (b"[", b"]"), (b"!", b""), (b"-", b""), (b"~", b""), (b"(int)", b""), (b"(string)", b""), (b"{", b"}"),
                   (b"f(", b")"), (b"$a?", b":1"), (b"$a?1:", b""), (b"$a?:", b""), (b"$a??", b""), (b"2**", b""), (b"if(1)", b""),
                   (b"[1,", b"]"), (b"$a=", b""), (b"@", b""), (b"\\", b""), (b"&", b""), (b"...", b""), (b"new f(", b")"), (b"new ", b""),
                   (b"clone ", b""), (b"print ", b""), (b"echo ", b""), (b"fn() => ", b""), (b"static fn() => ", b""), (b"function(){return ", b";}"),
                   (b"array(", b")"), (b"array(1=>", b")"), (b"[1=>", b"]"), (b"match(1){1=>", b"}"), (b"$a[", b"]"), (b"$a->b(", b")"), (b"A::b(", b")"),
                   (b"\"{$a[", b"]}\""), (b"\"${", b"}\""), (b"<<<A\n{$a[", b"]}\nA\n"), (b"yield ", b""), (b"throw ", b""), (b"include ", b""),
                   (b"++", b""), (b"try{", b"}"), (b"do{", b"}while(0);"), (b"while(1)", b""), (b"for(;;)", b""), (b"foreach($a as $b)", b""),
                   (b"switch(1){case 1:", b"}"), (b"if(1){}else ", b""), (b"class A{function f(){", b"}}"), (b"isset(", b")"), (b"list(", b")"),
                   (b"#[A(", b")]"), (b"[$a, ", b"]"), (b"[$a, $b, ", b"]"), (b"f($a, ", b")"), (b"[$a, $b, $c => ", b"]")]
        # (the last four: the look-ahead for `$a, $b = ...` made these exponential in the depth - 16 levels took a minute -
        # until fix c9660c6; they are also run at depth 20, where an exponential parser does not answer)
        SHALLOW = (b"[$a, ", b"[$a, $b, ", b"f($a, ", b"[$a, $b, $c => ")
        # bytes: the deepest inputs are as deep as a source of this size allows (at most 10^6 levels)
        BIG = 3000000 if quick else 4000000
        # nested heredocs inside interpolation are re-lexed once per level (known finding time:heredoc-nest, measured by
        # the time-ratio test below): deeper than this they only measure that quadratic cost
        MAXN = {b"<<<A\n{$a[": 2000}

        def depth_cases(op, cl, n, closed, modes, tag):
            body = b"$x = " + op * n + b"1" + (cl * n if closed else b"") + b";"
            for m in modes:
                src = (b"<?php " if m == "template" else b"") + body
                cases.append({"hex": src.hex(), "mode": m, "origin": "depth", "mut": tag + ("" if closed else ":open"), "run": False})
        for k, (op, cl) in enumerate(openers):
            big = min(1000000, BIG // (len(op) + len(cl)), MAXN.get(op, 10 ** 9))
            for n in sorted(set(min(n_, MAXN.get(op, 10 ** 9)) for n_ in ((20, 1500) if op in SHALLOW else ((1500, big) if quick else (1500, 100000, big))))):
                for closed in (True, False):
                    if n == big and not closed:
                        continue                                  # the deepest inputs only in their closed form (memory: each is megabytes)
                    depth_cases(op, cl, n, closed, ("plain",) if n >= 100000 else ("plain", "template"), op.decode("latin-1"))
            # alternating with the next construct of the list (thorough: with every other one)
            if quick:
                partners = [openers[(k + 1 + ck.seed) % len(openers)]] if (k + ck.seed) % 3 == 0 else []
            else:
                # thorough: four partners each (every pair would be 3 080 multi-megabyte inputs: 12 GB of text)
                partners = [openers[(k + d + ck.seed) % len(openers)] for d in (1, 7)]
            for op2, cl2 in partners:
                if op in SHALLOW or op2 in SHALLOW:
                    continue
                big2 = min(500000, BIG // (len(op) + len(cl) + len(op2) + len(cl2)), MAXN.get(op, 10 ** 9), MAXN.get(op2, 10 ** 9))
                depth_cases(op + op2, cl2 + cl, big2 if quick else min(big2, 100000), True, ("plain",), op.decode("latin-1") + "+" + op2.decode("latin-1"))
        # (i) corpus files: first pass to get the token spans
        files = sorted(glob.glob(os.path.join(vcheck.REPO, "tests", "**", "*.php"), recursive=True) +
                       glob.glob(os.path.join(vcheck.REPO, "tests", "**", "*.zy"), recursive=True) +
                       glob.glob(os.path.join(vcheck.REPO, "examples", "**", "*.php"), recursive=True) +
                       glob.glob(os.path.join(vcheck.REPO, "examples", "**", "*.zy"), recursive=True))
        ck.cov["corpus_files_total"] = len(files)
        pick = files if not quick else rng.sample(files, min(35, len(files)))
        bases = []
        for f in pick:
            data = open(f, "rb").read()
            limit = 2500 if quick else 8000
            if len(data) > limit:
                data = data[:limit]
            bases.append((data, "template" if f.endswith(".php") else "plain", "corpus", False))
        # (ii) grammar-generated programs (safe to execute)
        for gi in range(120 if quick else 360):
            EXT[0] = gi % 3 == 0
            if rng.random() < 0.25:
                bases.append((b"<html>\n<?php\n" + gen_program(rng).encode() + b"?>\n</html>\n", "template", "generated-t", True))
            else:
                bases.append((gen_program(rng).encode(), "plain", "generated", True))
        for k, (tag, src) in enumerate(heredoc_sources()):
            m = "template" if k % 3 == 0 else "plain"
            cases.append({"hex": ((("<?php\n" if m == "template" else "") + src)).encode().hex(), "mode": m, "origin": "heredoc", "mut": tag,
                          "run": True})
        for tag, src in arraylit_sources():
            cases.append({"hex": ("function f($x) { return $x; } $v1 = 1; $v2 = 2; $v3 = 3; " + src).encode().hex(), "mode": "plain",
                          "origin": "arraylit", "mut": tag, "run": True})
        EXT[0] = False
        first = lexrun.run(binary, [{"hex": d.hex(), "mode": m} for d, m, _, _ in bases])
        for (data, mode, origin, runnable), o in zip(bases, first):
            cases.append({"hex": data.hex(), "mode": mode, "origin": origin, "mut": "none", "run": runnable})
            toks = o.get("toks") or []
            k = (6, 4, 3, 2) if quick else (10, 8, 6, 3)
            for mut, d in token_mutants(rng, data, toks, *k) + byte_mutants(rng, data, 4 if quick else 6):
                cases.append({"hex": d.hex(), "mode": mode, "origin": origin, "mut": mut, "run": runnable})

    ck.log("generated %d inputs" % len(cases))
    reqs = []
    for c in cases:
        kb = max(1, len(c["hex"]) // 2048)
        reqs.append({"hex": c["hex"], "mode": c["mode"], "parse": True, "run": bool(c.get("run")),
                     # parse watchdog: generous, so that it can only fire on a real hang (a parse takes milliseconds; the
                     # parser's own no-progress guard is count-based), never because the machine is loaded.  The run budget is
                     # short: a mutant that loops forever is counted, not reported.
                     # (capped at 60 s: the slowest 3 MB input of the unchanged tree parses in 6 s idle; an uncapped 2 s/KiB would let a
                     # quadratic regression on one long line run for hours instead of being reported)
                     "budget_ms": min(max(30000, 2000 * kb), 60000), "run_budget_ms": 2000,
                     # sources too long for the lexer tie do not need their token list back (the engine reports the
                     # token count and the bracket-balance verdict itself): keeps the thorough tier's memory bounded
                     "maxtoks": 1 if len(c["hex"]) > 8000 else 0})
    # lexrun gives each worker one contiguous chunk: deal the cases out by size so that the multi-megabyte depth inputs
    # do not all land on the same worker
    nproc = 12
    by_size = sorted(range(len(reqs)), key=lambda i: -len(reqs[i]["hex"]))
    perm = [i for k in range(nproc) for i in by_size[k::nproc]]
    pouts = lexrun.run(binary, [reqs[i] for i in perm], nproc=nproc)
    outs = [None] * len(reqs)
    for i, o in zip(perm, pouts):
        outs[i] = o
    # a watchdog that fired is confirmed by running the case again, alone, in a fresh worker: a real hang repeats, a
    # starved worker on a loaded machine does not (the thorough tier runs 12 workers for twenty minutes next to other checks)
    retried = 0
    for i, o in enumerate(outs):
        if o.get("parse") == "timeout":
            if retried >= 4:
                continue          # four confirmed hangs are enough; the others are reported as they are
            retried += 1
            again = lexrun.run(binary, [reqs[i]], nproc=1)
            if again and again[0].get("parse") != "timeout" and not again[0].get("dead"):
                outs[i] = again[0]
    ck.cov["parse_timeouts_retried_alone"] = retried
    ck.log("real lexer + parser (+ interpreter on generated programs) ran")

    # ---- search results: crash / hang / accepted-then-crash
    stats = {"lex-panic": 0, "parse-panic": 0, "parse-timeout": 0, "worker-death": 0, "parse-ok": 0, "parse-error": 0,
             "run-ok": 0, "run-throw": 0, "run-panic": 0, "run-control": 0}
    for c, o in sorted(zip(cases, outs), key=lambda co: len(co[0]["hex"])):
        text = bytes.fromhex(c["hex"]).decode("latin-1")
        rep = {"case": {"hex": c["hex"], "mode": c["mode"], "origin": c["origin"], "mut": c["mut"], "text": text[:400]}, "impl_out":
               {k: v for k, v in o.items() if k != "toks"}}
        mutk = c["mut"].split(":")[0]
        if o.get("exited"):
            stats["script-exit"] = stats.get("script-exit", 0) + 1
            continue
        if o.get("dead"):
            stats["worker-death"] += 1
            rep["clause"] = "the worker process died on this input (fatal error / stack overflow / killed)"
            ck.violation("worker-death:%s:%s" % (c["origin"], mutk), rep)
            continue
        if o.get("lexpanic"):
            stats["lex-panic"] += 1
            rep["clause"] = "the lexer panicked"
            ck.violation("lex-panic:%s:%s" % (c["mode"], panic_class(o["lexpanic"])), rep)
        p = o.get("parse")
        if p == "panic":
            stats["parse-panic"] += 1
            rep["clause"] = "the parser panicked"
            site = (o.get("ppanic") or "").split(" @ ")[-1]
            ck.violation("parse-panic:%s:%s" % (panic_class(o.get("ppanic")), site), rep)
        elif p == "timeout":
            stats["parse-timeout"] += 1
            rep["clause"] = "lexing + parsing did not finish within the watchdog budget"
            ck.violation("parse-timeout:%s:%s" % (c["origin"], c["mut"][:24]), rep)
        elif p == "ok":
            stats["parse-ok"] += 1
            # an accepted source has balanced, properly nested ( ) [ ] { } tokens (no closing clause is missing)
            unb = o.get("unb", "") if o.get("ntoks") else unbalanced(o.get("toks") or [], BR)
            if unb:
                stats["accepted-unbalanced"] = stats.get("accepted-unbalanced", 0) + 1
                rep["clause"] = "the source was accepted although its bracket tokens do not balance: " + unb
                if c["origin"] == "corpus" and (c["mut"].startswith("sub:") or c["mut"].startswith("inner->")):
                    # substitution mutants of corpus files (classes, interfaces, annotations: outside the generated grammar)
                    ck.violation("accepted-unbalanced:corpus-sub:%s" % unb.split(" ")[0], rep)
                else:
                    ck.violation("accepted-unbalanced:%s" % unb.split(" ")[0], rep)
        elif p == "error":
            stats["parse-error"] += 1
            if not o.get("pline"):
                rep["clause"] = "a parse diagnostic without a position"
                ck.violation("error-without-position:%s" % re.sub(r"[^A-Za-z\u4e00-\u9fff]+", "", (o.get("perr") or ""))[:24], rep)
        r = o.get("run")
        if r:
            stats["run-" + r] = stats.get("run-" + r, 0) + 1
            if r == "panic":
                rep["clause"] = "the program was accepted and running it crashed inside the interpreter"
                site = (o.get("rpanic") or "").split(" @ ")[-1]
                ck.violation("accepted-crash:%s:%s" % (panic_class(o.get("rpanic")), site), rep)

    # ---- time bound: parse time must grow at most (about) linearly with the input length.  Each shape is parsed at
    #      length n and 4n (three times each, minimum taken: robust against a loaded machine); a ratio above 9 (a
    #      quadratic step gives 16) with a non-negligible absolute time is a violation.
    if not ck.replay:
        shapes = {
            "sum": lambda n: b"$x = 1" + b" + 1" * n + b";",
            "array": lambda n: b"$x = [" + b"1, " * n + b"1];",
            "statements": lambda n: b"$x = 1;\n" * n,
            "parens-flat": lambda n: b"$x = (1)" + b" + (1)" * n + b";",
            "concat": lambda n: b"$x = 'a'" + b" . 'b'" * n + b";",
            "calls": lambda n: b"f(1);" * n,
            "string": lambda n: b"$x = '" + b"ab" * n + b"';",
            "comment": lambda n: b"// " + b"ab" * n + b"\n$x = 1;",
            "blank-lines": lambda n: b"\n" * n + b"$x = 1;",
            "interpolation": lambda n: b'$x = "' + b"$a " * n + b'";',
            "if-chain": lambda n: b"if ($a) { $b = 1; } " * n,
            "alt-syntax": lambda n: b"<?php " + b"if ($a): $b = 1; endif; " * n,
            "html": lambda n: b"<p>x</p>\n" * n + b"<?php $x = 1;",
            # long FLAT inputs: statements ended by a newline only (no ';', '{', '}' anywhere), and other flat repetitions
            "nl-assign": lambda n: b"".join(b"$a%d = 123\n" % (k % 10) for k in range(n)),
            "nl-assign-t": lambda n: b"<?php\n" + b"".join(b"$a%d = 123\n" % (k % 10) for k in range(n)),
            "nl-calls": lambda n: b"f(1)\n" * n,
            "nl-echo": lambda n: b"echo 1\n" * n,
            "nl-mixed": lambda n: b"$a = 1\necho $a\nf($a)\n$b = $a + 2\nreturn $b\n$c = [1, 2]\n$d = 'x' . 'y'\n" * (n // 7 + 1),
            "nl-idents": lambda n: b"a7 = 123\n" * n,
            "args-long": lambda n: b"f(" + b"1, " * n + b"1);",
            "keyed-array": lambda n: b"$x = [" + b"'k' => 1, " * n + b"'z' => 2];",
            "elseif-ladder": lambda n: b"if ($a) { $b = 1; }" + b" elseif ($a) { $b = 2; }" * n + b" else { $b = 3; }",
            "functions": lambda n: b"".join(b"function g%d($p) { return $p; }\n" % k for k in range(n)),
            "cases": lambda n: b"switch ($a) {\n" + b"".join(b"case %d: $b = 1; break;\n" % k for k in range(n)) + b"}",
            # a chain of minus signs glued to digits: every `-1` is a signed literal that parseTerm splits by rebuilding the token list
            # a long flat list whose elements are plain variables: each one asks whether a multiple assignment follows
            "var-list": lambda n: b"$x = [" + b"$a, " * n + b"1];",
            "minus-chain": lambda n: b"$x = 1" + b"-1" * n + b";",
            "heredoc-nest": lambda n: b"$x = " + b"<<<A\n{$a[" * n + b"1" + b"]}\nA\n" * n + b";",
        }
        n0 = 4000 if quick else 8000
        treq, tkey = [], []
        slow = {"alt-syntax": 4, "interpolation": 4, "heredoc-nest": 2}      # shapes with a large constant: a quarter of the length suffices
        for name, f in sorted(shapes.items()):
            for n in (n0, 4 * n0):
                src = f(n // slow.get(name, 1))
                for rep in range(3):
                    treq.append({"hex": src.hex(), "mode": "template" if name in ("alt-syntax", "html", "nl-assign-t") else "plain", "parse": True,
                                 "run": False, "budget_ms": 120000})
                    tkey.append((name, n))
        touts = lexrun.run(binary, treq, nproc=13)
        best = {}
        for k, o in zip(tkey, touts):
            if o.get("pms") is not None and o.get("parse") in ("ok", "error"):
                best[k] = min(best.get(k, 1e18), o["pms"])
            else:
                best.setdefault(k, None)
        ratios = {}
        for name in sorted(shapes):
            a, b = best.get((name, n0)), best.get((name, 4 * n0))
            if a is None or b is None:
                ck.violation("time:%s:no-answer" % name, {"case": {"shape": name, "n": n0}, "clause": "no parse answer for the timing shape"})
                continue
            if b / max(a, 0.5) > 9.0 and b > 200.0:
                # confirm alone (one process, five repetitions each, minimum): on a loaded machine three parallel
                # repetitions are not enough to rule out a starved worker
                mode = "template" if name in ("alt-syntax", "html", "nl-assign-t") else "plain"
                again = {}
                for n in (n0, 4 * n0):
                    src = shapes[name](n // slow.get(name, 1))
                    rs = lexrun.run(binary, [{"hex": src.hex(), "mode": mode, "parse": True, "run": False, "budget_ms": 120000,
                                              "maxtoks": 1}] * 5, nproc=1)
                    ms = [o["pms"] for o in rs if o.get("pms") is not None and o.get("parse") in ("ok", "error")]
                    again[n] = min(ms) if ms else None
                if again[n0] is not None and again[4 * n0] is not None:
                    a, b = again[n0], again[4 * n0]
            ratios[name] = [round(a, 2), round(b, 2), round(b / max(a, 0.5), 2)]
            if b / max(a, 0.5) > 9.0 and b > 200.0:
                ck.violation("time:%s" % name, {"case": {"shape": name, "n": n0, "text": shapes[name](3).decode("latin-1")},
                                               "impl_out": {"ms_n": a, "ms_4n": b},
                                               "clause": "parse time grows faster than linearly: %.0f ms at n, %.0f ms at 4n" % (a, b)})
        ck.cov["time_ms_n_4n_ratio"] = ratios

    # ---- tie: lexer model vs real lexer on (a size-limited part of) this distribution
    tie = [i for i, c in enumerate(cases) if len(c["hex"]) <= (1000 if quick else 4000) and not outs[i].get("dead")
           and not outs[i].get("exited")]
    cap = 600 if quick else 5000
    if len(tie) > cap:
        tie = sorted(rng.sample(tie, cap))
    order = sorted(tie, key=lambda i: -len(cases[i]["hex"]))
    nshard = 16 if quick else 128
    shards = [[] for _ in range(nshard)]
    for k, i in enumerate(order):
        shards[k % nshard].append(i)
    perm = [i for sh in shards for i in sh]
    bad_perm = ck.eval_cases("cases", HEADER, [coq_case(cases[i], outs[i]) for i in perm], "V.C01.Run.check_case",
                             shard=max(1, (len(perm) + nshard - 1) // nshard))
    ck.log("model evaluated on %d inputs" % len(perm))
    unsup = 0
    for j, cls in sorted(bad_perm.items(), key=lambda kv: len(cases[perm[kv[0]]]["hex"])):
        c, o = cases[perm[j]], outs[perm[j]]
        if 9 in cls:
            unsup += 1
        cls = [x for x in cls if x != 9]
        if not cls:
            continue
        rep = {"case": {"hex": c["hex"], "mode": c["mode"], "origin": c["origin"], "mut": c["mut"],
                        "text": bytes.fromhex(c["hex"]).decode("latin-1")[:300]},
               "impl_out": {"toks": (o.get("toks") or [])[:40], "lexpanic": o.get("lexpanic")},
               "clause": ["model lexer != real lexer" if x == 1 else "real lexer panicked" for x in cls]}
        if 6 in cls:
            ck.violation("lex-panic:%s:%s" % (c["mode"], panic_class(o.get("lexpanic"))), rep)
        else:
            ck.broken.append("correspondence:C01.tokens")
            ck.violation("tie:%s:%s" % (c["mode"], c["mut"].split(":")[0]), rep)

    # ---- statement-level tie: the Coq statement model (coq/Stmt) vs the real parser, tree against tree, on the
    #      generated core programs and token-level mutants of them (deletion, duplication, truncation, insertion)
    stie = {"cases": 0, "unrepresentable": 0, "unsup": 0}
    if not ck.replay:
        progs = [bytes.fromhex(c["hex"]).decode("latin-1") for c in cases if c["origin"] == "generated" and c["mut"] == "none"]
        progs = progs[:90] if quick else progs[:270]
        first = stmttie.run_engine(stmt_bin, progs)
        ssrcs = []
        INS = ["(", ")", "{", "}", "[", "]", ",", ";", "=>", ":", "?", "+", "-", "++", "=", "if", "else", "case", "echo", "new",
               "f", "foo", "$v0", "1", '"s"', "catch", "while", "return", "!", "*", ".", "switch", "default", "for", "throw"]
        for pr, o in zip(progs, first):
            ssrcs.append(pr)
            toks = [t[1] if t[0] not in ("true", "false", "null") else t[0] for t in (o.get("toks") or [])]
            for _ in range(9 if quick else 16):
                if not toks:
                    break
                k = rng.randrange(5)
                i = rng.randrange(len(toks))
                t2 = list(toks)
                if k == 0:
                    t2 = t2[:i]
                elif k == 1:
                    del t2[i]
                elif k == 2:
                    t2.insert(i, t2[i])
                elif k == 3:
                    t2[i] = rng.choice(INS)              # substitution
                else:
                    t2.insert(i, rng.choice(INS))
                ssrcs.append(" ".join(t2))
        # array / object literals with a missing key or value at every element position (positional, keyed, mixed, nested)
        alit = arraylit_sources()
        ssrcs += ["function f ( $x ) { return $x ; } $v1 = 1 ; $v2 = 2 ; $v3 = 3 ; " + src for _, src in alit]
        souts = stmttie.run_engine(stmt_bin, ssrcs)
        sterms, sidx = [], []
        for i, o in enumerate(souts):
            t = stmttie.coq_case(o)
            if t is None:
                stie["unrepresentable"] += 1
                continue
            sterms.append(t)
            sidx.append(i)
        sbad = ck.eval_cases("stmt", stmttie.HEADER, sterms, "check_case", shard=max(1, len(sterms) // 16 + 1))
        stie["cases"] = len(sterms)
        for j, cls in sorted(sbad.items(), key=lambda kv: len(ssrcs[sidx[kv[0]]])):
            src, o = ssrcs[sidx[j]], souts[sidx[j]]
            if 2 in cls:
                # the accepted-is-complete clause on the REAL parser's own tree
                stie["accepted_incomplete"] = stie.get("accepted_incomplete", 0) + 1
                ck.violation("accepted-incomplete", {"case": {"text": src}, "impl_out": {"tree": o.get("tree")},
                                                     "clause": "the real parser accepted a program whose tree has a missing operand or clause (nil)"})
            cls = [x for x in cls if x != 2]
            if 9 in cls:
                stie["unsup"] += 1
                continue
            if not cls:
                continue
            ck.broken.append("correspondence:C01.statements")
            ck.violation("stmt-tie", {"case": {"text": src}, "impl_out": {k: o.get(k) for k in ("tree", "perr", "panic")},
                                      "clause": "statement model != real parser (program tree / error)"})
        ck.log("statement model evaluated on %d programs and mutants" % len(sterms))
    ck.cov["statement_tie"] = stie

    origins = {}
    muts = {}
    for c in cases:
        origins[c["origin"]] = origins.get(c["origin"], 0) + 1
        muts[c["mut"].split(":")[0]] = muts.get(c["mut"].split(":")[0], 0) + 1
    ck.samples = [bytes.fromhex(c["hex"]).decode("latin-1")[:100] for c in cases[50:52] + cases[-3:]]
    ck.cov["input_origins"] = origins
    ck.cov["mutation_kinds"] = muts
    ck.cov["search_outcomes"] = stats
    ck.cov["tie_inputs"] = len(perm)
    ck.cov["model_unsupported_inputs"] = unsup
    distinct = len(set((c["hex"], c["mode"]) for c in cases))
    nontriv = len(set((c["hex"], c["mode"]) for c, o in zip(cases, outs) if (o.get("ntoks") or len(o.get("toks") or [])) >= 3))
    ck.finish(level="proof", evaluations=len(cases), distinct_nontrivial=nontriv,
              rule="every source of 1 and 2 tokens and a seeded sample (thorough: all) of 3-token sources over a 48-token alphabet; "
                   "a seeded sample (thorough: all) of the corpus files (first 2500 bytes quick) and grammar-generated side-effect-free "
                   "programs, each with token-boundary prefixes, single-token deletions and duplications (spans from the real lexer) "
                   "and byte mutations; all through the full real parser under a watchdog, generated programs and their mutants "
                   "also executed; non-trivial = distinct input with at least three tokens",
              traces=len(perm) - unsup + stie["cases"] - stie["unsup"])
