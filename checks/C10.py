"""C10 — VM registries stay consistent under concurrent definition and lookup.
Proof: coq/C10 — generic lock-discipline theorem (Lock.v) + fine-grained machine of the registry
methods and its linearizability w.r.t. the sequential registry spec.
Tie: (i) the lock table is REGENERATED from /repo/runtime/vm.go by a go/ast walker on every run and the
obligations `well_locked vm_table = true` / `vm_skeleton_ok` are re-checked by coqc against the generic
theorem; (ii) sequential op histories on the real VM vs the sequential spec; (iii) `go build -race`
stress (child processes, GOMAXPROCS sweep) and recorded concurrent histories checked for one winner,
real-time visibility and (small ones) full linearizability against the spec."""
import itertools
import json
import os
import re
import subprocess
import vcheck
import vworker
from vcheck import coq_string, coq_list, coq_z

HEADER = "From V.C10 Require Import Spec Model Lock Run.\nOpen Scope string_scope.\n"
NAMES = ["A", "a", "Ab", "aB", "AB", "f", "\\f", "App\\P"]   # Ab/aB/AB: two registered spellings + a third one looked up (minimum-key rule)
FILES = ["/nonexistent-c10/a.php", "/nonexistent-c10/b.php"]
KIND = {"c": "KC", "i": "KI", "f": "KF"}
# Go method -> engine op that drives it (for biasing the stress when the table obligation fails)
METHOD_OPS = {"AddClass": "add:c", "AddInterface": "add:i", "AddFunc": "add:f", "GetClass": "get:c",
              "findClassCaseInsensitive": "get:c", "GetInterface": "get:i", "GetFunc": "get:f",
              "SetConstant": "setconst", "GetConstant": "getconst", "EnsureGlobalZVal": "global",
              "SetPhpFileCache": "setfile", "GetPhpFileCache": "getfile", "EnterCall": "depth", "LeaveCall": "depth",
              "SetExceptionHandler": "handler", "GetExceptionHandler": "handler", "ThrowControl": "handler",
              "AddShutdownCallback": "shutdown", "RunShutdownCallbacks": "shutdown", "shutdownSnapshot": "shutdown",
              "RegisterCompiledFile": "compiledfile", "RegisterGlobalContext": "globalctx"}


def coq_call(o, idx):
    k = o["op"]
    if k == "add":
        return "CAdd %s %s %d" % (KIND[o["kind"]], coq_string(o["name"]), o["file"])
    if k == "get":
        return "CGet %s %s" % (KIND[o["kind"]], coq_string(o["name"]))
    if k == "setconst":
        return "CSetConst %s %d" % (coq_string(o["name"]), o["val"])
    if k == "getconst":
        return "CGetConst %s" % coq_string(o["name"])
    if k == "global":
        return "CEnsureGlobal %s %d" % (coq_string(o["name"]), idx)
    if k == "setfile":
        return "CSetFile %s" % coq_string(o["name"])
    if k == "getfile":
        return "CGetFile %s" % coq_string(o["name"])
    raise ValueError(k)


def coq_obs(r):
    return "{| o_r := %d; o_d := %s |}" % (r["r"], coq_z(r["d"]))


def rand_op(rng, nextfile, used, scalars=False, names=NAMES):
    r = rng.random()
    if scalars and r < 0.16:
        return {"op": rng.choice(["depth", "handler", "shutdown", "compiledfile", "globalctx"]), "val": rng.randint(1, 5), "name": rng.choice(FILES)}
    if r < 0.40:
        if used and rng.random() < 0.25:
            f = rng.choice(used)
        else:
            f = nextfile[0]
            nextfile[0] += 1
            used.append(f)
        return {"op": "add", "kind": rng.choice("ccif"), "name": rng.choice(names), "file": f}
    if r < 0.70:
        return {"op": "get", "kind": rng.choice("ccif"), "name": rng.choice(names)}
    if r < 0.78:
        return {"op": "setconst", "name": rng.choice(["K", "L"]), "val": rng.randint(1, 9)}
    if r < 0.84:
        return {"op": "getconst", "name": rng.choice(["K", "\\K", "L"])}
    if r < 0.88:
        return {"op": "global", "name": rng.choice(["g", "h"])}
    if r < 0.905:
        # a file with a top-level $g is loaded: RegisterGlobalContext.  Not a call of the registry model: it produces no
        # observation of its own and is left out of the Coq history; what it may NOT do is change the cell `global` returns
        return {"op": "regglobal", "name": rng.choice(["g", "h"])}
    if r < 0.95:
        return {"op": "setfile", "name": rng.choice(FILES)}
    return {"op": "getfile", "name": rng.choice(FILES)}


def run_lines(cmd, lines, timeout=400):
    """one JSON line in, one out; a dead or hanging worker is attributed to its line (vworker) and restarted"""
    return vworker.run_worker(cmd, [json.loads(l) for l in lines], per_case_timeout=timeout), 0, ""


def death_violation(ck, mode, case, info):
    ck.violation("worker-death:%s:%s" % (mode, info.get("signature")), {"mode": mode, "case": case, "impl_out": info,
                 "clause": "the engine process died or hung while running this case (crash / deadlock)"})


def hang_violation(ck, mode, case, o):
    """the stress child saw no op complete for 3 s: a deadlock inside the implementation; `hang` = the op every
    unfinished goroutine is stuck in"""
    if o.get("hang") is None:
        return False
    stuck = o.get("hang") or []
    kinds = sorted(set(str((h.get("op") or {}).get("op")) for h in stuck))
    ck.violation("hang:%s:%s" % (mode, "+".join(kinds[:5])), {"mode": mode, "case": case, "impl_out": {"stuck": stuck[:16], "ops_completed": o.get("ops_completed")},
                 "clause": "every registry call returns: no op completed for 3 s while these calls were in flight (deadlock)"})
    return True


def gen_threads(rng, nthreads, nops, scalars, bias=None):
    nextfile, used = [1], []
    ths = []
    for _ in range(nthreads):
        ops = []
        for _ in range(nops):
            if bias and rng.random() < 0.6:
                b = rng.choice(bias)
                if ":" in b:
                    kind = b.split(":")[1]
                    if b.startswith("add"):
                        f = nextfile[0]
                        nextfile[0] += 1
                        ops.append({"op": "add", "kind": kind, "name": rng.choice(NAMES), "file": f})
                    else:
                        ops.append({"op": "get", "kind": kind, "name": rng.choice(NAMES)})
                elif b in ("depth", "handler", "shutdown", "compiledfile", "globalctx"):
                    ops.append({"op": b, "val": 1, "name": FILES[0]})
                else:
                    o = rand_op(rng, nextfile, used)
                    o["op"] = b if b in ("global", "setfile", "getfile", "setconst", "getconst") else o["op"]
                    o.setdefault("name", rng.choice(["g", "K"]) if b in ("global", "setconst", "getconst") else FILES[0])
                    o.setdefault("val", 1)
                    ops.append(o)
            else:
                ops.append(rand_op(rng, nextfile, used, scalars=scalars))
        ths.append(ops)
    return ths


def coq_conc(cfg, res):
    ths = []
    for ops, rs in zip(cfg["threads"], res):
        evs = []
        for i, (o, r) in enumerate(zip(ops, rs)):
            if o["op"] == "regglobal":
                continue          # no observation of its own (see rand_op)
            evs.append("{| e_c := %s; e_o := %s; e_t0 := %d; e_t1 := %d |}" % (coq_call(o, 0), coq_obs(r), r.get("t0", 0), r.get("t1", 0)))
        ths.append(coq_list(evs))
    return coq_list(ths)


def main(ck):
    rng = ck.rng
    ck.trusted += [
        "sync.RWMutex modelled as a reader/writer lock (assumed); Go maps as association lists",
        "the go/ast walker harness/cmd/c10/walker.go (syntactic; fails closed: unknown constructs -> AOpaque, on which well_locked is false); its flattening rule is stated in the file header",
        "the Go memory model and the race detector are not modelled: `go build -race` stress is validation/search, not proof",
        "harness/cmd/c10 (Go) and checks/C10.py (generators, Coq term printer)",
        "GetOrLoadClass/GetOrLoadInterface/LoadPkg/LoadAndRun are sequences of the atomic methods with an unlocked autoload in between (thread programs express this); their autoload part is not in the concurrent tie",
    ]
    ck.prove(deps=["C12"])
    binary, out = ck.go_build("c10")
    racebin, out2 = ck.go_build("c10", race=True)
    if binary is None or racebin is None:
        ck.broken.append("harness-build")
        ck.finish(evaluations=0, distinct_nontrivial=0, rule="harness did not build")

    # ---------------------------------------------------------------- (i) regenerated lock table + obligations
    rc, table = vcheck.sh([binary, "walk", vcheck.REPO])
    ill, skel_bad = [], []
    if rc != 0:
        ck.log("walker failed:\n" + table[-1500:])
        ck.broken.append("translator:lock-walker")
        table = None
    else:
        body = table[table.index("Definition vm_fields"):]
        pre = "(* GENERATED — lock table of runtime/vm.go *)\nFrom V.C10 Require Import Spec Lock Model Proofs Run.\nOpen Scope string_scope.\n\n"
        diag = os.path.join(ck.bdir, "LockDiag.v")
        open(diag, "w").write(pre + body + "\nSet Printing Width 100000.\n"
                              "Definition ill := Eval vm_compute in ill_locked vm_table.\nPrint ill.\n"
                              "Definition skel := Eval vm_compute in skeleton_check vm_fields vm_table.\nPrint skel.\n")
        rc, o = ck.coqc(diag, cwd=ck.bdir, timeout=300)
        m = re.search(r"ill\s*=\s*\[(.*?)\]\s*:\s*list string", o, re.S)
        m2 = re.search(r"skel\s*=\s*\[(.*?)\]\s*:\s*list string", o, re.S)
        if rc != 0 or not m or not m2:
            ck.log("lock table diagnostics did not compile:\n" + o[-2000:])
            ck.broken.append("translator:lock-table-does-not-typecheck")
        else:
            ill = re.findall(r'"([^"]+)"', m.group(1))
            skel_bad = re.findall(r'"([^"]+)"', m2.group(1))
        obl = os.path.join(ck.bdir, "LockObligations.v")
        open(obl, "w").write(pre + body + "\n"
                             "Lemma vm_table_well_locked : well_locked vm_table = true.\nProof. vm_compute. reflexivity. Qed.\n"
                             "Theorem vm_race_free : forall progs sched, Forall (from_table vm_table) progs -> ~ race (LockDiscipline.run (init_state progs) sched).\n"
                             "Proof. exact (well_locked_race_free_l vm_table vm_table_well_locked). Qed.\n"
                             "Theorem vm_mutual_exclusion : forall progs sched, Forall (from_table vm_table) progs -> excl_alone (LockDiscipline.run (init_state progs) sched).\n"
                             "Proof. exact (well_locked_mutex_l vm_table vm_table_well_locked). Qed.\n"
                             "Lemma vm_skeleton_ok : skeleton_check vm_fields vm_table = [].\nProof. vm_compute. reflexivity. Qed.\n"
                             "Print Assumptions vm_race_free.\n")
        rc, o = ck.coqc(obl, cwd=ck.bdir, timeout=300)
        ck.obligations += 4
        ck.checker_cmds.append("coqc .build/C10/LockObligations.v (regenerated from runtime/vm.go by `c10 walk`)")
        if rc == 0:
            ck.discharged += 4
            ck.theorems += ["vm_table_well_locked", "vm_race_free", "vm_mutual_exclusion", "vm_skeleton_ok"]
        else:
            ck.log("regenerated obligations FAILED; ill-locked methods: %s; model/table skeleton mismatch: %s" % (ill, skel_bad))
            ck.broken.append("obligation:well_locked vm_table (ill-locked: %s; skeleton: %s)" % (",".join(ill), ",".join(skel_bad)))
            ck.coq_log_tail = o[-1500:]
        ck.cov["lock_table_methods"] = len(re.findall(r'^\s*\[?\s*\("', body, re.M))
        ck.cov["ill_locked_methods"] = ill
        ck.cov["skeleton_mismatch"] = skel_bad

    # the same for runtime.TempVM (a request's goroutines share it when the handler spawns): every method of *TempVM
    rc, ttable = vcheck.sh([binary, "walk", vcheck.REPO, "runtime", "TempVM", "vm_temp.go"]) if binary else (1, "")
    if rc != 0 or "Definition vm_fields" not in ttable:
        ck.log("walker failed on TempVM:\n" + ttable[-800:])
        ck.broken.append("translator:lock-walker(TempVM)")
    else:
        tbody = ttable[ttable.index("Definition vm_fields"):].replace("vm_fields", "temp_fields").replace("vm_map_fields", "temp_map_fields").replace("vm_table", "temp_table")
        tobl = os.path.join(ck.bdir, "TempLockObligations.v")
        open(tobl, "w").write("(* GENERATED — lock table of runtime/vm_temp.go (type TempVM) *)\nFrom Coq Require Import List String.\nImport ListNotations.\nFrom V.Common Require Import LockDiscipline.\nOpen Scope string_scope.\n\n" + tbody +
                              "\nSet Printing Width 100000.\nDefinition ill := Eval vm_compute in ill_locked temp_table.\nPrint ill.\n"
                              "Lemma temp_table_well_locked : well_locked temp_table = true.\nProof. vm_compute. reflexivity. Qed.\n"
                              "Theorem temp_race_free : forall progs sched, Forall (from_table temp_table) progs -> ~ race (LockDiscipline.run (init_state progs) sched).\n"
                              "Proof. exact (well_locked_race_free_l temp_table temp_table_well_locked). Qed.\n")
        rc, o = ck.coqc(tobl, cwd=ck.bdir, timeout=300)
        ck.obligations += 2
        m = re.search(r"ill\s*=\s*\[(.*?)\]\s*:\s*list string", o, re.S)
        till = re.findall(r'"([^"]+)"', m.group(1)) if m else []
        ck.cov["tempvm_ill_locked_methods"] = till
        if rc == 0:
            ck.discharged += 2
            ck.theorems += ["temp_table_well_locked", "temp_race_free"]
        else:
            ck.log("regenerated TempVM lock obligations FAILED; ill-locked: %s" % till)
            ck.broken.append("obligation:well_locked temp_table (ill-locked: %s)" % ",".join(till))
            ck.coq_log_tail = o[-1500:]

    # ---------------------------------------------------------------- (ii) sequential tie
    seqs = []
    if ck.replay:
        rp = json.load(open(ck.replay))
        if rp.get("mode") == "seq":
            seqs = [rp["case"]]
    else:
        nseq = 2500 if ck.tier == "quick" else 30000
        for _ in range(nseq):
            nextfile, used = [1], []
            seqs.append({"ops": [rand_op(rng, nextfile, used) for _ in range(rng.randint(1, 14))]})
        # the globals registry, "one cell per name, ever": every order of global / file-with-top-level-variable / global
        for pat in itertools.product(["global", "regglobal"], repeat=4):
            for nm in (["g", "g", "g", "g"], ["g", "h", "g", "h"]):
                seqs.append({"ops": [{"op": k, "name": n} for k, n in zip(pat, nm)] + [{"op": "global", "name": "g"}, {"op": "global", "name": "h"}]})
    bad = {}
    terms = []
    if seqs:
        outs, rc, err = run_lines([binary, "seq"], [json.dumps(c) for c in seqs])
        if True:
            live = []
            for c, o in zip(seqs, outs):
                if "worker_death" in o:
                    death_violation(ck, "seq", c, o["worker_death"])
                else:
                    live.append((c, o))
            seqs = [c for c, o in live]
            outs = [o for c, o in live]
            for c, o in zip(seqs, outs):
                keep = [i for i, x in enumerate(c["ops"]) if x["op"] != "regglobal"]
                terms.append("(%s, %s)" % (coq_list(coq_call(c["ops"][i], i) for i in keep),
                                           coq_list(coq_obs(o["res"][i]) for i in keep)))
            bad = ck.eval_cases("seq", HEADER, terms, "check_seq", shard=max(100, len(terms) // 16 + 1))
    cl = {1: "sequential spec vs implementation", 2: "one_winner_per_name(impl)", 3: "success_visible_later(impl)", 6: "panic"}
    for j, cls in sorted(bad.items(), key=lambda kv: len(seqs[kv[0]]["ops"])):
        kinds = sorted(set(o["op"] + ":" + o.get("kind", "") for o in seqs[j]["ops"]))
        if cls == [1]:
            ck.broken.append("correspondence:C10.seq")
        ck.violation("seq:clauses=%s" % "".join(map(str, cls)), {"mode": "seq", "case": seqs[j], "impl_out": outs[j], "clause": [cl[x] for x in cls], "ops": kinds})

    # the class-path manager (parser/class_path_manager.go, shared by every parser clone and every VM): its guarded state
    # is the TREE hanging off `root` (walker option deep=root: accesses through locals derived from m.root count);
    # entries = the exported methods (helpers rely on the caller's lock and are inlined).  FindClassFile inserts the
    # sub-directory nodes it discovers: it is a WRITER (seeded change C10-5 downgraded it to RLock).
    rc, ctable = vcheck.sh([binary, "walk", vcheck.REPO, "parser", "DefaultClassPathManager", "class_path_manager.go", "deep=root", "entries=exported"]) if binary else (1, "")
    if rc != 0 or "Definition vm_fields" not in ctable:
        ck.log("walker failed on DefaultClassPathManager:\n" + ctable[-800:])
        ck.broken.append("translator:lock-walker(DefaultClassPathManager)")
    else:
        cbody = ctable[ctable.index("Definition vm_fields"):].replace("vm_fields", "cpm_fields").replace("vm_map_fields", "cpm_map_fields").replace("vm_table", "cpm_table")
        cobl = os.path.join(ck.bdir, "ClassPathLockObligations.v")
        open(cobl, "w").write("(* GENERATED — lock table of parser/class_path_manager.go (type DefaultClassPathManager) *)\nFrom Coq Require Import List String.\nImport ListNotations.\nFrom V.Common Require Import LockDiscipline.\nOpen Scope string_scope.\n\n" + cbody +
                              "\nSet Printing Width 100000.\nDefinition ill := Eval vm_compute in ill_locked cpm_table.\nPrint ill.\n"
                              "Lemma cpm_table_well_locked : well_locked cpm_table = true.\nProof. vm_compute. reflexivity. Qed.\n"
                              "Theorem cpm_race_free : forall progs sched, Forall (from_table cpm_table) progs -> ~ race (LockDiscipline.run (init_state progs) sched).\n"
                              "Proof. exact (well_locked_race_free_l cpm_table cpm_table_well_locked). Qed.\n"
                              "(* not vacuous: the lookup really is recorded as a writer of the tree *)\n"
                              "Lemma cpm_lookup_writes : existsb (fun e => andb (String.eqb (fst e) \"FindClassFile\") (existsb (fun a => match a with AWrite _ => true | _ => false end) (snd e))) cpm_table = true.\n"
                              "Proof. vm_compute. reflexivity. Qed.\n")
        rc, o = ck.coqc(cobl, cwd=ck.bdir, timeout=300)
        ck.obligations += 3
        ck.checker_cmds.append("coqc .build/C10/ClassPathLockObligations.v (regenerated from parser/class_path_manager.go by `c10 walk ... deep=root entries=exported`)")
        m = re.search(r"ill\s*=\s*\[(.*?)\]\s*:\s*list string", o, re.S)
        cill = re.findall(r'"([^"]+)"', m.group(1)) if m else []
        ck.cov["classpath_ill_locked_methods"] = cill
        if rc == 0:
            ck.discharged += 3
            ck.theorems += ["cpm_table_well_locked", "cpm_race_free", "cpm_lookup_writes"]
        else:
            ck.log("regenerated class-path manager lock obligations FAILED; ill-locked: %s\n%s" % (cill, o[-800:]))
            ck.broken.append("obligation:well_locked cpm_table (ill-locked: %s)" % ",".join(cill))
            ck.coq_log_tail = o[-1500:]

    # the process-wide spl-autoload callback list of the same file (package-level variables autoloadMu / autoload and the
    # package-level functions around them; walker package mode `-` with vars=, mu=): the slice's backing array is
    # guarded state (deep=autoload): a header that leaves the lock un-copied and is then iterated is a read outside
    # the lock (seeded change C10-7: CallAutoLoad iterating autoloadSnapshot() while RemoveAutoLoad filters in place)
    rc, atable = vcheck.sh([binary, "walk", vcheck.REPO, "parser", "-", "class_path_manager.go", "vars=autoloadMu,autoload", "mu=autoloadMu", "deep=autoload", "entries=exported"]) if binary else (1, "")
    if rc != 0 or "Definition vm_fields" not in atable or '"CallAutoLoad"' not in atable:
        ck.log("walker failed on the autoload callback list:\n" + atable[-800:])
        ck.broken.append("translator:lock-walker(autoload callbacks)")
    else:
        abody = atable[atable.index("Definition vm_fields"):].replace("vm_fields", "al_fields").replace("vm_map_fields", "al_map_fields").replace("vm_table", "al_table")
        aobl = os.path.join(ck.bdir, "AutoloadListLockObligations.v")
        open(aobl, "w").write("(* GENERATED — lock table of the autoload callback list in parser/class_path_manager.go *)\nFrom Coq Require Import List String.\nImport ListNotations.\nFrom V.Common Require Import LockDiscipline.\nOpen Scope string_scope.\n\n" + abody +
                              "\nSet Printing Width 100000.\nDefinition ill := Eval vm_compute in ill_locked al_table.\nPrint ill.\n"
                              "Lemma al_table_well_locked : well_locked al_table = true.\nProof. vm_compute. reflexivity. Qed.\n"
                              "Theorem al_race_free : forall progs sched, Forall (from_table al_table) progs -> ~ race (LockDiscipline.run (init_state progs) sched).\n"
                              "Proof. exact (well_locked_race_free_l al_table al_table_well_locked). Qed.\n"
                              "(* the callbacks themselves run outside the lock *)\n"
                              "Theorem al_no_callout_under_lock : forall progs sched, Forall (from_table al_table) progs -> forall i h r, nth_error (LockDiscipline.run (init_state progs) sched) i = Some (h, AExt :: r) -> h = Free.\n"
                              "Proof. exact (well_locked_ext_free_l al_table al_table_well_locked). Qed.\n")
        rc, o = ck.coqc(aobl, cwd=ck.bdir, timeout=300)
        ck.obligations += 3
        ck.checker_cmds.append("coqc .build/C10/AutoloadListLockObligations.v (regenerated from parser/class_path_manager.go by `c10 walk ... - ... vars=autoloadMu,autoload`)")
        m = re.search(r"ill\s*=\s*\[(.*?)\]\s*:\s*list string", o, re.S)
        aill = re.findall(r'"([^"]+)"', m.group(1)) if m else []
        ck.cov["autoload_list_ill_locked_functions"] = aill
        if rc == 0:
            ck.discharged += 3
            ck.theorems += ["al_table_well_locked", "al_race_free", "al_no_callout_under_lock"]
        else:
            ck.log("regenerated autoload-list lock obligations FAILED; ill-locked: %s\n%s" % (aill, o[-800:]))
            ck.broken.append("obligation:well_locked al_table (ill-locked: %s)" % ",".join(aill))
            ck.coq_log_tail = o[-1500:]

    # the SPAN of the per-VM load lock (runtime/load_lock.go: loads.enter() / loads.leave()) in VM.LoadAndRun and
    # TempVM.LoadAndRun: the walker's path mode forks every `if` that contains a lock operation or a return, one table
    # entry per execution path; enter/leave are the lock operations, the only call-outs are the runs of user code
    # (GetValue / Call); field accesses are not recorded.  Obligations: every path is well locked -- in particular NO
    # path runs user code while it holds the load lock (seeded change C10-15) -- and every path takes the lock before
    # anything else (the test of the "file loaded" mark is inside the lock on every path: seeded change C10-4)
    span_tables = []
    for typ, fil in (("VM", "vm.go"), ("TempVM", "vm_temp.go")):
        rc, t = vcheck.sh([binary, "walk", vcheck.REPO, "runtime", typ, fil, "mu=loads", "paths", "noaccess", "ext=GetValue,Call", "only=LoadAndRun"]) if binary else (1, "")
        if rc != 0 or "Definition vm_table" not in t or "LoadAndRun#" not in t:
            ck.log("walker (path mode) failed on %s.LoadAndRun:\n%s" % (typ, t[-600:]))
            ck.broken.append("translator:lock-walker(load-lock span %s)" % typ)
            continue
        span_tables.append((typ, t[t.index("Definition vm_table"):].replace("vm_table", "span_%s" % typ.lower())))
    if len(span_tables) == 2:
        sobl = os.path.join(ck.bdir, "LoadLockSpanObligations.v")
        body = "(* GENERATED — execution paths of VM.LoadAndRun / TempVM.LoadAndRun w.r.t. the load lock *)\nFrom Coq Require Import List String.\nImport ListNotations.\nFrom V.Common Require Import LockDiscipline.\nOpen Scope string_scope.\n\n"
        body += "\n".join(t for _, t in span_tables)
        body += ("\nDefinition span_all : table := (span_vm ++ span_tempvm)%list.\nSet Printing Width 100000.\n"
                 "Definition ill := Eval vm_compute in ill_locked span_all.\nPrint ill.\n"
                 "Lemma load_lock_span_well_locked : well_locked span_all = true.\nProof. vm_compute. reflexivity. Qed.\n"
                 "(* no path of LoadAndRun runs user code (AExt) while it holds the load lock *)\n"
                 "Theorem load_lock_not_held_over_user_code : forall progs sched, Forall (from_table span_all) progs -> forall i h r, nth_error (LockDiscipline.run (init_state progs) sched) i = Some (h, AExt :: r) -> h = Free.\n"
                 "Proof. exact (well_locked_ext_free_l span_all load_lock_span_well_locked). Qed.\n"
                 "(* every path enters the lock first, and some path does run user code (the table is not empty of call-outs) *)\n"
                 "Lemma load_lock_taken_first : forallb (fun e => match snd e with ALock :: _ => true | _ => false end) span_all = true.\nProof. vm_compute. reflexivity. Qed.\n"
                 "Lemma load_lock_span_nonvacuous : andb (existsb (fun e => existsb (fun a => match a with AExt => true | _ => false end) (snd e)) span_vm) (existsb (fun e => existsb (fun a => match a with AExt => true | _ => false end) (snd e)) span_tempvm) = true.\nProof. vm_compute. reflexivity. Qed.\n")
        open(sobl, "w").write(body)
        rc, o = ck.coqc(sobl, cwd=ck.bdir, timeout=300)
        ck.obligations += 4
        ck.checker_cmds.append("coqc .build/C10/LoadLockSpanObligations.v (regenerated by `c10 walk ... mu=loads paths noaccess ext=GetValue,Call only=LoadAndRun`)")
        m = re.search(r"ill\s*=\s*\[(.*?)\]\s*:\s*list string", o, re.S)
        sill = re.findall(r'"([^"]+)"', m.group(1)) if m else []
        ck.cov["load_lock_span_ill_paths"] = sill
        ck.cov["load_lock_span_paths"] = sum(t.count("LoadAndRun#") for _, t in span_tables)
        if rc == 0:
            ck.discharged += 4
            ck.theorems += ["load_lock_span_well_locked", "load_lock_not_held_over_user_code", "load_lock_taken_first", "load_lock_span_nonvacuous"]
        else:
            ck.log("regenerated load-lock span obligations FAILED; ill-locked paths: %s\n%s" % (sill, o[-800:]))
            ck.broken.append("obligation:load-lock span (ill-locked paths: %s)" % ",".join(sill))
            ck.coq_log_tail = o[-1500:]

    # ---------------------------------------------------------------- (iii) race stress + concurrent histories
    bias = sorted(set(METHOD_OPS[m] for m in ill if m in METHOD_OPS)) or None
    stress = []
    if ck.replay:
        rp = json.load(open(ck.replay))
        if rp.get("mode") == "stress":
            stress = [rp["case"]]
    else:
        shapes = [(2, 300, 1), (2, 1000, 2), (4, 500, 4), (4, 1000, 16), (16, 200, 2), (16, 400, 16), (8, 300, 1), (3, 2000, 4)]
        if ck.tier != "quick":
            shapes += [(n, k, g) for n in (2, 4, 8, 16) for k in (100, 1000, 5000) for g in (1, 2, 4, 16)]
        for (n, k, g) in shapes:
            stress.append({"threads": gen_threads(rng, n, k, True, bias), "gomaxprocs": g, "stamps": False, "repeat": 2})
    souts, rc, err = run_lines([racebin, "stress"], [json.dumps(c) for c in stress]) if stress else ([], 0, "")
    nrace = 0
    for c, o in zip(stress, souts):
        if "worker_death" in o:
            death_violation(ck, "stress", dict(c, threads=[t[:40] for t in c["threads"]]), o["worker_death"])
            continue
        if hang_violation(ck, "stress", c if sum(map(len, c["threads"])) < 400 else dict(c, threads=[t[:40] for t in c["threads"]]), o):
            continue
        if o.get("exit", 0) != 0 or o.get("race") or o.get("fatal"):
            nrace += 1
            fns = sorted(set(re.findall(r"runtime\.\(\*VM\)\.(\w+)", " ".join(o.get("report", [])))))
            key = "race:%s:%s" % (o.get("fatal", "data race" if o.get("race") else "exit %s" % o.get("exit")).replace(" ", "-"), "+".join(fns[:4]))
            small = dict(c, threads=[t[:40] for t in c["threads"]])
            ck.violation(key, {"mode": "stress", "case": small, "note": "thread programs truncated to 40 ops in this replay; regenerate with the seed for the full run",
                               "impl_out": {k: o.get(k) for k in ("exit", "race", "fatal", "report")},
                               "clause": "no crash / no data race (well_locked_race_free instantiated to the regenerated table)"})

    # ---------------------------------------------------------------- (iv) concurrent AUTOLOAD through GetOrLoad*/LoadPkg
    # Sequentially every one of these calls succeeds (the class path has the file).  GetOrLoad* are sequences of the
    # atomic methods with an unlocked load in between; whether the whole call still behaves atomically is checked here.
    AUTO = [{"name": "P", "kind": "c"}, {"name": "Q", "kind": "i"}, {"name": "S", "kind": "c"}]
    want = {"App\\P": 1000, "App\\Q": 1001, "App\\S": 1002}
    auto_cfgs = []
    if ck.replay:
        rp = json.load(open(ck.replay))
        if rp.get("mode") == "autoload":
            auto_cfgs = [rp["case"]]
    else:
        for (n, g) in ([(2, 2), (4, 4), (8, 16)] if ck.tier == "quick" else [(n, g) for n in (2, 4, 8, 16) for g in (1, 2, 4, 16)]):
            ths = []
            for _ in range(n):
                t = [{"op": "goc", "name": "App\\P"}, {"op": "goi", "name": "App\\Q"}, {"op": "pkg", "name": "App\\S"},
                     {"op": rng.choice(["goc", "pkg"]), "name": rng.choice(["App\\P", "App\\S"])}]
                rng.shuffle(t)
                ths.append(t)
            # one more goroutine keeps registering namespaces on the shared class-path manager (AddNamespace vs FindClassFile)
            ths.append([{"op": "addns", "name": "Extra%d" % k} for k in range(4)])
            auto_cfgs.append({"autoload": AUTO, "threads": ths, "gomaxprocs": g, "repeat": 25, "keepall": True})
        # many DISTINCT sub-namespaces nobody registered or visited: App\S<k>\Item is found by discovering directory S<k>
        # (the class-path manager inserts the node while looking up): all goroutines look up different ones at once
        for (n, g) in ([(8, 4), (16, 16)] if ck.tier == "quick" else [(n, g) for n in (4, 8, 16, 32) for g in (2, 4, 16)]):
            subs = [{"name": "S%d/Item" % k, "kind": "c"} for k in range(2 * n)]
            ths = []
            for t in range(n):
                mine = [{"op": rng.choice(["goc", "pkg"]), "name": "App\\S%d\\Item" % k} for k in (2 * t, 2 * t + 1, (2 * t + 2) % (2 * n))]
                ths.append(mine)
            auto_cfgs.append({"autoload": subs, "threads": ths, "gomaxprocs": g, "repeat": 12, "keepall": True,
                              "want": dict(("App\\S%d\\Item" % k, 1000 + k) for k in range(2 * n))})
    if not ck.replay:
        # an AGED process: 1.05 million goroutines have come and gone before the run (every connection and every spawn of a
        # long-running server is a goroutine), so the goroutines of the run have 7-digit ids; the re-entrant load lock
        # tells its owner from the others by goroutine id (seeded change C10-14: only the first 6 digits were read)
        for (n, g) in ([(8, 8), (16, 16)] if ck.tier == "quick" else [(n, g) for n in (2, 4, 8, 16) for g in (2, 8, 16)]):
            ths = []
            for _ in range(n):
                t = [{"op": "goc", "name": "App\\P"}, {"op": "goi", "name": "App\\Q"}, {"op": "pkg", "name": "App\\S"}]
                rng.shuffle(t)
                ths.append(t)
            auto_cfgs.append({"autoload": AUTO, "age": 1050000, "threads": ths, "gomaxprocs": g, "repeat": 30, "keepall": True, "results_only": True})
        # spl autoload callbacks (process-wide list in parser/class_path_manager.go): 4 callbacks, the first three decline
        # every Dyn3_* name, the last one defines it; lookups of fresh Dyn3_* names (each goes through CallAutoLoad) run
        # while other goroutines unregister and re-register the declining callbacks in front of it.  The loader is
        # registered the whole time: in every sequential order every lookup succeeds (seeded change C10-7: the list is
        # iterated without a copy while RemoveAutoLoad filters it in place)
        for (nl, nt, g) in ([(3, 2, 4), (6, 3, 16), (2, 1, 2)] if ck.tier == "quick" else [(nl, nt, g) for nl in (2, 4, 8) for nt in (1, 2, 3) for g in (2, 4, 16)]):
            ths, wantd = [], {}
            for t in range(nl):
                ops = []
                for i in range(40):
                    nm = "Dyn3_t%d_%d" % (t, i)
                    wantd[nm] = 5003
                    ops.append({"op": "goc", "name": nm})
                ths.append(ops)
            for t in range(nt):
                ops = []
                for i in range(40):
                    k = rng.randrange(3)
                    ops += [{"op": "alunreg", "val": k}, {"op": "alreg", "val": k}]
                ths.append(ops)
            auto_cfgs.append({"callbacks": 4, "threads": ths, "gomaxprocs": g, "repeat": 10, "keepall": True, "want": wantd})
    nauto, nauto_bad = 0, 0
    for binx, what in ((binary, "results"), (racebin, "race")):
        if not auto_cfgs:
            break
        acur = [c for c in auto_cfgs if what == "results" or not c.get("results_only")]   # ageing under -race costs seconds per child
        aouts, _, _ = run_lines([binx, "stress"], [json.dumps(c) for c in acur])
        for c, o in zip(acur, aouts):
            if "worker_death" in o:
                death_violation(ck, "autoload", c, o["worker_death"])
                continue
            if hang_violation(ck, "autoload", c, o):
                continue
            if what == "race":
                if o.get("race") or o.get("fatal") or o.get("exit", 0) != 0:
                    acc = [l for l in o.get("report", []) if l.startswith("ACCESS ")]
                    vmfn = sorted(set(re.findall(r"runtime\.\(\*VM\)\.(\w+)", " ".join(acc))))
                    pk = sorted(set(re.findall(r"origami/([\w/]+\.(?:\(\*?\w+\)\.)?\w+)", " ".join(acc))))
                    if o.get("fatal"):
                        key = "race:%s:%s" % (str(o.get("fatal")).replace(" ", "-"), "+".join(vmfn[:4]))
                    elif vmfn:
                        key = "race:data-race:" + "+".join(vmfn[:4])       # the registry itself raced: not the known class
                    else:
                        key = "autoload-race:data-race:" + "+".join(pk[:3])
                    ck.violation(key, {"mode": "autoload", "case": c, "impl_out": {k: o.get(k) for k in ("exit", "race", "fatal", "report")},
                                       "clause": "no data race while several goroutines autoload the same classes"})
                continue
            for run in (o.get("alls") or [[]])[0] or []:
                for ops, rs in zip(c["threads"], run):
                    for op, r in zip(ops, rs):
                        if op["op"] in ("addns", "alreg", "alunreg"):
                            continue
                        nauto += 1
                        if r["r"] != 0 or r["d"] != (c.get("want") or want)[op["name"]]:
                            nauto_bad += 1
                            ck.violation(("autoload:wrong-definition:" if r["r"] == 0 and r["d"] >= 0 else "autoload-race:not-found:") + op["op"],
                                         {"mode": "autoload", "case": c, "impl_out": {"op": op, "result": r},
                                          "clause": "a GetOrLoad*/LoadPkg call that succeeds in every sequential order failed under concurrency"})
    ck.cov["autoload_calls"] = nauto
    ck.cov["autoload_calls_failed"] = nauto_bad

    # ---------------------------------------------------------------- (v) request-level TempVMs under concurrency
    # every goroutine but the last runs on ITS OWN TempVM of the shared base (what HotHandler does per request): its
    # results must equal the sequential TempVM model of C12 for that request alone; the last goroutine works on the base
    # with disjoint names.  Run on the plain and the -race binary.
    CPT = "[(\"App\\P\", {| cfile := 1000; cdefs := [(true, \"App\\P\")] |}); (\"App\\Q\", {| cfile := 1001; cdefs := [(false, \"App\\Q\")] |}); (\"App\\S\", {| cfile := 1002; cdefs := [(true, \"App\\S\")] |})]"
    tcfgs = []
    if not ck.replay:
        for (n, g) in ([(3, 4), (6, 16), (4, 1)] if ck.tier == "quick" else [(n, g) for n in (2, 4, 8, 16) for g in (1, 4, 16)]):
            ths = []
            fid = [1]
            for _ in range(n):
                t = []
                for _ in range(rng.randint(3, 7)):
                    r = rng.random()
                    if r < 0.45:
                        t.append({"op": "add", "kind": rng.choice("cif"), "name": rng.choice(["T", "t", "U"]), "file": fid[0]})
                        fid[0] += 1
                    else:
                        t.append({"op": rng.choice(["goc", "goi", "pkg"]), "name": rng.choice(["App\\P", "App\\Q", "App\\S", "T", "U"])})
                ths.append(t)
            base = [{"op": "add", "kind": rng.choice("cif"), "name": rng.choice(["B1", "B2"]), "file": 900 + i} for i in range(5)]
            tcfgs.append({"autoload": AUTO, "temps": [True] * n + [False], "threads": ths + [base], "gomaxprocs": g, "repeat": 20, "keepall": True})
        # coroutines spawned inside ONE request share its TempVM (audit finding 3): disjoint names per goroutine, common autoloads
        for (n, g) in [(4, 4), (8, 16)]:
            ths = []
            for t in range(n):
                ths.append([{"op": "add", "kind": "c", "name": "T%d" % t, "file": t + 1}, {"op": "goc", "name": "App\\P"},
                            {"op": "add", "kind": "f", "name": "g%d" % t, "file": 50 + t}, {"op": "goi", "name": "App\\Q"},
                            {"op": "pkg", "name": "App\\S"}, {"op": "setfile", "name": "/nonexistent-c10/s%d.php" % t},
                            {"op": "shutdown", "val": t}])
            tcfgs.append({"autoload": AUTO, "temps": [True] * n, "sharedtemp": True, "threads": ths, "gomaxprocs": g, "repeat": 20, "keepall": True})
        # inside one request (TempVM): an included file whose TOP-LEVEL code spawns coroutines that autoload a class and
        # waits for them over a Channel (op incwait), next to other goroutines autoloading on the same / their own
        # request VM: the include must return (seeded change C10-15: the request's load lock held while the included
        # file's code runs -> the coroutines block in the load lock, the include waits for them: deadlock)
        for (n, g, sharedtemp) in [(2, 4, True), (4, 16, True), (3, 4, False)]:
            ths = []
            for t in range(n):
                cls = ["App\\P", "App\\S"][t % 2]
                ths.append([{"op": "incwait", "name": cls}, {"op": "goi", "name": "App\\Q"}, {"op": "incwait", "name": ["App\\S", "App\\P"][t % 2]}] if t % 2 == 0 else
                           [{"op": "goi", "name": "App\\Q"}, {"op": "incwait", "name": cls}, {"op": "goc", "name": "App\\P"}])
            c = {"autoload": AUTO, "std": True, "temps": [True] * n, "threads": ths, "gomaxprocs": g, "repeat": 6, "keepall": True, "plain": True}
            if sharedtemp:
                c["sharedtemp"] = True
            tcfgs.append(c)
    elif json.load(open(ck.replay)).get("mode") == "temps":
        tcfgs = [json.load(open(ck.replay))["case"]]

    def coq_op12(o):
        if o["op"] == "add":
            return "OAdd (Temp 0) %s %s %d" % (KIND[o["kind"]], coq_string(o["name"]), o["file"])
        return "%s (Temp 0) %s" % ({"goc": "OGetOrLoadClass", "goi": "OGetOrLoadIface", "pkg": "OLoadPkg"}[o["op"]], coq_string(o["name"]))
    sterms, smap2 = [], []
    for binx, what in ((binary, "results"), (racebin, "race")):
        if not tcfgs:
            break
        touts, _, _ = run_lines([binx, "stress"], [json.dumps(c) for c in tcfgs])
        for c, o in zip(tcfgs, touts):
            if "worker_death" in o:
                death_violation(ck, "temps", c, o["worker_death"])
                continue
            if hang_violation(ck, "temps", c, o):
                continue
            if o.get("race") or o.get("fatal") or o.get("exit", 0) != 0:
                fns = sorted(set(re.findall(r"origami/([\w/]+)\.", " ".join(l for l in o.get("report", []) if l.startswith("ACCESS ")))))
                ck.violation("race:temps:%s" % "+".join(fns[:3]), {"mode": "temps", "case": c, "impl_out": {k: o.get(k) for k in ("exit", "race", "fatal", "report")},
                                                                  "clause": "no crash / no data race while requests run on their own TempVMs"})
                continue
            if what != "results":
                continue
            for run in ((o.get("alls") or [[]])[0] or [])[:6]:
                for ti, (ops, rs) in enumerate(zip(c["threads"], run)):
                    if c.get("plain") and not c.get("sharedtemp"):
                        if any(r["r"] != 0 for r in rs):
                            ck.violation("temps:include-spawn-wait:op-failed", {"mode": "temps", "case": c, "impl_out": {"thread": ti, "results": rs},
                                                                               "clause": "requests on their own TempVMs including a file whose top-level code spawns autoloading coroutines and waits for them: every op succeeds"})
                        continue
                    if c.get("sharedtemp"):
                        if any(r["r"] != 0 for r in rs):
                            ck.violation("temps:shared-request-vm:op-failed", {"mode": "temps", "case": c, "impl_out": {"thread": ti, "results": rs},
                                                                              "clause": "goroutines sharing one request TempVM: every definition/autoload on disjoint names succeeds"})
                        continue
                    if not c["temps"][ti]:
                        continue
                    sterms.append("(%s, %s, %s)" % (CPT, coq_list(coq_op12(x) for x in ops), coq_list(coq_obs(r) for r in rs)))
                    smap2.append((c, ti, rs))
    if sterms:
        sb = ck.eval_cases("solo", HEADER, sterms, "check_solo", shard=max(50, len(sterms) // 8 + 1))
        for j, cls in sorted(sb.items()):
            c, ti, rs = smap2[j]
            ck.violation("temps:request-differs-from-solo-run", {"mode": "temps", "case": c, "impl_out": {"thread": ti, "results": rs},
                                                                "clause": "a request on its own TempVM got results that differ from the same request run alone (C12 isolation, under concurrency)"})
    ck.cov["tempvm_requests_checked"] = len(sterms)

    # ---------------------------------------------------------------- (vi) real scripts: spawn (std/spawn.go) + registry
    # 6 spawned coroutines each: class_exists / interface_exists / new on autoloadable names (concurrent autoload through
    # the script-level builtins), a dynamic class definition (eval), and define() of ONE shared constant; the main
    # coroutine joins over Channels and counts.  Expected "18|1|6|k": every resolution succeeded, exactly one define()
    # won, all 6 dynamic classes are visible afterwards.  Repeated under the race detector.
    SCRIPT = r"""$n = 6;
$ids = new Channel(6);
$done = new Channel(0);
$winc = new Channel(6);
$i = 0;
while ($i < $n) { $ids->send($i); $i = $i + 1; }
$i = 0;
while ($i < $n) {
    spawn(function() use ($ids, $done, $winc) {
        $id = $ids->receive();
        $ok = 0;
        if (class_exists("App\P")) { $ok = $ok + 1; }
        if (interface_exists("App\Q")) { $ok = $ok + 1; }
        $o = new App\S();
        $ok = $ok + 1;
        eval("class Dyn" . $id . " {}");
        $w = 0;
        try { define("SAME_K", $id); $w = 1; } catch (\Throwable $e) { $w = 0; }
        $winc->send($w);
        $done->send($ok);
    });
    $i = $i + 1;
}
$sum = 0; $wins = 0; $i = 0;
while ($i < $n) { $sum = $sum + $done->receive(); $wins = $wins + $winc->receive(); $i = $i + 1; }
$dyn = 0; $i = 0;
while ($i < $n) { if (class_exists("Dyn" . $i, false)) { $dyn = $dyn + 1; } $i = $i + 1; }
echo $sum, "|", $wins, "|", $dyn, "|", defined("SAME_K") ? "k" : "-";
"""
    # second script: 6 coroutines look up a class that does not exist anywhere (the failing path of LoadClass)
    SCRIPT2 = r"""$n = 6;
$done = new Channel(0);
$i = 0;
while ($i < $n) {
    spawn(function() use ($done) {
        $x = class_exists("Nope\\Missing") ? 1 : 0;
        $y = interface_exists("Nope\\MissingI") ? 1 : 0;
        $done->send($x + $y);
    });
    $i = $i + 1;
}
$sum = 0; $i = 0;
while ($i < $n) { $sum = $sum + $done->receive(); $i = $i + 1; }
echo $sum;
"""
    nscripts = 0
    if not ck.replay:
        rep_n = 100 if ck.tier == "quick" else 1000
        scfgs = [{"src": SCRIPT, "repeat": rep_n, "autoload": AUTO, "gomaxprocs": g, "expect": "18|1|6|k"} for g in (2, 16)] + \
                [{"src": SCRIPT2, "repeat": rep_n, "autoload": AUTO, "gomaxprocs": 4, "expect": "0"}]
        sres = vworker.run_worker([racebin, "script"], scfgs, per_case_timeout=400, restart_exit_codes=(3,))
        for c, o in zip(scfgs, sres):
            if "worker_death" in o:
                death_violation(ck, "script", dict(c, repeat=200), o["worker_death"])
                continue
            for r in o.get("runs") or []:
                nscripts += 1
                if r["outcome"] != "ok" or r["out"].strip() != c["expect"]:
                    ck.violation("script:spawn-registry" + (":hang" if r["outcome"] == "hang" else ""), {"mode": "script", "case": dict(c, repeat=200), "impl_out": r,
                                                           "clause": "spawned coroutines resolving/defining concurrently: expected output " + c["expect"] + " (all resolutions succeed, one define() winner, 6 dynamic classes visible / missing classes stay missing)"})
                    break
    ck.cov["script_level_spawn_runs"] = nscripts

    # recorded histories (stamps): small ones searched for a linearization, big ones checked for the consequences
    hist_small, hist_big = [], []
    if not ck.replay:
        nsmall = 400 if ck.tier == "quick" else 4000
        for _ in range(nsmall):
            n = rng.choice([2, 3, 3])
            ths = gen_threads(rng, n, rng.randint(2, 4), False)
            # few names: contention
            for t in ths:
                for o in t:
                    if "name" in o and o["op"] in ("add", "get"):
                        o["name"] = rng.choice(["A", "a", "f"])
            hist_small.append({"threads": ths, "gomaxprocs": rng.choice([1, 2, 4]), "stamps": True, "repeat": 1})
        for (n, k) in ([(4, 60), (8, 40), (16, 25)] * (2 if ck.tier == "quick" else 20)):
            hist_big.append({"threads": gen_threads(rng, n, k, False), "gomaxprocs": rng.choice([2, 4, 16]), "stamps": True, "repeat": 1})
    elif json.load(open(ck.replay)).get("mode") in ("hist-small", "hist-big"):
        rp = json.load(open(ck.replay))
        (hist_small if rp["mode"] == "hist-small" else hist_big).append(rp["case"])
    cterms = {"small": [], "big": []}
    cmap = {"small": [], "big": []}
    for tag, lst in (("small", hist_small), ("big", hist_big)):
        if not lst:
            continue
        # batches of 50 configurations per child process
        lines = [json.dumps({"batch": lst[i:i + 50]}) for i in range(0, len(lst), 50)]
        bouts, rc, err = run_lines([racebin, "stress"], lines)
        k = 0
        for bi, bo in enumerate(bouts):
            chunk = lst[bi * 50:(bi + 1) * 50]
            if "worker_death" in bo:
                death_violation(ck, "hist-" + tag, {"batch_of": len(chunk), "first": chunk[0]}, bo["worker_death"])
                continue
            res = bo.get("results") or []
            for ci, cfg in enumerate(chunk):
                if ci < len(res):
                    cterms[tag].append(coq_conc(cfg, res[ci]))
                    cmap[tag].append((cfg, res[ci]))
                elif ci == len(res) and hang_violation(ck, "hist-" + tag, cfg, bo):
                    nrace += 1
                elif ci == len(res) and (bo.get("exit", 0) != 0 or bo.get("race") or bo.get("fatal")):
                    fns = sorted(set(re.findall(r"runtime\.\(\*VM\)\.(\w+)", " ".join(bo.get("report", [])))))
                    ck.violation("race:%s:%s" % ((bo.get("fatal") or "data race").replace(" ", "-"), "+".join(fns[:4])),
                                 {"mode": "hist-" + tag, "case": cfg, "impl_out": {x: bo.get(x) for x in ("exit", "race", "fatal", "report")},
                                  "clause": "no crash / no data race"})
                    nrace += 1
    ccl = {4: "one_winner_per_name(impl)", 5: "success_visible_later(impl, real time)", 7: "lookup returned a definition never registered",
           8: "EnsureGlobalZVal cells disagree", 9: "no linearization exists (registry_linearizable)", 6: "panic"}
    for tag, fn in (("small", "check_conc_small"), ("big", "check_conc_big")):
        if not cterms[tag]:
            continue
        cb = ck.eval_cases("conc_" + tag, HEADER, cterms[tag], fn, shard=max(20, len(cterms[tag]) // 16 + 1))
        for j, cls in sorted(cb.items()):
            cfg, res = cmap[tag][j]
            ck.violation("conc:clauses=%s" % "".join(map(str, cls)), {"mode": "hist-" + tag, "case": cfg, "impl_out": res, "clause": [ccl[x] for x in cls]})

    # ---------------------------------------------------------------- evidence
    dist = {}
    for c in seqs:
        for o in c["ops"]:
            dist[o["op"]] = dist.get(o["op"], 0) + 1
    overl = 0
    for cfg, res in cmap["small"]:
        iv = [(r["t0"], r["t1"], ti) for ti, rs in enumerate(res) for r in rs]
        if any(a[2] != b[2] and a[0] < b[1] and b[0] < a[1] for a in iv for b in iv):
            overl += 1
    ck.cov["seq_op_distribution"] = dist
    ck.cov["stress_runs"] = len(stress)
    ck.cov["stress_shapes(threads,ops/thread,GOMAXPROCS)"] = [(len(c["threads"]), len(c["threads"][0]), c["gomaxprocs"]) for c in stress][:12]
    ck.cov["stress_failures"] = nrace
    ck.cov["histories_small"] = len(cterms["small"])
    ck.cov["histories_small_with_overlapping_calls"] = overl
    ck.cov["histories_big"] = len(cterms["big"])
    ck.samples = [seqs[0] if seqs else None, (hist_small[0] if hist_small else None)]
    nontriv = len(set(json.dumps(c) for c in seqs if any(o["op"] == "add" for o in c["ops"]) and len(c["ops"]) >= 3)) + overl
    ck.finish(level="proof", evaluations=len(seqs) + len(stress) + len(hist_small) + len(hist_big),
              distinct_nontrivial=nontriv,
              rule="sequential: seeded histories of 1..14 registry calls over 6 colliding names (case/backslash variants, same-file re-adds); concurrent: -race stress over the stated shapes with mixed Add*/Get*/SetConstant/GetConstant/EnsureGlobalZVal/file-cache/EnterCall/exception-handler calls, recorded histories of 2-3 threads x 2-4 calls searched for a linearization and of 4-16 threads x 25-60 calls checked for one winner / real-time visibility / nothing invented; non-trivial = distinct sequential history with a registration and >=3 calls, or small concurrent history in which calls of different threads overlapped in time",
              traces=len(terms) + len(cterms["small"]) + len(cterms["big"]))
