"""C07 — visibility and declared types are enforced at every access path and boundary.
Proof: coq/C07 (model of the access decision of every path — ->, ->{}, $this->, ->(), ->{}(), C::m(),
C::$p, parent::, [] — and of Types.Is at the property / parameter / return boundaries; spec = the
visibility rule over lexical class and declaring class, and the denotation of the type language).
Tie: class fixtures over seeded hierarchy shapes are printed as scripts; every (member kind x modifier
x static-ness) x (site: outside, same class, subclass, parent, sibling, unrelated, inherited code,
closure, dynamic name) x (object class) goes through every applicable access path, stores are read
back through a getter of the declaring class (no effect on denial); every (declared type x value
kind) pair goes through four property-store paths, four parameter boundaries and two return
boundaries.  Model and rule are evaluated in Coq on the same probes."""
import itertools
import json
import subprocess
import vcheck
from vcheck import coq_list, coq_string

HEADER = "From V.C07 Require Import Model Spec AModel ASpec Run.\nOpen Scope string_scope.\n"

MODS = [("pu", "public", "Public"), ("pr", "protected", "Protected"), ("pv", "private", "Private")]
PATHNAME = {"PArrowRead": "arrow-read", "PArrowWrite": "arrow-write", "PDynRead": "dyn-read", "PDynWrite": "dyn-write",
            "PThisRead": "this-read", "PThisWrite": "this-write", "PCall": "call", "PDynCall": "dyn-call",
            "PThisCall": "this-call", "PStaticCall": "static-call", "PStaticRead": "static-read",
            "PStaticWrite": "static-write", "PParentCall": "parent-call", "PIndexRead": "index-read",
            "PIndexWrite": "index-write", "PUnset": "unset", "PRefArg": "ref-arg", "PForeach": "foreach",
            "PNestedAppend": "nested-append", "PCallable": "callable-array", "PThisIndexRead": "this-index-read",
            "PThisIndexWrite": "this-index-write", "PSelfProp": "self-prop", "PStaticKwCall": "static-kw-call"}


# ------------------------------------------------------------------ hierarchy helpers
class H:
    def __init__(self, classes, declaring):
        self.classes = classes              # list of (name, parent|None), parents first
        self.parent = dict(classes)
        self.declaring = declaring          # classes that declare probed members

    def chain(self, c):
        out = []
        while c is not None:
            out.append(c)
            c = self.parent[c]
        return out

    def le(self, x, y):                     # x is y or a descendant of y
        return y in self.chain(x)

    def members(self, x):
        """(name, kind, modifier-tag) declared by class x; kind in prop, sprop, meth, smeth"""
        if x not in self.declaring:
            return []
        pre = x.lower() + "_"
        res = []
        for tag, _, _ in MODS:
            res += [(pre + tag, "prop", tag), (pre + "s" + tag, "sprop", tag),
                    (pre + "m" + tag, "meth", tag), (pre + "sm" + tag, "smeth", tag),
                    (pre + "a" + tag, "aprop", tag)]
        return res

    def resolvable(self, c, kind):
        """members of that kind visible by lookup from class c: (name, declaring class, tag)"""
        res = []
        for a in self.chain(c):
            for n, k, tag in self.members(a):
                if k == kind:
                    res.append((n, a, tag))
        return res


class HT(H):
    """three unrelated classes that take the same methods from ONE trait; the middle one widens two of them with the
    visibility-only alias form (`use T0 { tmpv as public; tmpr as public; }`), which must not touch the other classes"""
    TRAIT = [("tpu", "prop", "pu"), ("tmpu", "meth", "pu"), ("tmpr", "meth", "pr"), ("tmpv", "meth", "pv"), ("tsmpr", "smeth", "pr"), ("tsmpv", "smeth", "pv")]

    def __init__(self):
        H.__init__(self, [("Ua", None), ("Ub", None), ("Uc", None)], ["Ua", "Ub", "Uc"])
        self.trait = True

    def members(self, x):
        # the table is the code's view: the visibility-only alias is dropped by the parser, Ub's entries keep the trait's
        # modifiers; the probes on Ub's tmpv / tmpr carry the DECLARED modifier (public) for the rule
        return list(self.TRAIT)


def shapes(rng):
    """seeded variation of hierarchy shape and names"""
    def names(k):
        pool = ["Ka", "Lo", "Mi", "Nu", "Pe", "Qi", "Ro", "Su", "Ta", "Ve", "Wu", "Xi", "Yo", "Ze"]
        rng.shuffle(pool)
        suf = rng.choice(["", "x", "q", "z"])
        return [p + suf for p in pool[:k]]
    res = []
    a, b, b2, c, u = names(5)
    res.append(H([(a, None), (b, a), (b2, a), (c, b), (u, None)], [a, b]))          # fork + grandchild
    a, b, c, d, u = names(5)
    res.append(H([(a, None), (b, a), (c, b), (d, c), (u, None)], [a, c]))           # linear chain, members at top and third level
    a, b, c, d, e, u = names(6)
    res.append(H([(a, None), (b, a), (c, a), (d, b), (e, c), (u, None)], [a, b]))   # two branches of depth 2
    res.append(HT())
    return res


# ------------------------------------------------------------------ visibility script
def vis_script_and_probes(h, only=None):
    """only = (site, path, class, member): emit just the probes of that cell (replay)"""
    L = []
    probes = []      # dict: site, path, c, m, kind-of-observation, + labels
    allnames = [n for n, _ in h.classes]
    props = {x: [m for m in h.members(x) if m[1] == "prop"] for x in h.declaring}
    L.append("function sink($x) { return 1; }")
    L.append("function setref(&$x) { $x = 77; return 1; }")
    L.append('function deny() { throw new Exception("not listed"); }')
    # free functions (written outside every class), called from methods
    fdone = set()
    for x in h.declaring:
        for n, kind, tag in h.members(x):
            if n in fdone:
                continue
            fdone.add(n)
            if kind == "prop":
                L.append("function fn_rd_%s($o) { return $o->%s; } function fn_wr_%s($o, $v) { $o->%s = $v; return 1; }" % (n, n, n, n))
            elif kind == "meth":
                L.append("function fn_cl_%s($o) { return $o->%s(); }" % (n, n))
    is_trait = getattr(h, "trait", False)
    if is_trait:
        L.append("trait T0 { public $tpu = 1; public function pk_tpu() { return $this->tpu; } " +
                 " ".join('%s %sfunction %s() { return "%s"; }' % (dict((t, m) for t, m, _ in MODS)[tag], "static " if kind == "smeth" else "", n, n)
                          for n, kind, tag in HT.TRAIT if kind != "prop") + " }")
    for k, par in h.classes:
        L.append("class %s%s {" % (k, (" extends " + par) if par else ""))
        cstart = len(L)
        if is_trait:
            L.append("  use T0%s" % (" { tmpv as public; tmpr as public; }" if k == "Ub" else ";"))
        init = {"pu": 1, "pr": 2, "pv": 3}
        for n, kind, tag in ([] if is_trait else h.members(k)):
            mod = dict((t, m) for t, m, _ in MODS)[tag]
            if kind == "prop":
                L.append("  %s $%s = %d;" % (mod, n, init[tag]))
                L.append("  public function pk_%s() { return $this->%s; }" % (n, n))
            elif kind == "aprop":
                L.append("  %s $%s = [0];" % (mod, n))
                L.append("  public function pk_%s() { return json_encode($this->%s); }" % (n, n))
            elif kind == "sprop":
                L.append("  %s static $%s = %d;" % (mod, n, init[tag] + 10))
            elif kind == "meth":
                L.append('  %s function %s() { return "%s"; }' % (mod, n, n))
            else:
                L.append('  %s static function %s() { return "%s"; }' % (mod, n, n))
        L.append("  public function me_%s() { return $this; }" % k)
        for x in h.declaring:
            for n, kind, tag in h.members(x):
                if kind == "prop":
                    L.append("  public function %s_frd_%s($o) { return fn_rd_%s($o); }" % (k, n, n))
                    L.append("  public function %s_fwr_%s($o, $v) { return fn_wr_%s($o, $v); }" % (k, n, n))
                elif kind == "meth":
                    L.append("  public function %s_fcl_%s($o) { return fn_cl_%s($o); }" % (k, n, n))
        # accessors: code written in class k (names carry k, so an inherited copy keeps its lexical class)
        L.append("  public function %s_dyrd($o, $n) { return $o->{$n}; }" % k)
        L.append("  public function %s_dywr($o, $n, $v) { $o->{$n} = $v; return 1; }" % k)
        L.append("  public function %s_dycl($o, $n) { return $o->{$n}(); }" % k)
        L.append("  public function %s_ixrd($o, $n) { return $o[$n]; }" % k)
        L.append("  public function %s_ixwr($o, $n, $v) { $o[$n] = $v; return 1; }" % k)
        L.append('  public function %s_fe($o, $n) { foreach ($o as $k => $v) { if ($k == $n) { return 1; } } throw new Exception("not listed"); }' % k)
        L.append("  public function %s_cuf($o, $n) { return call_user_func([$o, $n]); }" % k)
        L.append("  public function %s_arc($o, $n) { $f = [$o, $n]; return $f(); }" % k)
        L.append("  public function %s_tixrd($n) { return $this[$n]; }" % k)
        L.append("  public function %s_tixwr($n, $v) { $this[$n] = $v; return 1; }" % k)
        for x in h.declaring:
            for n, kind, tag in h.members(x):
                if kind == "prop":
                    L.append("  public function %s_rd_%s($o) { return $o->%s; }" % (k, n, n))
                    L.append("  public function %s_wr_%s($o, $v) { $o->%s = $v; return 1; }" % (k, n, n))
                    L.append("  public function %s_crd_%s($o) { $f = function() use ($o) { return $o->%s; }; return $f(); }" % (k, n, n))
                    L.append("  public function %s_un_%s($o) { unset($o->%s); return 1; }" % (k, n, n))
                    L.append("  public function %s_ref_%s($o) { return setref($o->%s); }" % (k, n, n))
                    if h.le(k, x):
                        L.append("  public function %s_trd_%s() { return $this->%s; }" % (k, n, n))
                        L.append("  public function %s_twr_%s($v) { $this->%s = $v; return 1; }" % (k, n, n))
                elif kind == "aprop":
                    L.append("  public function %s_ap_%s($o) { $o->%s[] = 5; return 1; }" % (k, n, n))
                elif kind == "meth":
                    L.append("  public function %s_cl_%s($o) { return $o->%s(); }" % (k, n, n))
                    L.append("  public function %s_ccl_%s($o) { $f = function() use ($o) { return $o->%s(); }; return $f(); }" % (k, n, n))
                    if h.le(k, x):
                        L.append("  public function %s_tcl_%s() { return $this->%s(); }" % (k, n, n))
                    if par and h.le(par, x):
                        L.append("  public function %s_pa_%s() { return parent::%s(); }" % (k, n, n))
                elif kind == "smeth":
                    for named in allnames:
                        if h.le(named, x):
                            L.append("  public function %s_st_%s_%s() { return %s::%s(); }" % (k, named, n, named, n))
                    if par and h.le(par, x):
                        L.append("  public function %s_pa_%s() { return parent::%s(); }" % (k, n, n))
                    if h.le(k, x):
                        L.append("  public function %s_selfc_%s() { return self::%s(); }" % (k, n, n))
                        L.append("  public function %s_statc_%s() { return static::%s(); }" % (k, n, n))
                else:
                    if h.le(k, x):
                        L.append("  public function %s_selfp_%s() { return self::$%s; }" % (k, n, n))
                    for named in allnames:
                        if h.le(named, x):
                            L.append("  public function %s_sr_%s_%s() { return %s::$%s; }" % (k, named, n, named, n))
                            L.append("  public function %s_sw_%s_%s($v) { %s::$%s = $v; return 1; }" % (k, named, n, named, n))
        # (classes of a trait shape declare the same member names: emit every helper once)
        body, seen_l = [], set()
        for ln in L[cstart:]:
            if ln not in seen_l:
                seen_l.add(ln)
                body.append(ln)
        L[cstart:] = body
        L.append("}")

    cur = {"mark": ""}

    def rd(expr, site, path, c, m, d, tag, extra=None, **kw):
        extra = cur["mark"] if extra is None else extra
        if only and only != (tuple(site), path, c, m):
            return
        L.append('try { sink(%s); echo "A\\n"; } catch (Throwable $e) { echo "D\\n"; }' % expr)
        if getattr(h, "trait", False) and c == "Ub" and m in ("tmpv", "tmpr"):
            kw = dict(kw, smod="pu")
        probes.append(dict({"site": site, "path": path, "c": c, "m": m, "d": d, "tag": tag, "store": None, "extra": extra}, **kw))

    def wr(stmt, readback, site, path, c, m, d, tag, init, extra=None, expect="77", **kw):
        extra = cur["mark"] if extra is None else extra
        if only and only != (tuple(site), path, c, m):
            return
        # $t is a fresh target; the value is read back through a getter of the declaring class
        L.append('$t = new %s(); try { %s echo "A"; } catch (Throwable $e) { echo "D"; } echo ":", %s, "\\n";' % (c, stmt, readback))
        probes.append(dict({"site": site, "path": path, "c": c, "m": m, "d": d, "tag": tag, "store": init, "extra": extra, "expect": expect}, **kw))

    init = {"pu": 1, "pr": 2, "pv": 3}
    targets = [n for n, _ in h.classes if h.resolvable(n, "prop")]

    def emit_pass(again):
        """one pass over every site x object class x member x path.  The second pass (again=True) repeats every
        probe of a non-public member in REVERSED order: a decision must not depend on what the same call site,
        object or class decided before (first allowed then denied, first denied then allowed, denied twice)"""
        od = (lambda x: list(reversed(list(x)))) if again else (lambda x: list(x))
        keep = (lambda ms: [m for m in od(ms) if m[2] != "pu"]) if again else od
        mark = "again" if again else ""
        cur["mark"] = mark
        # ---- outside (top-level code, and a top-level closure)
        for c in od(targets):
            L.append("$o = new %s();" % c)
            for n, d, tag in keep(h.resolvable(c, "prop")):
                rd("$o->%s" % n, ["out"], "PArrowRead", c, n, d, tag)
                L.append('$nm = "%s";' % n)
                rd("$o->{$nm}", ["out"], "PDynRead", c, n, d, tag)
                rd("$o[$nm]", ["out"], "PIndexRead", c, n, d, tag)
                L.append("$f = function() use ($o) { return $o->%s; };" % n)
                rd("$f()", ["out"], "PArrowRead", c, n, d, tag, "closure" + ("," + mark if mark else ""))
                wr("$t->%s = 77;" % n, "$t->pk_%s()" % n, ["out"], "PArrowWrite", c, n, d, tag, init[tag])
                wr("$t->{$nm} = 77;", "$t->pk_%s()" % n, ["out"], "PDynWrite", c, n, d, tag, init[tag])
                wr("$t[$nm] = 77;", "$t->pk_%s()" % n, ["out"], "PIndexWrite", c, n, d, tag, init[tag])
                wr("unset($t->%s);" % n, "$t->pk_%s()" % n, ["out"], "PUnset", c, n, d, tag, init[tag], expect="")
                wr("setref($t->%s);" % n, "$t->pk_%s()" % n, ["out"], "PRefArg", c, n, d, tag, init[tag])
                L.append('$seen = 0; foreach ($o as $k => $v) { if ($k == "%s") { $seen = 1; } }' % n)
                rd('$seen ? 1 : deny()', ["out"], "PForeach", c, n, d, tag)
            # `$this` handed out by a method (return $this): the value is a ThisValue, whose access paths have no check
            L.append("$e = $o->me_%s();" % c)
            for n, d, tag in keep(h.resolvable(c, "prop")):
                rd("$e->%s" % n, ["out"], "PThisRead", c, n, d, tag, "escaped-this" + ("," + mark if mark else ""), pathname="escaped-this-read")
                wr("$te = $t->me_%s(); $te->%s = 77;" % (c, n), "$t->pk_%s()" % n, ["out"], "PThisWrite", c, n, d, tag, init[tag],
                   "escaped-this" + ("," + mark if mark else ""), pathname="escaped-this-write")
            for n, d, tag in keep(h.resolvable(c, "meth")):
                rd("$e->%s()" % n, ["out"], "PThisCall", c, n, d, tag, "escaped-this" + ("," + mark if mark else ""), pathname="escaped-this-call")
            for n, d, tag in keep(h.resolvable(c, "smeth")):
                # a static method called through an OBJECT expression: CallStaticMethod returns the method without the check
                rd("$o::%s()" % n, ["out"], "PStaticKwCall", c, n, d, tag, "object-static-call" + ("," + mark if mark else ""), pathname="object-static-call")
            for n, d, tag in keep(h.resolvable(c, "aprop")):
                wr("$t->%s[] = 5;" % n, "$t->pk_%s()" % n, ["out"], "PNestedAppend", c, n, d, tag, "[0]", expect="[0,5]")
            for n, d, tag in keep(h.resolvable(c, "meth")):
                rd("$o->%s()" % n, ["out"], "PCall", c, n, d, tag)
                L.append('$nm = "%s";' % n)
                rd("$o->{$nm}()", ["out"], "PDynCall", c, n, d, tag)
                rd("call_user_func([$o, $nm])", ["out"], "PCallable", c, n, d, tag)
                L.append("$cb = [$o, $nm];")
                rd("$cb()", ["out"], "PCallable", c, n, d, tag, "array-call" + ("," + mark if mark else ""))
            for n, d, tag in keep(h.resolvable(c, "smeth")):
                rd("%s::%s()" % (c, n), ["out"], "PStaticCall", c, n, d, tag)
            for n, d, tag in keep(h.resolvable(c, "sprop")):
                rd("%s::$%s" % (c, n), ["out"], "PStaticRead", c, n, d, tag)
        # ---- inside: code written in l, running on an object of runtime class r (r is l or a descendant)
        for l, _ in od(h.classes):
            for r, _ in od(h.classes):
                if not h.le(r, l):
                    continue
                site = ["in", l, r]
                L.append("$s = new %s();" % r)
                for c in od(targets):
                    L.append("$o = new %s();" % c)
                    for n, d, tag in keep(h.resolvable(c, "prop")):
                        rd("$s->%s_rd_%s($o)" % (l, n), site, "PArrowRead", c, n, d, tag)
                        rd("$s->%s_crd_%s($o)" % (l, n), site, "PArrowRead", c, n, d, tag, "closure" + ("," + mark if mark else ""))
                        rd('$s->%s_dyrd($o, "%s")' % (l, n), site, "PDynRead", c, n, d, tag)
                        rd('$s->%s_ixrd($o, "%s")' % (l, n), site, "PIndexRead", c, n, d, tag)
                        wr("$s->%s_wr_%s($t, 77);" % (l, n), "$t->pk_%s()" % n, site, "PArrowWrite", c, n, d, tag, init[tag])
                        wr('$s->%s_dywr($t, "%s", 77);' % (l, n), "$t->pk_%s()" % n, site, "PDynWrite", c, n, d, tag, init[tag])
                        wr('$s->%s_ixwr($t, "%s", 77);' % (l, n), "$t->pk_%s()" % n, site, "PIndexWrite", c, n, d, tag, init[tag])
                        wr("$s->%s_un_%s($t);" % (l, n), "$t->pk_%s()" % n, site, "PUnset", c, n, d, tag, init[tag], expect="")
                        wr("$s->%s_ref_%s($t);" % (l, n), "$t->pk_%s()" % n, site, "PRefArg", c, n, d, tag, init[tag])
                        rd('$s->%s_fe($o, "%s")' % (l, n), site, "PForeach", c, n, d, tag)
                    for n, d, tag in keep(h.resolvable(c, "prop")):
                        # the access is written in a free FUNCTION that a method of l (running on r) calls
                        rd("$s->%s_frd_%s($o)" % (l, n), site, "PArrowRead", c, n, d, tag, "fn" + ("," + mark if mark else ""), written="function")
                        wr("$s->%s_fwr_%s($t, 77);" % (l, n), "$t->pk_%s()" % n, site, "PArrowWrite", c, n, d, tag, init[tag], "fn" + ("," + mark if mark else ""), written="function")
                    for n, d, tag in keep(h.resolvable(c, "meth")):
                        rd("$s->%s_fcl_%s($o)" % (l, n), site, "PCall", c, n, d, tag, "fn" + ("," + mark if mark else ""), written="function")
                    for n, d, tag in keep(h.resolvable(c, "aprop")):
                        wr("$s->%s_ap_%s($t);" % (l, n), "$t->pk_%s()" % n, site, "PNestedAppend", c, n, d, tag, "[0]", expect="[0,5]")
                    for n, d, tag in keep(h.resolvable(c, "meth")):
                        rd('$s->%s_cuf($o, "%s")' % (l, n), site, "PCallable", c, n, d, tag)
                        rd('$s->%s_arc($o, "%s")' % (l, n), site, "PCallable", c, n, d, tag, "array-call" + ("," + mark if mark else ""))
                        rd("$s->%s_cl_%s($o)" % (l, n), site, "PCall", c, n, d, tag)
                        rd("$s->%s_ccl_%s($o)" % (l, n), site, "PCall", c, n, d, tag, "closure" + ("," + mark if mark else ""))
                        rd('$s->%s_dycl($o, "%s")' % (l, n), site, "PDynCall", c, n, d, tag)
                    for n, d, tag in keep(h.resolvable(c, "smeth")):
                        rd("$s->%s_st_%s_%s()" % (l, c, n), site, "PStaticCall", c, n, d, tag)
                    for n, d, tag in keep(h.resolvable(c, "sprop")):
                        rd("$s->%s_sr_%s_%s()" % (l, c, n), site, "PStaticRead", c, n, d, tag)
                # $this paths: the object is $this (class r)
                for n, d, tag in keep(h.resolvable(l, "prop")):
                    rd("$s->%s_trd_%s()" % (l, n), site, "PThisRead", r, n, d, tag)
                    if not only or only == (tuple(site), "PThisWrite", r, n):
                        L.append('$t = new %s(); try { $t->%s_twr_%s(77); echo "A"; } catch (Throwable $e) { echo "D"; } echo ":", $t->pk_%s(), "\\n";' % (r, l, n, n))
                        probes.append({"site": site, "path": "PThisWrite", "c": r, "m": n, "d": d, "tag": tag, "store": init[tag], "extra": mark, "expect": "77"})
                    rd('$s->%s_tixrd("%s")' % (l, n), site, "PThisIndexRead", r, n, d, tag)
                    L.append('$t = new %s(); try { $t->%s_tixwr("%s", 77); echo "A"; } catch (Throwable $e) { echo "D"; } echo ":", $t->pk_%s(), "\\n";' % (r, l, n, n))
                    probes.append({"site": site, "path": "PThisIndexWrite", "c": r, "m": n, "d": d, "tag": tag, "store": init[tag], "extra": mark, "expect": "77"})
                for n, d, tag in keep(h.resolvable(l, "meth")):
                    rd("$s->%s_tcl_%s()" % (l, n), site, "PThisCall", r, n, d, tag)
                for n, d, tag in keep(h.resolvable(l, "smeth")):
                    rd("$s->%s_selfc_%s()" % (l, n), site, "PStaticCall", l, n, d, tag, "self::" + ("," + mark if mark else ""))
                    rd("$s->%s_statc_%s()" % (l, n), site, "PStaticKwCall", r, n, d, tag)
                for n, d, tag in keep(h.resolvable(l, "sprop")):
                    rd("$s->%s_selfp_%s()" % (l, n), site, "PSelfProp", r, n, d, tag)
                par = h.parent[l]
                if par:
                    for kind in ("meth", "smeth"):
                        for n, d, tag in keep(h.resolvable(par, kind)):
                            rd("$s->%s_pa_%s()" % (l, n), site, "PParentCall", r, n, d, tag)

    emit_pass(False)
    emit_pass(True)
    # static stores last (they change class state): always through the class that declares the member
    for x in h.declaring:
        for n, kind, tag in h.members(x):
            if kind == "sprop" and (not only or only == (("out",), "PStaticWrite", x, n)):
                L.append('try { %s::$%s = 77; echo "A"; } catch (Throwable $e) { echo "D"; } echo ":", %s::$%s, "\\n";' % (x, n, x, n))
                probes.append({"site": ["out"], "path": "PStaticWrite", "c": x, "m": n, "d": x, "tag": tag, "store": init[tag] + 10, "extra": "", "expect": "77"})
    return "\n".join(L) + "\n", probes


def coq_table(h):
    items = []
    modc = dict((t, c) for t, _, c in MODS)
    for k, par in h.classes:
        ps, ms = [], []
        for n, kind, tag in h.members(k):
            term = '{| mb_name := "%s"; mb_mod := %s; mb_static := %s |}' % (n, modc[tag], "true" if kind in ("sprop", "smeth") else "false")
            (ps if kind in ("prop", "sprop", "aprop") else ms).append(term)
        items.append('("%s", {| c_extends := %s; c_props := %s; c_meths := %s |})' % (
            k, ('(Some "%s")' % par) if par else "None", coq_list(ps), coq_list(ms)))
    return coq_list(items)


def coq_vprobe(p, allowed, changed):
    s = p["site"]
    site = "Outside" if s[0] == "out" else 'InMethod "%s" "%s"' % (s[1], s[2])
    ssite = "Outside" if (s[0] == "out" or p.get("written") == "function") else site
    ch = "None" if changed is None else "(Some %s)" % ("true" if changed else "false")
    smod = "(Some Public)" if p.get("smod") == "pu" else "None"
    return '{| v_site := %s; v_ssite := %s; v_smod := %s; v_path := %s; v_cls := "%s"; v_mem := "%s"; v_allowed := %s; v_changed := %s |}' % (
        site, ssite, smod, p["path"], p["c"], p["m"], "true" if allowed else "false", ch)


def sitekind(h, p):
    s = p["site"]
    if p.get("written") == "function":
        return "function-called-from-method"
    if s[0] == "out":
        return "outside"
    l, d = s[1], p["d"]
    if l == d:
        k = "same"
    elif h.le(l, d):
        k = "sub"
    elif h.le(d, l):
        k = "parent"
    elif set(h.chain(l)) & set(h.chain(d)):
        k = "sibling"
    else:
        k = "unrelated"
    return k


def detail(h, p):
    s = p["site"]
    out = []
    if s[0] == "in":
        l, r, c = s[1], s[2], p["c"]
        if r != l:
            out.append("inherited-code")
        if p["path"] not in ("PThisRead", "PThisWrite", "PThisCall", "PParentCall"):
            out.append("obj=" + ("same" if c == r else "above" if h.le(r, c) else "below" if h.le(c, r) else "apart"))
    if p["extra"]:
        out.append(p["extra"])
    return ",".join(out) or "-"


# ------------------------------------------------------------------ declared types
TYPES = [("int", "TInt"), ("string", "TString"), ("array", "TArray"),
         ("A", '(TClass "A")'), ("I", '(TClass "I")'), ("?int", "(TNullable TInt)"), ("?A", '(TNullable (TClass "A"))'),
         ("int|string", "(TUnion TInt TString)"), ("A|string", '(TUnion (TClass "A") TString)'),
         ("?I", '(TNullable (TClass "I"))'), ("int|string|array", "(TUnion TInt (TUnion TString TArray))"),
         # two-member unions with null, in BOTH member orders (= ?T)
         ("null|int", "(TNullable TInt)"), ("int|null", "(TNullable TInt)"), ("null|A", '(TNullable (TClass "A"))'), ("null|string", "(TNullable TString)")]
VALUES = [("int", "5", "(VInt 5)"), ("str", '"s"', '(VStr "s")'), ("arr", "[1]", "VArr"), ("A", "new A()", '(VObj "A")'),
          ("B", "new B()", '(VObj "B")'), ("C", "new C()", '(VObj "C")'), ("D", "new D()", '(VObj "D")'),
          ("null", "null", "VNull"), ("bool", "true", "(VBool true)"), ("float", "1.5", "VFloat"),
          ("assoc", '["k" => 1]', "VArr"),                 # a string-keyed array is an array
          ("S", "new S()", '(VObj "S")'),                   # an object with __toString is not a string
          ("floatint", "2.0", "VFloat"), ("floatdiv", "10/2", "VFloat"), ("floatexp", "1e3", "VFloat")]   # floats WITHOUT a fractional part are floats
# property types of the accessor probes (None = untyped property)
ACC_PTYPES = [None, "?int", "int|string", "?A", "A", "?I", "int|string|array"]
# boundary sites: (label, Coq boundary)
# further boundary sites (audit follow-up): typed static property, variadic / by-reference / closure parameters,
# closure and static-method returns
XSITES = [("prop:static", "BPropStatic"), ("param:variadic", "BParam"), ("param:byref", "BParam"), ("param:closure", "BParam"),
          ("return:closure", "BReturn"), ("return:static-method", "BReturnMethod")]
BSITES = [("prop:arrow", "BProp"), ("prop:this", "BProp"), ("prop:dyn", "BProp"), ("prop:index", "BProp"),
          ("param:function", "BParam"), ("param:static-method", "BParam"), ("param:constructor", "BParam"), ("param:method", "BParam"),
          ("return:function", "BReturn"), ("return:method", "BReturnMethod")] + XSITES


def type_script_and_probes(only=None):
    """only = (boundary site label, type, value kind): replay of one cell"""
    # (rt0..rt4: `return $this;` against the class-typed return hints A, I, ?A, ?I, A|string — B inherits A's copies)
    RT = 'public function rt0(): A { return $this; } public function rt1(): I { return $this; } public function rt2(): ?A { return $this; } public function rt3(): ?I { return $this; } public function rt4(): A|string { return $this; }'
    L = ["interface I {} class A { " + RT + " } class B extends A {} class C { " + RT + " } class D implements I { " + RT + " } class S { public function __toString() { return \"s\"; } }",
         "class HO { public $u; public static $su; }"]
    probes = []
    for ti, (tn, _) in enumerate(TYPES):
        L.append("class K%d { public %s $p; public function setp($v) { $this->p = $v; return 1; } "
                 "public function app($v) { $this->p[] = $v; return 1; } public function pm(%s $x) { return 1; } public static function ps(%s $x) { return 1; } "
                 "public function rm($v): %s { return $v; } }" % (ti, tn, tn, tn, tn))
        L.append("class Q%d { public function __construct(%s $x) {} }" % (ti, tn))
        L.append("class QP%d { public function __construct(public %s $x) {} } class QR%d { public function __construct(private %s $x, public $y = 0) {} }" % (ti, tn, ti, tn))
        L.append("class X%d { public static %s $sp; public static function sr($v): %s { return $v; } }" % (ti, tn, tn))
        L.append("function pv%d(%s ...$xs) { return 1; } function pb%d(%s &$x) { return 1; }" % (ti, tn, ti, tn))
        L.append("$pc%d = function(%s $x) { return 1; }; $rc%d = function($v): %s { return $v; };" % (ti, tn, ti, tn))
        L.append("function pf%d(%s $x) { return 1; } function rf%d($v): %s { return $v; }" % (ti, tn, ti, tn))
    for ti, (tn, tc) in enumerate(TYPES):
        for vn, vsrc, vc in VALUES:
            forms = {
                "prop:arrow": "$k = new K%d(); $k->p = %s;" % (ti, vsrc),
                "prop:this": "$k = new K%d(); $k->setp(%s);" % (ti, vsrc),
                "prop:dyn": '$k = new K%d(); $nm = "p"; $k->{$nm} = %s;' % (ti, vsrc),
                "prop:index": '$k = new K%d(); $k["p"] = %s;' % (ti, vsrc),
                "param:function": "pf%d(%s);" % (ti, vsrc),
                "param:static-method": "K%d::ps(%s);" % (ti, vsrc),
                "param:constructor": "$q = new Q%d(%s);" % (ti, vsrc),
                "param:method": "$k = new K%d(); $k->pm(%s);" % (ti, vsrc),
                "return:function": "rf%d(%s);" % (ti, vsrc),
                "return:method": "$k = new K%d(); $k->rm(%s);" % (ti, vsrc),
                "prop:static": "X%d::$sp = %s;" % (ti, vsrc),
                "param:variadic": "pv%d(%s);" % (ti, vsrc),
                "param:byref": "$bv = %s; pb%d($bv);" % (vsrc, ti),
                "param:closure": "$pc%d(%s);" % (ti, vsrc),
                "return:closure": "$rc%d(%s);" % (ti, vsrc),
                "return:static-method": "X%d::sr(%s);" % (ti, vsrc),
            }
            for label, bc in BSITES:
                if only and only != (label, tn, vn):
                    continue
                # twice: a rejected store / argument / return value must be rejected again
                for rep in (0, 1):
                    L.append('try { %s echo "A\\n"; } catch (Throwable $e) { echo "D\\n"; }' % forms[label])
                    probes.append({"site": label, "b": bc, "ty": tn, "tyc": tc, "val": vn, "valc": vc})
    # ---- the APPEND form of a store: `$k->p[] = v` / `$this->p[] = $v` on a typed property that holds nothing yet: what is
    # stored is a new array, so the boundary is the property's with an array value, whatever is appended
    for ti, (tn, tc) in enumerate(TYPES):
        for via, stmt in (("append", "$k = new K%d(); $k->p[] = 5;" % ti), ("append-this", "$k = new K%d(); $k->app(5);" % ti),
                          ("append-string", '$k = new K%d(); $k->p[] = "s";' % ti)):
            if only and only != ("prop:arrow", tn, "arr"):
                continue
            for rep in (0, 1):
                L.append('try { %s echo "A\\n"; } catch (Throwable $e) { echo "D\\n"; }' % stmt)
                probes.append({"site": "prop:arrow", "b": "BProp", "ty": tn, "tyc": tc, "val": "arr", "valc": "VArr", "via": via, "prop_type": tn})
    # ---- `return $this;` against a class-typed return hint, from objects that are / are not of that type
    for k, (tn, tc) in enumerate([("A", '(TClass "A")'), ("I", '(TClass "I")'), ("?A", '(TNullable (TClass "A"))'), ("?I", '(TNullable (TClass "I"))'),
                                  ("A|string", '(TUnion (TClass "A") TString)')]):
        for cn in ("A", "B", "C", "D"):
            if only and only != ("return:method", tn, cn):
                continue
            for rep in (0, 1):
                L.append('try { $z = new %s(); $z->rt%d(); echo "A\\n"; } catch (Throwable $e) { echo "D\\n"; }' % (cn, k))
                probes.append({"site": "return:method", "b": "BReturnMethod", "ty": tn, "tyc": tc, "val": cn, "valc": '(VObj "%s")' % cn, "via": "return-this", "prop_type": "-"})
    # ---- a PRIVATE / PROTECTED typed property written by class code through a reference other than $this
    for ti, (tn, tc) in enumerate(TYPES):
        L.append("class KP%d { private %s $pp; protected %s $pq; public function cp($o, $v) { $o->pp = $v; return 1; } public function cq($o, $v) { $o->pq = $v; return 1; } }" % (ti, tn, tn))
    for ti, (tn, tc) in enumerate(TYPES):
        for vn, vsrc, vc in VALUES:
            for via, meth in (("private-other-object", "cp"), ("protected-other-object", "cq")):
                if only and only != ("prop:arrow", tn, vn):
                    continue
                for rep in (0, 1):
                    L.append('try { $ka = new KP%d(); $kb = new KP%d(); $ka->%s($kb, %s); echo "A\\n"; } catch (Throwable $e) { echo "D\\n"; }' % (ti, ti, meth, vsrc))
                    probes.append({"site": "prop:arrow", "b": "BProp", "ty": tn, "tyc": tc, "val": vn, "valc": vc, "via": via, "prop_type": tn})
    # ---- a typed BY-REFERENCE parameter given an object property, an array element, a static property
    for ti, (tn, tc) in enumerate(TYPES):
        for vn, vsrc, vc in VALUES:
            for via, stmt in (("byref-property", "$ho = new HO(); $ho->u = %s; pb%d($ho->u);" % (vsrc, ti)),
                              ("byref-element", "$ar = [%s]; pb%d($ar[0]);" % (vsrc, ti)),
                              ("byref-static-property", "HO::$su = %s; pb%d(HO::$su);" % (vsrc, ti))):
                if only and only != ("param:byref", tn, vn):
                    continue
                for rep in (0, 1):
                    L.append('try { %s echo "A\\n"; } catch (Throwable $e) { echo "D\\n"; }' % stmt)
                    probes.append({"site": "param:byref", "b": "BParam", "ty": tn, "tyc": tc, "val": vn, "valc": vc, "via": via, "prop_type": "-"})
    # ---- constructor-PROMOTED typed parameters (public / private), positional and by name
    for ti, (tn, tc) in enumerate(TYPES):
        for vn, vsrc, vc in VALUES:
            for via, stmt in (("promoted", "$q = new QP%d(%s);" % (ti, vsrc)), ("promoted-named", "$q = new QP%d(x: %s);" % (ti, vsrc)),
                              ("promoted-private", "$q = new QR%d(%s, 1);" % (ti, vsrc)), ("promoted-private-named", "$q = new QR%d(y: 1, x: %s);" % (ti, vsrc))):
                if only and only != ("param:constructor", tn, vn):
                    continue
                for rep in (0, 1):
                    L.append('try { %s echo "A\\n"; } catch (Throwable $e) { echo "D\\n"; }' % stmt)
                    probes.append({"site": "param:constructor", "b": "BParam", "ty": tn, "tyc": tc, "val": vn, "valc": vc, "via": via, "prop_type": tn})
    # ---- the return boundary when the returned expression is a typed PROPERTY (one-line accessors): property type
    # x return type x stored value; the value is first stored through the property's own boundary (a rejected store
    # prints S: the cell does not apply), then returned through `: <return type>` — by `return $this->p;`,
    # by `return $this->p ?? $this->p;` and by a static accessor `return self::$sp;`.  What the return boundary
    # must accept is the denotation of the RETURN type, whatever the property's type let in.
    for pi, ptn in enumerate(ACC_PTYPES):
        for ti, (tn, tc) in enumerate(TYPES):
            pd = (ptn + " ") if ptn else ""
            L.append("class G%d_%d { public %s$p; public static %s$sp; public function g(): %s { return $this->p; } "
                     "public function gq(): %s { return $this->p ?? $this->p; } public static function gs(): %s { return self::$sp; } }"
                     % (pi, ti, pd, pd, tn, tn, tn))
    for pi, ptn in enumerate(ACC_PTYPES):
        for ti, (tn, tc) in enumerate(TYPES):
            for vn, vsrc, vc in VALUES:
                vias = [("accessor", "return:method", "$k = new G%d_%d(); try { $k->p = %s; } catch (Throwable $e) { $k = null; }" % (pi, ti, vsrc), "$k->g();"),
                        ("accessor-coalesce", "return:method", "$k = new G%d_%d(); try { $k->p = %s; } catch (Throwable $e) { $k = null; }" % (pi, ti, vsrc), "$k->gq();")]
                if pi < 2:
                    vias.append(("static-accessor", "return:static-method", "$k = 1; G%d_%d::$sp = %s;" % (pi, ti, vsrc), "G%d_%d::gs();" % (pi, ti)))
                for via, label, store, call in vias:
                    if only and only != (label, tn, vn):
                        continue
                    for rep in (0, 1):
                        L.append('%s if ($k === null) { echo "S\\n"; } else { try { %s echo "A\\n"; } catch (Throwable $e) { echo "D\\n"; } }' % (store, call))
                        probes.append({"site": label, "b": "BReturnMethod", "ty": tn, "tyc": tc, "val": vn, "valc": vc,
                                       "via": via, "prop_type": ptn or "untyped"})
    # ---- two unrelated classes sharing a SHORT name: the rest of the script is in namespace Other\Ns, which declares its
    # own A, B (extends its A) and D; their instances go to the class-typed boundaries declared above in the global
    # namespace (types A, I, ?A, A|string, ?I name the GLOBAL classes) and must be refused, the global \A / \B accepted
    L.append("namespace Other\\Ns;\nclass A {} class B extends A {} class D {}")
    nsvals = [("nsA", "new A()", '(VObj "Other\\Ns\\A")'), ("nsB", "new B()", '(VObj "Other\\Ns\\B")'), ("nsD", "new D()", '(VObj "Other\\Ns\\D")'),
              ("A", "new \\A()", '(VObj "A")'), ("B", "new \\B()", '(VObj "B")'), ("D", "new \\D()", '(VObj "D")')]
    for ti, (tn, tc) in enumerate(TYPES):
        if "A" not in tn and "I" not in tn:
            continue
        for vn, vsrc, vc in nsvals:
            forms = [("prop:arrow", "BProp", "$k = new \\K%d(); $k->p = %s;" % (ti, vsrc)),
                     ("prop:this", "BProp", "$k = new \\K%d(); $k->setp(%s);" % (ti, vsrc)),
                     ("param:function", "BParam", "\\pf%d(%s);" % (ti, vsrc)),
                     ("param:method", "BParam", "$k = new \\K%d(); $k->pm(%s);" % (ti, vsrc)),
                     ("param:static-method", "BParam", "\\K%d::ps(%s);" % (ti, vsrc)),
                     ("param:constructor", "BParam", "$q = new \\Q%d(%s);" % (ti, vsrc)),
                     ("return:function", "BReturn", "\\rf%d(%s);" % (ti, vsrc)),
                     ("return:method", "BReturnMethod", "$k = new \\K%d(); $k->rm(%s);" % (ti, vsrc))]
            for label, bc, stmt in forms:
                if only and only != (label, tn, vn):
                    continue
                for rep in (0, 1):
                    L.append('try { %s echo "A\\n"; } catch (\\Throwable $e) { echo "D\\n"; }' % stmt)
                    probes.append({"site": label, "b": bc, "ty": tn, "tyc": tc, "val": vn, "valc": vc, "via": "from-namespace", "prop_type": "-"})
    return "\n".join(L) + "\n", probes


# ------------------------------------------------------------------ instantiation
def inst_case(rng):
    m = rng.randint(0, 3)
    ifaces = []
    for k in range(m):
        ext = [("I%d" % (j + 1)) for j in range(k) if rng.random() < 0.4]
        ms = [x for x in ("f", "g", "h") if rng.random() < 0.35]
        ifaces.append(("I%d" % (k + 1), ext, ms))
    n = rng.randint(2, 5)
    classes = []
    parents_ok = []      # abstract classes and "full" classes (declare f,g,h,k with bodies: complete by construction)
    for k in range(n):
        par = rng.choice(parents_ok) if (parents_ok and rng.random() < 0.7) else None
        kind = rng.choice(["abstract", "full", "leaf", "leaf"])
        abstract = kind == "abstract"
        impls = [i[0] for i in ifaces if rng.random() < 0.3]
        ms = []
        if kind == "full":
            ms = [(x, False) for x in ("f", "g", "h", "k")]
        else:
            for x in ("f", "g", "h", "k"):
                r = rng.random()
                if r < 0.4:
                    ms.append((x, False))
                elif r < 0.55 and (abstract or rng.random() < 0.15):
                    ms.append((x, True))
        name = "C%d" % (k + 1)
        if kind != "leaf":
            parents_ok.append(name)
        classes.append((name, par, abstract, impls, ms))
    return inst_build(classes, ifaces)


def inst_deep_cases():
    """an interface implemented by an abstract class two or three levels above the concrete leaf: top abstract class
    implements I1 (f) or I2 extends I1 (f, g); 1-2 intermediate abstract classes that declare nothing / f abstract /
    f with a body; the leaf with every subset of {f, g}; also the interface on the first intermediate class"""
    cases = []
    for two in (False, True):
        ifaces = [("I1", [], ["f"])] + ([("I2", ["I1"], ["g"])] if two else [])
        top_if = "I2" if two else "I1"
        for nmid in (1, 2):
            for mids in itertools.product(["none", "abs", "body"], repeat=nmid):
                for where in (0, 1):                     # which class of the chain carries `implements`
                    for leaf in ([], ["f"], ["g"], ["f", "g"]):
                        if not two and "g" in leaf:
                            continue
                        classes = [("C1", None, True, [top_if] if where == 0 else [], [])]
                        for k, mk in enumerate(mids):
                            ms = [] if mk == "none" else [("f", mk == "abs")]
                            classes.append(("C%d" % (k + 2), "C%d" % (k + 1), True, [top_if] if where == k + 1 else [], ms))
                        classes.append(("C%d" % (nmid + 2), "C%d" % (nmid + 1), False, [], [(x, False) for x in leaf]))
                        cases.append(inst_build(classes, ifaces))
    return cases


def inst_trait_cases():
    """a trait that declares an abstract method (T1: f abstract, t concrete) or provides one (T2: f with a body), used by
    a class at every position of a 1-3 class chain (root, class with a concrete / abstract parent, abstract intermediate
    class above a concrete leaf); the using class and the leaf with and without their own f; T2 satisfying an interface.
    In the table a trait's methods count as declared by the using class unless it declares the name itself (mergeTraits);
    a trait's abstract method that an ancestor already implements is a met requirement (nothing declared)."""
    traits = [("T1", [("f", True), ("t", False)]), ("T2", [("f", False)])]
    cases = []
    for own in ([], [("f", False)]):
        # root class using the trait
        cases.append(inst_build([("C1", None, False, [], own, ["T1"])], [], traits))
        for pabs in (False, True):
            # concrete / abstract parent (declares only g), child uses the trait
            par = ("C1", None, pabs, [], [("g", False)])
            cases.append(inst_build([par, ("C2", "C1", False, [], own, ["T1"])], [], traits))
            # abstract intermediate class uses the trait, concrete leaf below it (twice removed as well)
            for leaf in ([], [("f", False)]):
                cases.append(inst_build([par, ("C2", "C1", True, [], own, ["T1"]), ("C3", "C2", False, [], leaf)], [], traits))
                cases.append(inst_build([par, ("C2", "C1", True, [], own, ["T1"]), ("C3", "C2", True, [], []), ("C4", "C3", False, [], leaf)], [], traits))
    # the trait's abstract requirement met by an INHERITED method: of the direct parent, of a grandparent (through a
    # concrete or an abstract intermediate class), with the trait on the leaf or on the abstract intermediate class
    fb = [("f", False)]
    cases.append(inst_build([("C1", None, False, [], fb), ("C2", "C1", False, [], [], ["T1"])], [], traits))
    cases.append(inst_build([("C1", None, True, [], fb), ("C2", "C1", False, [], [], ["T1"])], [], traits))
    cases.append(inst_build([("C1", None, False, [], fb), ("C2", "C1", False, [], [("g", False)]), ("C3", "C2", False, [], [], ["T1"])], [], traits))
    cases.append(inst_build([("C1", None, False, [], fb), ("C2", "C1", True, [], []), ("C3", "C2", False, [], [], ["T1"])], [], traits))
    cases.append(inst_build([("C1", None, False, [], fb), ("C2", "C1", True, [], [], ["T1"]), ("C3", "C2", False, [], [])], [], traits))
    cases.append(inst_build([("C1", None, True, [], fb), ("C2", "C1", True, [], [], ["T1"]), ("C3", "C2", True, [], []), ("C4", "C3", False, [], [])], [], traits))
    # ... and NOT met when the inherited f is itself abstract
    cases.append(inst_build([("C1", None, True, [], [("f", True)]), ("C2", "C1", False, [], [], ["T1"])], [], traits))
    # a trait method with a body satisfies an interface / an abstract method of the parent
    ifs = [("I1", [], ["f"])]
    cases.append(inst_build([("C1", None, False, ["I1"], [], ["T2"])], ifs, traits))
    cases.append(inst_build([("C1", None, True, ["I1"], []), ("C2", "C1", False, [], [], ["T2"])], ifs, traits))
    cases.append(inst_build([("C1", None, True, [], [("f", True)]), ("C2", "C1", False, [], [], ["T2"])], [], traits))
    cases.append(inst_build([("C1", None, True, [], [("f", True)]), ("C2", "C1", True, [], []), ("C3", "C2", False, [], [], ["T2"])], [], traits))
    return cases


def inst_build(classes, ifaces, traits=()):
    L = []
    classes = [tuple(c) + ((),) * (6 - len(c)) for c in classes]
    tmeths = dict(traits)
    for name, ext, ms in ifaces:
        L.append("interface %s%s { %s }" % (name, (" extends " + ", ".join(ext)) if ext else "",
                                            " ".join("public function %s();" % x for x in ms)))
    for tname, ms in traits:
        L.append("trait %s { %s }" % (tname, " ".join(("abstract public function %s();" % x) if ab else ("public function %s() { return 1; }" % x) for x, ab in ms)))
    merged = []
    mtab = {}
    for name, par, abstract, impls, ms, uses in classes:
        body = " ".join(["use %s;" % u for u in uses] +
                        [("abstract public function %s();" % x) if ab else ("public function %s() { return 1; }" % x) for x, ab in ms])
        L.append("%sclass %s%s%s { %s }" % ("abstract " if abstract else "", name, (" extends " + par) if par else "",
                                            (" implements " + ", ".join(impls)) if impls else "", body))
        own = set(x for x, _ in ms)
        # a trait's method counts as declared by the using class unless the class declares the name itself; a trait's
        # ABSTRACT method is a requirement: when an ancestor already provides the method with a body the requirement is
        # met and nothing is declared (PHP: the inherited method satisfies it)
        def inherited_body(x):
            a = par
            while a is not None:
                if any(n == x and not ab_ for n, ab_ in mtab[a][1]):
                    return True
                a = mtab[a][0]
            return False
        mm = list(ms) + [(x, ab) for u in uses for x, ab in tmeths[u] if x not in own and not (ab and inherited_body(x))]
        mtab[name] = (par, mm)
        merged.append((name, par, abstract, impls, mm))
    full_classes = classes
    classes = merged
    base = [c[0] for c in classes] + [i[0] for i in ifaces]
    # every `new` is attempted three times (static name twice, then through a variable class name): the
    # decision must be the same each time — a rejection that was caught must be a rejection again
    names = []
    for x in base:
        L.append('try { $z = new %s(); echo "A\\n"; } catch (Throwable $e) { echo "D\\n"; }' % x)
        L.append('try { $z = new %s(); echo "A\\n"; } catch (Throwable $e) { echo "D\\n"; }' % x)
        L.append('$nm = "%s"; try { $z = new $nm(); echo "A\\n"; } catch (Throwable $e) { echo "D\\n"; }' % x)
        names += [x, x, x]
    # and once more for all, in reverse order, after everything above has been tried
    for x in reversed(base):
        L.append('try { $z = new %s(); echo "A\\n"; } catch (Throwable $e) { echo "D\\n"; }' % x)
        names.append(x)
    tbl = "{| acl := %s; aif := %s |}" % (
        coq_list('("%s", {| a_extends := %s; a_impls := %s; a_abstract := %s; a_meths := %s |})' % (
            name, ('(Some "%s")' % par) if par else "None", coq_list('"%s"' % i for i in impls), "true" if abstract else "false",
            coq_list('{| am_name := "%s"; am_abstract := %s |}' % (x, "true" if ab else "false") for x, ab in ms))
            for name, par, abstract, impls, ms in classes),
        coq_list('("%s", {| ai_extends := %s; ai_meths := %s |})' % (name, coq_list('"%s"' % e for e in ext), coq_list('"%s"' % x for x in ms))
                 for name, ext, ms in ifaces))
    return {"src": "\n".join(L) + "\n", "tbl": tbl, "names": names, "classes": [list(c) for c in full_classes], "ifaces": ifaces, "traits": [list(t) for t in traits]}


def run_impl(binary, srcs):
    inp = "\n".join(json.dumps({"src": s}) for s in srcs) + "\n"
    p = subprocess.run([binary], input=inp, stdout=subprocess.PIPE, stderr=subprocess.PIPE, text=True, timeout=900)
    # (the interpreter prints PHP-style "Deprecated: ..." notices straight to the process's stdout: not observations)
    outs = [json.loads(l) for l in p.stdout.splitlines() if l.startswith("{")]
    return outs, p.returncode, p.stderr


def main(ck):
    rng = ck.rng
    ck.trusted += [
        "harness/cmd/c07 (Go: vrun.RunString, fresh VM per script) and checks/C07.py (fixture generator, script and Coq term printers, marker parser)",
        "which declaration a member name resolves to is taken from the model's lookups (chain walk; C08 proves it is the first declaring class)",
        "isClassValueInstanceOf (class hierarchy) is a parameter `sub` of the type theorems; the type probes use the fixed fixture A, B extends A, C, I, D implements I",
        "accessor plumbing of the fixtures (public accessor methods, sink(), closures capturing by use) is assumed to reach the probed expression unchanged",
        "not modelled: Closure::bind scopes, __get/__set/__call fallbacks, readonly, traits, constants, static:: / self:: property paths, redeclared (shadowing) members",
    ]
    ck.prove()
    binary, out = ck.go_build("c07")
    if binary is None:
        ck.broken.append("harness-build")
        ck.finish(evaluations=0, distinct_nontrivial=0, rule="harness did not build")

    if ck.replay:
        # re-run exactly the cell of the replay file (the fixture classes are rebuilt, only that probe is executed)
        rp = json.load(open(ck.replay))
        hs, vis, icases = [], [], []
        tsrc, tprobes = "", []
        if "shape" in rp:
            h = H([tuple(x) for x in rp["shape"]], rp["declaring"])
            pr = rp["probe"]
            hs = [h]
            vis = [vis_script_and_probes(h, (tuple(pr["site"]), pr["path"], pr["c"], pr["m"]))]
        elif "probe" in rp and "ty" in rp["probe"]:
            pr = rp["probe"]
            tsrc, tprobes = type_script_and_probes((pr["site"], pr["ty"], pr["val"]))
        elif "case" in rp and "classes" in rp["case"]:
            icases = [inst_build([tuple(c[:4]) + ([tuple(m) for m in c[4]],) + ((tuple(c[5]),) if len(c) > 5 else ()) for c in rp["case"]["classes"]],
                                 [tuple(i) for i in rp["case"]["ifaces"]],
                                 [(t[0], [tuple(m) for m in t[1]]) for t in rp["case"].get("traits", [])])]
        ck.log("replay: %d visibility probe(s), %d type probe(s), %d instantiation case(s)" % (
            sum(len(v[1]) for v in vis), len(tprobes), len(icases)))
    else:
        hs = shapes(rng)
        vis = [vis_script_and_probes(h) for h in hs]
        tsrc, tprobes = type_script_and_probes()
        icases = inst_deep_cases() + inst_trait_cases() + [inst_case(rng) for _ in range(400 if ck.tier == "quick" else 6000)]
    srcs = [v[0] for v in vis] + [tsrc] + [c["src"] for c in icases]
    outs, rc, err = run_impl(binary, srcs)
    if len(outs) != len(srcs):
        ck.log("harness returned %d results for %d cases rc=%d\n%s" % (len(outs), len(srcs), rc, err[-2000:]))
        ck.broken.append("harness-run")
        ck.finish(evaluations=len(outs), distinct_nontrivial=0, rule="harness crashed")

    total = 0
    dist = {}
    overdeny = {}
    # ---- visibility
    import re
    import concurrent.futures
    jobs = []
    for hi, (h, (src, probes), o) in enumerate(zip(hs, vis, outs)):
        lines = [l for l in o["out"].split("\n") if l != ""]
        if o["outcome"] != "ok" or len(lines) != len(probes):
            ck.violation("impl-error:vis:%s" % o["outcome"], {"shape": h.classes, "impl_out": o["out"][-1500:], "detail": o.get("detail"),
                                                               "lines": len(lines), "probes": len(probes), "script": src})
            continue
        terms = []
        for p, l in zip(probes, lines):
            if p["store"] is None:
                allowed, changed = (l == "A"), None
            else:
                a, _, val = l.partition(":")
                allowed, changed = (a == "A"), (val == p["expect"])
                if val not in (p["expect"], str(p["store"])):
                    ck.violation("vis:%s:corrupted-value" % PATHNAME[p["path"]], {"shape": h.classes, "probe": {x: p[x] for x in ("site", "path", "c", "m")},
                                                                                  "impl_out": l, "clause": "a store leaves the old value or the stored one"})
                if p["path"] == "PNestedAppend":
                    # $o->p[] = v never raises: the observable is the effect; a denial that raises no error is recorded below
                    p["silent"] = (a == "A" and not changed)
                    allowed = changed
            p["obs"] = l
            terms.append(coq_vprobe(p, allowed, changed))
            dist[PATHNAME[p["path"]]] = dist.get(PATHNAME[p["path"]], 0) + 1
        total += len(probes)
        # evaluate every probe (not only the first difference): one Coq definition per shape
        # (Coq's elaboration of one huge list literal is superlinear: shards of 400 probes, evaluated in parallel)
        CH = 400
        for si in range(0, len(terms), CH):
            hdr = HEADER + "Definition tbl := %s.\nDefinition ps := %s.\n" % (coq_table(h), coq_list(terms[si:si + CH]))
            jobs.append((hi, h, probes[si:si + CH], hdr, len(jobs)))
    with concurrent.futures.ThreadPoolExecutor(min(vcheck.NCPU, max(1, len(jobs)))) as ex:
        txts = list(ex.map(lambda j: ck.eval_print(j[3], "(wf tbl, vall tbl 0 ps, %d%%nat)" % j[4], timeout=600), jobs))
    for (hi, h, probes, hdr, _), txt in zip(jobs, txts):
        if ck.replay:
            side = ck.eval_print(hdr, "map (fun q => (decide tbl (v_site q) (v_path q) (v_cls q) (v_mem q), "
                                      "match resolve tbl (v_site q) (v_path q) (v_cls q) (v_mem q) with "
                                      "Some (d, x) => Some (d, mb_mod x, visible tbl (v_site q) d (mb_mod x)) | None => None end)) ps")
            for p in probes:
                ck.log("replay probe %s %s class=%s member=%s (%s): implementation printed %r" % (
                    p["site"], p["path"], p["c"], p["m"], p["extra"] or "first pass", p["obs"]))
            ck.log("model decision / (declaring class, modifier, visible by the rule): " + side)
        if not txt.startswith("(true"):
            ck.broken.append("correspondence-eval:vis-shape-%d" % hi)
            ck.log("vis shape %d: unexpected evaluation result: %s" % (hi, txt[:400]))
            continue
        bad = {}
        for mm in re.finditer(r"\((\d+)(?:%nat)?,\s*\[([0-9;\s%nat]*)\]\)", txt):
            bad[int(mm.group(1))] = [int(x) for x in re.sub(r"%nat|\s", "", mm.group(2)).split(";") if x]
        for k, cls in sorted(bad.items()):
            p = probes[k]
            pname = p.get("pathname") or PATHNAME[p["path"]]
            if isinstance(h, HT) and p["c"] == "Ub" and p["m"] in ("tmpv", "tmpr"):
                pname = "trait-alias-" + pname          # a method whose visibility the class changed with `use T0 { m as public; }`
            key_base = "vis:%s:%s:%s" % (pname, {"pu": "public", "pr": "protected", "pv": "private"}[p.get("smod") or p["tag"]], sitekind(h, p))
            rep = {"shape": h.classes, "declaring": h.declaring, "probe": {x: p[x] for x in ("site", "path", "c", "m", "d", "tag", "extra")},
                   "impl_out": p["obs"], "clauses": cls, "detail": detail(h, p)}
            if 9 in cls:
                ck.broken.append("generator:unresolved-member")
                continue
            if 6 in cls:
                # refused although the rule would permit it: "usable only from" does not force success — counted, not a violation
                ok = "%s:%s:%s" % (PATHNAME[p["path"]], p["tag"], sitekind(h, p))
                overdeny[ok] = overdeny.get(ok, 0) + 1
            if 3 in cls or 4 in cls:
                ck.violation(key_base + ":effect", dict(rep, clause="no_effect_on_denial / allowed store takes effect"))
            if 2 in cls:
                direction = "over-permit" if (p["obs"].startswith("A") and not p.get("silent")) else "over-deny"
                ck.violation(key_base + ":" + direction + ":" + detail(h, p), dict(rep, clause="decide = by_rule fails on the implementation"))
            if 1 in cls:
                ck.broken.append("correspondence:C07.vis")
                if 2 not in cls:
                    ck.violation("tie:" + key_base, dict(rep, clause="model vs implementation (tie)"))
    for h, (src, probes) in zip(hs, vis):
        for p in probes:
            if p.get("silent"):
                ck.violation("vis:nested-append:%s:%s:silent-denial" % ({"pu": "public", "pr": "protected", "pv": "private"}[p["tag"]], sitekind(h, p)),
                             {"shape": h.classes, "probe": {x: p[x] for x in ("site", "path", "c", "m")}, "impl_out": p["obs"],
                              "clause": "any other read, write or call raises a catchable error (the denied append has no effect but raises nothing)"})
    ck.cov["refused_though_rule_permits (not violations)"] = overdeny
    # ---- instantiation
    iterms, iidx = [], []
    for j, (c, o) in enumerate(zip(icases, outs[len(vis) + 1:])):
        lines = [l for l in o["out"].split("\n") if l != ""]
        if o["outcome"] != "ok" or len(lines) != len(c["names"]):
            ck.violation("impl-error:inst:%s" % o["outcome"], {"case": {k: c[k] for k in ("classes", "ifaces", "traits")}, "script": c["src"], "impl_out": o["out"][-800:], "detail": o.get("detail")})
            continue
        iterms.append("(%s, %s)" % (c["tbl"], coq_list('("%s", %s)' % (x, "true" if l == "A" else "false") for x, l in zip(c["names"], lines))))
        iidx.append(j)
        total += len(c["names"])
        dist["instantiate"] = dist.get("instantiate", 0) + len(c["names"])
    ibad = ck.eval_cases("icases", HEADER, iterms, "check_acase", shard=100) if iterms else {}
    for j, cls in sorted(ibad.items()):
        c = icases[iidx[j]]
        pos = next((x - 1000 for x in cls if x >= 1000), None)
        name = c["names"][pos] if pos is not None and pos < len(c["names"]) else "?"
        kindname = "interface" if name.startswith("I") else "class"
        rep = {"case": {k: c[k] for k in ("classes", "ifaces", "traits")}, "script": c["src"], "name": name, "clauses": cls}
        if 2 in cls:
            ck.violation("inst:%s" % kindname, dict(rep, clause="abstract_not_instantiable / interface_not_instantiable / concrete_complete"))
        if 1 in cls:
            ck.broken.append("correspondence:C07.inst")
            if 2 not in cls:
                ck.violation("tie:inst:%s" % kindname, dict(rep, clause="model vs implementation (tie)"))
    # ---- declared types
    o = outs[len(vis)]
    lines = [l for l in o["out"].split("\n") if l != ""]
    if o["outcome"] != "ok" or len(lines) != len(tprobes):
        ck.violation("impl-error:types:%s" % o["outcome"], {"impl_out": o["out"][-1500:], "detail": o.get("detail"), "lines": len(lines), "probes": len(tprobes)})
    else:
        # accessor probes whose store was rejected by the property's own type do not apply
        napplic = sum(1 for l in lines if l == "S")
        pairs = [(p, l) for p, l in zip(tprobes, lines) if l != "S"]
        tprobes, lines = [p for p, _ in pairs], [l for _, l in pairs]
        ck.cov["accessor_probes"] = {"applicable": sum(1 for p in tprobes if p.get("via")), "store_rejected": napplic}
        terms = ['{| t_b := %s; t_ty := %s; t_val := %s; t_accepted := %s |}' % (p["b"], p["tyc"], p["valc"], "true" if l == "A" else "false")
                 for p, l in zip(tprobes, lines)]
        if ck.replay:
            for p, l in zip(tprobes, lines):
                ck.log("replay type probe %s type=%s value=%s: implementation %s" % (p["site"], p["ty"], p["val"], "accepted" if l == "A" else "rejected"))
        bad = ck.eval_cases("tcases", HEADER, terms, "check_t", shard=400)
        total += len(tprobes)
        for j, cls in sorted(bad.items()):
            p = tprobes[j]
            key = "type:%s:%s:%s" % (p["site"], p["val"], p["ty"])
            if p.get("via"):
                key += ":via=%s:prop=%s" % (p["via"], p["prop_type"])
            rep = {"probe": p, "impl_out": lines[j], "clauses": cls}
            if 2 in cls:
                ck.violation(key, dict(rep, clause="accepts exactly the values of the type"))
            if 1 in cls:
                ck.broken.append("correspondence:C07.types")
                if 2 not in cls:
                    ck.violation("tie:" + key, dict(rep, clause="model vs implementation (tie)"))
        for p in tprobes:
            sk = p["site"] + (":" + p["via"] if p.get("via") else "")
            dist[sk] = dist.get(sk, 0) + 1

    if not ck.replay:
        ck.samples = [{"shape": hs[0].classes, "probe": {x: vis[0][1][5][x] for x in ("site", "path", "c", "m")}}, tprobes[17]]
    ck.cov["probe_distribution"] = dist
    ck.cov["shapes"] = [h.classes for h in hs]
    ck.finish(level="proof", evaluations=total, distinct_nontrivial=total - dist.get("static-write", 0),
              rule="3 seeded hierarchy shapes (fork with grandchild, linear chain of 4, two branches of depth 2, each with an unrelated class; "
                   "seeded class names), members (instance/static property, instance/static method) x 3 modifiers declared at two levels; sites: "
                   "top level, top-level closure, and code written in every class l running on an object of every class r <= l (plain and inside "
                   "a closure); every object class; every applicable path; stores read back through a getter of the declaring class. Types: 15 "
                   "declared types x 15 value kinds (floats with and without a fractional part) x 16 boundary sites, plus the return boundary fed from a typed PROPERTY: 7 property types (incl. untyped) x 11 return types x 12 values "
                   "through `return $this->p;`, `return $this->p ?? $this->p;` and (2 property types) a static accessor, applicable when the property's own type lets the value in. Instantiation: seeded hierarchies (2-5 classes, abstract flags, abstract/concrete methods f,g,h,k, 0-3 interfaces with extends and methods), `new X()` for every class and interface. evaluations = probes",
              traces=total)
