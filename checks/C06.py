"""C06 — arrays are values: writes through a copy never show through the original.

Proof: coq/C06 (heap model of ZVal cells / array spines / copy-on-assign; frame theorem; value
semantics of the flat fragment; refutations for the element-store route and nested shapes).
Tie: programs generated from (shape x route x mutation x side) run in process on the real
interpreter (harness/cmd/c06 -> vrun.RunString), snapshots taken by a recursive foreach before
and after the mutation; the Coq model is evaluated on the same statement lists by vm_compute
and compared snapshot by snapshot; the property oracle is "the other name's snapshot is
unchanged unless an explicit reference was taken"."""
import json
import subprocess

import vcheck
from vcheck import coq_string as cs, coq_list, coq_z, coq_bool

HEADER = ("From Coq Require Import List String ZArith.\nImport ListNotations.\n"
          "From V.C06 Require Import Model Run.\nOpen Scope string_scope.\nOpen Scope Z_scope.\n")

SNAP = """function snap($v) { if (is_array($v)) { $r = []; foreach ($v as $k => $x) { $r[] = [$k, snap($x)]; } return $r; } return $v; }
function s($l, $v) { echo $l, "\\t", json_encode(snap($v)), "\\n"; }
function setit99(&$x) { $x = 99; }
function refnoop(&$x) { return 0; }
"""

# ---------------------------------------------------------------------------- literals / shapes
# python literal: int | ("list", [items]) | ("assoc", [(key, item)])


def php_lit(t):
    if isinstance(t, int):
        return str(t)
    if t[0] == "list":
        return "[" + ", ".join(php_lit(x) for x in t[1]) + "]"
    return "[" + ", ".join("'%s' => %s" % (k, php_lit(x)) for k, x in t[1]) + "]"


def coq_lit(t):
    if isinstance(t, int):
        return "LInt %s" % coq_z(t)
    if t[0] == "list":
        return "LList %s" % coq_list("(%s)" % coq_lit(x) for x in t[1])
    return "LAssoc %s" % coq_list("(%s, %s)" % (cs(k), coq_lit(x)) for k, x in t[1])


def depth(t):
    if isinstance(t, int):
        return 0
    items = t[1] if t[0] == "list" else [x for _, x in t[1]]
    return 1 + max([depth(x) for x in items] + [0])


def coq_key(k):
    return "KI %s" % coq_z(k) if isinstance(k, int) else "KS %s" % cs(k)


def php_key(k):
    return "[%d]" % k if isinstance(k, int) else "['%s']" % k


class Shape:
    """lit: the literal; extra: [(key, int)] stores applied after the literal (built shapes)"""

    def __init__(self, name, lit, extra=(), post=()):
        """post: [(php template with %s = the variable, Coq statement template with %s = the quoted variable name)]:
        statements run on the variable after it is set up and BEFORE any copy is made"""
        self.name, self.lit, self.extra, self.post = name, lit, list(extra), list(post)

    @property
    def literal_only(self):
        return not self.extra and not self.post

    def php_setup(self, var):
        s = "%s = %s;" % (var, php_lit(self.lit))
        for k, v in self.extra:
            s += " %s%s = %d;" % (var, php_key(k), v)
        for php, _ in self.post:
            s += " " + php % var
        return s

    def model_setup(self, x):
        st = ["SLit %s (%s)" % (cs(x), coq_lit(self.lit))]
        for k, v in self.extra:
            st.append("SMut (BVar %s) [%s] (AStore %s)" % (cs(x), coq_key(k), coq_z(v)))
        for _, mdl in self.post:
            st.append(mdl % cs(x))
        return st

    # what the top level looks like after setup
    def top(self):
        """('arr', n_unnamed_prefix, [str keys], [(key, item)]) or ('map', [(key,item)])"""
        if self.lit[0] == "assoc":
            return ("map", list(self.lit[1]))
        ents = [(i, x) for i, x in enumerate(self.lit[1])]
        for k, v in self.extra:
            if k in [e[0] for e in ents]:
                ents = [(kk, (v if kk == k else xx)) for kk, xx in ents]
            else:
                ents.append((k, v))
        return ("arr", ents)

    def depth(self):
        return depth(self.lit)


QUICK = True


def shapes(rng, quick):
    global QUICK
    QUICK = quick
    def ints(n):
        # descending: an in-place sort of the list (top level or nested) always changes it
        return sorted(rng.sample(range(1, 30), n), reverse=True)
    res = [
        Shape("list3", ("list", ints(3))),
        Shape("list1", ("list", ints(1))),
        Shape("list5", ("list", ints(5))),
        Shape("built-str", ("list", []), [("k", 1), ("j", 2)]),
        Shape("built-mixed", ("list", ints(2)), [("k", 7)]),
        Shape("assoc2", ("assoc", [("k", 1), ("j", 2)])),
        Shape("nested2", ("list", [("list", ints(2)), ("list", ints(1))])),
        Shape("nested3", ("list", [("list", [("list", ints(2))]), ("list", ints(1))])),
        Shape("assoc-nested", ("assoc", [("x", ("list", ints(2))), ("y", 3)])),
        Shape("list-of-assoc", ("list", [("assoc", [("k", 1)]), 4])),
        # EMPTY at the moment of the copy, grown afterwards through one name (seeded C06-6: a copy that
        # returns the source array itself when there is nothing to copy)
        # all-keyed literals (ObjectValue) of 9 and 17 keys: a copy strategy that depends on the size of the
        # store (seeded C06-7: cells shared above 8 keys) is only visible above its threshold
        Shape("assoc9", ("assoc", [("k%d" % i, i + 1) for i in range(9)])),
        # an element was passed to a by-reference parameter BEFORE the copy; the call has returned, no reference is
        # left (seeded C06-11: the slot stayed write-through for ever).  Model image: the binder's OwnSlot, value unchanged
        Shape("list3-after-refcall", ("list", [21, 14, 8]),
              post=[("refnoop(%s[0]);", "SRefParamStore (BVar %s) [KI 0] 21"), ("refnoop(%s[2]);", "SRefParamStore (BVar %s) [KI 2] 8")]),
        Shape("built-mixed-after-refcall", ("list", [12, 6]), [("k", 7)],
              post=[("refnoop(%s[1]);", "SRefParamStore (BVar %s) [KI 1] 6")]),
        # lists that carry EXPLICIT keys (a sparse int key / a string key stored into a list): whole-array built-ins
        # take another path for them (seeded C06-12: sort() rewrote the shared cells)
        Shape("built-sparse", ("list", [19, 11, 4]), [(7, 2)]),
        # existing keys were stored to BEFORE the copy (seeded C06-13: a later store to the same key through the
        # source went in place into the cell that earlier store had allocated)
        Shape("list3-after-store", ("list", [21, 14, 8]), [(0, 50), (2, 51)]),
        Shape("built-str-after-store", ("list", []), [("k", 1), ("j", 2), ("k", 5)]),
        Shape("list0", ("list", [])),
        Shape("holds-empty", ("list", [("list", []), 1])),
    ]
    if not quick:
        res += [Shape("assoc%d" % n, ("assoc", [("k%d" % i, i + 1) for i in range(n)])) for n in (8, 16, 17, 32, 33, 64, 65)]
        res += [Shape("list%d" % n, ("list", ints(n) if n <= 25 else list(range(n, 0, -1)))) for n in (8, 9, 16, 17, 33)]
        res += [Shape("list7", ("list", ints(7))),
                Shape("nested2b", ("list", [5, ("list", ints(3)), 6])),
                Shape("assoc-nested2", ("assoc", [("x", ("assoc", [("u", 1)])), ("y", ("list", ints(2)))]))]
    return res


# ---------------------------------------------------------------------------- mutations
def inner_paths(item, prefix=()):
    """paths (tuples of keys) to every inner container of a literal item, with its literal"""
    res = []
    if isinstance(item, int):
        return res
    ents = list(enumerate(item[1])) if item[0] == "list" else list(item[1])
    for k, x in ents:
        if not isinstance(x, int):
            res.append((prefix + (k,), x))
            res += inner_paths(x, prefix + (k,))
    return res


def mutations(shape, base_is_var, prefix_empty):
    """[(label, path, act_coq, php(lv) -> statement)] applicable to the shape's top level / inner levels"""
    res = []
    top = shape.top()

    def store(path, v=99):
        return ("AStore %s" % coq_z(v), lambda lv, p=path, v=v: "%s%s = %d;" % (lv, "".join(php_key(k) for k in p), v))

    def append(path, v=98):
        return ("AAppend %s" % coq_z(v), lambda lv, p=path, v=v: "%s%s[] = %d;" % (lv, "".join(php_key(k) for k in p), v))

    def unset(path):
        return ("AUnset", lambda lv, p=path: "unset(%s%s);" % (lv, "".join(php_key(k) for k in p)))

    if top[0] == "arr":
        ents = top[1]
        n = len(ents)
        intkeys = [k for k, _ in ents if isinstance(k, int)]
        strkeys = [k for k, _ in ents if isinstance(k, str)]
        scalar_int = [k for k, x in ents if isinstance(k, int) and isinstance(x, int)]
        if scalar_int:
            res.append(("store-int", (scalar_int[0],)) + store((scalar_int[0],)))
            if len(scalar_int) > 1:
                res.append(("store-int-last", (scalar_int[-1],)) + store((scalar_int[-1],), 97))
        # compound element assignment on an EXISTING element (its own code path: assignIndexConcat /
        # the desugared compound operators); the generator knows the element's value v, so the model
        # statement is the store of the resulting value: `.= '7'` stores 10*v+7 (v >= 0; the snapshot
        # reads the digit string back as an int), `+= 5` stores v+5, `*= 2` stores 2*v
        vals = dict((k, x) for k, x in ents if isinstance(x, int))

        def compound(path, op, v):
            k = path[-1]
            nv = {".=": 10 * vals[k] + 7, "+=": vals[k] + 5, "*=": vals[k] * 2}[op]
            rhs = {".=": "'7'", "+=": "5", "*=": "2"}[op]
            return ("AStore %s" % coq_z(nv), lambda lv, p=path: "%s%s %s %s;" % (lv, "".join(php_key(q) for q in p), op, rhs))
        if scalar_int:
            res.append(("concat-int", (scalar_int[0],)) + compound((scalar_int[0],), ".=", None))
            res.append(("add-assign-int", (scalar_int[-1],)) + compound((scalar_int[-1],), "+=", None))
            res.append(("mul-assign-int", (scalar_int[0],)) + compound((scalar_int[0],), "*=", None))
        sk_scalar = [k for k, x in ents if isinstance(k, str) and isinstance(x, int)]
        if sk_scalar:
            res.append(("concat-str", (sk_scalar[0],)) + compound((sk_scalar[0],), ".=", None))
            res.append(("add-assign-str", (sk_scalar[-1],)) + compound((sk_scalar[-1],), "+=", None))
        if not strkeys:
            res.append(("store-int-end", (n,)) + store((n,)))
            res.append(("store-int-sparse", (n + 3,)) + store((n + 3,)))
        if strkeys:
            res.append(("store-str", (strkeys[0],)) + store((strkeys[0],)))
        res.append(("store-str-new", ("zz",)) + store(("zz",)))
        res.append(("append", ()) + append(()))
        if len(intkeys) >= 2 and not strkeys:
            res.append(("unset-int", (intkeys[1],)) + unset((intkeys[1],)))
            res.append(("unset-int-first", (intkeys[0],)) + unset((intkeys[0],)))
        if strkeys:
            res.append(("unset-str", (strkeys[0],)) + unset((strkeys[0],)))
        allint = all(isinstance(x, int) for _, x in ents) and not strkeys
        # writes that go THROUGH a cell (a by-reference parameter bound to the element, $r = &elem) instead of
        # replacing it: CloneArrayValue shares the cells, so these are the writes a shallow copy does not protect
        # by itself (ArrayValue.OwnSlot does).  Position = key for the unnamed prefix of a list.
        dense = [k for k, x in ents if isinstance(k, int) and k < len(shape.lit[1]) and not shape.extra]
        if dense:
            k0 = dense[0]
            res.append(("refparam-store-int", (k0,), "STMT:SRefParamStore (%%(base)s) %%(path)s 99",
                        lambda lv, k=k0: "setit99(%s%s);" % (lv, php_key(k))))
            res.append(("refbind-store-int", (dense[-1],), "STMT:SRefBindStore (%%(base)s) %%(path)s 99",
                        lambda lv, k=dense[-1]: "$r = &%s%s; $r = 99;" % (lv, php_key(k))))
        if strkeys:
            res.append(("refparam-store-str", (strkeys[0],), "STMT:SRefParamStore (%%(base)s) %%(path)s 99",
                        lambda lv, k=strkeys[0]: "setit99(%s%s);" % (lv, php_key(k))))
        if dense and base_is_var and prefix_empty:
            # array_splice with a replacement of the same length (seeded C06-17: it wrote into the existing cells)
            res.append(("splice-same-length", (dense[0],), "AStore 95", lambda lv, k=dense[0]: "array_splice(%s, %d, 1, [95]);" % (lv, k)))
            if len(dense) >= 2:
                res.append(("splice-same-length-last", (dense[-1],), "AStore 94", lambda lv, k=dense[-1]: "array_splice(%s, %d, 1, [94]);" % (lv, k)))
        allintvals = all(isinstance(x, int) for _, x in ents)
        if base_is_var and prefix_empty and allintvals and n >= 2:
            res.append(("usort", (), "STMT:SUsort %%(var)s",
                        lambda lv: "usort(%s, function($p, $q) { return $p <=> $q; });" % lv))
            res.append(("array-walk", (), "STMT:SWalkStore %%(var)s 97",
                        lambda lv: "array_walk(%s, function(&$v, $k) { $v = 97; return 97; }, null);" % lv))   # this array_walk stores the callback's RESULT; the by-reference form is there for the day it is repaired
        if base_is_var and prefix_empty and allintvals and n >= 2:
            res.append(("sort", (), "ASort", lambda lv: "sort(%s);" % lv))
        if base_is_var and prefix_empty and not strkeys:
            res.append(("push", (), "APush 96", lambda lv: "array_push(%s, 96);" % lv))
            if n >= 1:
                res.append(("pop", (), "APop", lambda lv: "array_pop(%s);" % lv))
    else:
        ents = top[1]
        strkeys = [k for k, _ in ents]
        scal = [k for k, x in ents if isinstance(x, int)]
        if scal:
            res.append(("store-str", (scal[0],)) + store((scal[0],)))
            if len(scal) > 2:
                res.append(("store-str-last", (scal[-1],)) + store((scal[-1],), 97))
                res.append(("store-str-mid", (scal[len(scal) // 2],)) + store((scal[len(scal) // 2],), 96))
        res.append(("store-str-new", ("zz",)) + store(("zz",)))
        if strkeys:
            res.append(("unset-str", (strkeys[-1],)) + unset((strkeys[-1],)))
    # nested levels (the literal part only)
    for path, sub in inner_paths(shape.lit):
        d = len(path) + 1
        sel = lambda p: "".join(php_key(q) for q in p)
        if sub[0] == "list":
            if sub[1] and isinstance(sub[1][0], int):
                res.append(("nested%d-store-int" % d, path + (0,)) + store(path + (0,)))
                if len(sub[1]) >= 2:
                    res.append(("nested%d-unset-int" % d, path + (0,)) + unset(path + (0,)))
                res.append(("nested%d-refparam-store-int" % d, path + (0,), "STMT:SRefParamStore (%%(base)s) %%(path)s 99",
                            lambda lv, p=path: "setit99(%s%s[0]);" % (lv, sel(p))))
                v0 = sub[1][0]
                res.append(("nested%d-add-assign-int" % d, path + (0,), "AStore %s" % coq_z(v0 + 5),
                            lambda lv, p=path: "%s%s[0] += 5;" % (lv, sel(p))))
                res.append(("nested%d-concat-int" % d, path + (0,), "AStore %s" % coq_z(10 * v0 + 7),
                            lambda lv, p=path: "%s%s[0] .= '7';" % (lv, sel(p))))
            if all(isinstance(x, int) for x in sub[1]) and len(sub[1]) >= 2:
                res.append(("nested%d-sort" % d, path, "ASort", lambda lv, p=path: "sort(%s%s);" % (lv, sel(p))))
            if all(isinstance(x, int) for x in sub[1]):
                res.append(("nested%d-push" % d, path, "APush 96", lambda lv, p=path: "array_push(%s%s, 96);" % (lv, sel(p))))
                if sub[1]:
                    res.append(("nested%d-pop" % d, path, "APop", lambda lv, p=path: "array_pop(%s%s);" % (lv, sel(p))))
            res.append(("nested%d-append" % d, path) + append(path))
            res.append(("nested%d-store-str-new" % d, path + ("zz",)) + store(path + ("zz",)))
        else:
            ks = [k for k, x in sub[1] if isinstance(x, int)]
            if ks:
                res.append(("nested%d-store-str" % d, path + (ks[0],)) + store(path + (ks[0],)))
                res.append(("nested%d-unset-str" % d, path + (ks[-1],)) + unset(path + (ks[-1],)))
            res.append(("nested%d-store-str-new" % d, path + ("zz",)) + store(path + ("zz",)))
    return res


# ---------------------------------------------------------------------------- routes
class Side:
    """one of the two names: php expression, Coq oexpr, mutation base (Coq), path prefix, is-var"""

    def __init__(self, php, oexpr, base, prefix=(), is_var=True, var=None):
        self.php, self.oexpr, self.base, self.prefix, self.is_var = php, oexpr, base, tuple(prefix), is_var
        self.var = var if var is not None else php[1:]      # the model's variable name (whole-array built-ins)


def var_side(x):
    return Side("$" + x, "OVar %s" % cs(x), "BVar %s" % cs(x))


def prop_side(o, p):
    return Side("$%s->%s" % (o, p), "OProp %s %s" % (cs(o), cs(p)), "BProp %s %s" % (cs(o), cs(p)), (), False)


def elem_side(w, k):
    return Side("$%s%s" % (w, php_key(k)), "OElem %s (%s)" % (cs(w), coq_key(k)), "BVar %s" % cs(w), (k,), True)


def routes(shape):
    """[(name, decls_php, pre_php, pre_model, A side, B side, has_ref, sides allowed, wrap)]
    wrap: None, or ('param', ...) for the by-value parameter route where the copy lives in a callee"""
    res = []
    lit = php_lit(shape.lit)
    # 1 assignment
    res.append(("assign", "", shape.php_setup("$a") + " $b = $a;", shape.model_setup("a") + ["SCopy \"b\" \"a\""],
                var_side("a"), var_side("b"), False, ("copy", "orig"), None))
    # 2 by-value parameter (mutation inside the callee)
    res.append(("param", "", shape.php_setup("$a"), shape.model_setup("a") + ["SCopy \"p\" \"a\""],
                var_side("a"), var_side("p"), False, ("copy",), "param"))
    # 3 returned from a function
    res.append(("return", "function viaReturn($x) { return $x; }\n", shape.php_setup("$a") + " $b = viaReturn($a);",
                shape.model_setup("a") + ["SCopy \"x\" \"a\"", "SCopy \"b\" \"x\""],
                var_side("a"), var_side("b"), False, ("copy", "orig"), None))
    if shape.literal_only:
        # 4 read from an object property
        res.append(("prop-read", "class C1 { public $p = %s; }\n" % lit, "$o = new C1(); $b = $o->p;",
                    ["SNewObj \"o\" \"p\" (%s)" % coq_lit(shape.lit), "SPropRead \"b\" \"o\" \"p\""],
                    prop_side("o", "p"), var_side("b"), False, ("copy", "orig"), None))
        # 6 clone
        res.append(("clone", "class C1 { public $p = %s; }\n" % lit, "$o = new C1(); $c = clone $o;",
                    ["SNewObj \"o\" \"p\" (%s)" % coq_lit(shape.lit), "SCloneObj \"c\" \"o\""],
                    prop_side("o", "p"), prop_side("c", "p"), False, ("copy", "orig"), None))
    # 5 stored into an object property
    res.append(("prop-store", "class C0 { public $p = 0; }\n", shape.php_setup("$a") + " $o = new C0(); $o->p = $a;",
                shape.model_setup("a") + ["SNewObj \"o\" \"p\" (LInt 0)", "SPropStore \"o\" \"p\" \"a\""],
                var_side("a"), prop_side("o", "p"), False, ("copy", "orig"), None))
    # 7 stored into / read from another array
    res.append(("in-array-str", "", shape.php_setup("$a") + " $w = []; $w['x'] = $a;",
                shape.model_setup("a") + ["SLit \"w\" (LList [])", "SElemStore \"w\" (KS \"x\") \"a\""],
                var_side("a"), elem_side("w", "x"), False, ("copy", "orig"), None))
    res.append(("in-array-append", "", shape.php_setup("$a") + " $w = []; $w[] = $a;",
                shape.model_setup("a") + ["SLit \"w\" (LList [])", "SElemAppend \"w\" \"a\""],
                var_side("a"), elem_side("w", 0), False, ("copy", "orig"), None))
    res.append(("in-array-literal", "", shape.php_setup("$a") + " $w = [$a, 5];",
                shape.model_setup("a") + ["SSetInt \"five\" 5", "SListOf \"w\" [\"a\"; \"five\"]"],
                var_side("a"), elem_side("w", 0), False, ("copy", "orig"), None))
    res.append(("from-array", "", shape.php_setup("$a") + " $w = []; $w['x'] = $a; $b = $w['x'];",
                shape.model_setup("a") + ["SLit \"w\" (LList [])", "SElemStore \"w\" (KS \"x\") \"a\"",
                                          "SElemRead \"b\" \"w\" (KS \"x\")"],
                elem_side("w", "x"), var_side("b"), False, ("copy", "orig"), None))
    if shape.literal_only:
        # returned from a METHOD that returns an object property (the call result is not a fresh array)
        res.append(("method-return", "class C2 { public $p = %s; public function all() { return $this->p; } }\n" % lit,
                    "$o = new C2(); $b = $o->all();",
                    ["SNewObj \"o\" \"p\" (%s)" % coq_lit(shape.lit), "SPropRead \"b\" \"o\" \"p\""],
                    prop_side("o", "p"), var_side("b"), False, ("copy", "orig"), None))
        # returned from a static method returning a static property is not modelled (no static store in the model)
    # returned from a BUILT-IN that returns an element of its argument: end / reset / current
    res.append(("builtin-end", "", shape.php_setup("$a") + " $w = [5]; $w[] = $a; $b = end($w);",
                shape.model_setup("a") + ["SLit \"w\" (LList [LInt 5])", "SElemAppend \"w\" \"a\"",
                                          "SElemRead \"b\" \"w\" (KI 1)"],
                elem_side("w", 1), var_side("b"), False, ("copy", "orig"), None))
    res.append(("builtin-reset", "", shape.php_setup("$a") + " $w = []; $w[] = $a; $w[] = 5; $b = reset($w);",
                shape.model_setup("a") + ["SLit \"w\" (LList [])", "SElemAppend \"w\" \"a\"",
                                          "SSetInt \"five\" 5", "SElemAppend \"w\" \"five\"",
                                          "SElemRead \"b\" \"w\" (KI 0)"],
                elem_side("w", 0), var_side("b"), False, ("copy", "orig"), None))
    res.append(("builtin-current", "", shape.php_setup("$a") + " $w = []; $w[] = $a; $b = current($w);",
                shape.model_setup("a") + ["SLit \"w\" (LList [])", "SElemAppend \"w\" \"a\"",
                                          "SElemRead \"b\" \"w\" (KI 0)"],
                elem_side("w", 0), var_side("b"), False, ("copy", "orig"), None))
    # ---- audit follow-up: the other binding forms of a by-value parameter, static properties, array_push
    # variadic parameter: $xs = [copy of $a]; the callee writes through $xs[0]
    res.append(("param-variadic", "", shape.php_setup("$a"), shape.model_setup("a") + ["SListOf \"xs\" [\"a\"]"],
                var_side("a"), elem_side("xs", 0), False, ("copy",), "variadic"))
    # named argument, and a parameter after one that has a default
    res.append(("param-named", "", shape.php_setup("$a"), shape.model_setup("a") + ["SCopy \"p\" \"a\""],
                var_side("a"), var_side("p"), False, ("copy",), "param-named"))
    res.append(("param-after-default", "", shape.php_setup("$a"), shape.model_setup("a") + ["SCopy \"p\" \"a\""],
                var_side("a"), var_side("p"), False, ("copy",), "param-default"))
    # by-value parameters with a DECLARED type the array satisfies (seeded C06-8: the typed binding path skipped
    # the copy), on functions, methods, static methods and closures
    for wname in ("param-array", "param-nullable-array", "param-iterable", "param-union", "param-method", "param-static-method",
                  "param-closure", "param-closure-typed-use"):
        if QUICK and wname in ("param-iterable", "param-union", "param-closure-typed-use"):
            continue      # thorough tier only (the quick tier keeps array / ?array on function, method, static method, closure)
        if wname == "param-iterable" and shape.lit[0] != "list":
            continue      # `iterable` does not accept an all-keyed array (an ObjectValue) in this interpreter: a type-check matter (C07)
        res.append((wname, "", shape.php_setup("$a"), shape.model_setup("a") + ["SCopy \"p\" \"a\""],
                    var_side("a"), var_side("p"), False, ("copy",), wname))
    # foreach by value over an array that holds the array: the loop variable is a COPY of the element (seeded C06-9:
    # the element written straight into the loop variable's slot); written after the loop, through either name
    res.append(("foreach-value", "", shape.php_setup("$a") + " $rows = [5, 0]; $rows[1] = $a; foreach ($rows as $row) { }",
                shape.model_setup("a") + ["SLit \"rows\" (LList [LInt 5; LInt 0])", "SElemStore \"rows\" (KI 1) \"a\"",
                                          "SElemRead \"row\" \"rows\" (KI 0)", "SElemRead \"row\" \"rows\" (KI 1)"],
                elem_side("rows", 1), var_side("row"), False, ("copy", "orig"), None))
    res.append(("foreach-key-value", "", shape.php_setup("$a") + " $rows = []; $rows['r'] = $a; foreach ($rows as $rk => $row) { }",
                shape.model_setup("a") + ["SLit \"rows\" (LList [])", "SElemStore \"rows\" (KS \"r\") \"a\"",
                                          "SElemRead \"row\" \"rows\" (KS \"r\")"],
                elem_side("rows", "r"), var_side("row"), False, ("copy", "orig"), None))
    # the write INSIDE the loop body: done with wrap "foreach-body"
    res.append(("foreach-body", "", shape.php_setup("$a") + " $rows = [5, 0]; $rows[1] = $a;",
                shape.model_setup("a") + ["SLit \"rows\" (LList [LInt 5; LInt 0])", "SElemStore \"rows\" (KI 1) \"a\"",
                                          "SElemRead \"row\" \"rows\" (KI 1)"],
                elem_side("rows", 1), var_side("row"), False, ("copy",), "foreach-body"))
    # promoted constructor parameter: the object keeps a copy
    res.append(("promoted-ctor", "class CP { function __construct(public $p) {} }\n", shape.php_setup("$a") + " $o = new CP($a);",
                shape.model_setup("a") + ["SNewObj \"o\" \"p\" (LInt 0)", "SPropStore \"o\" \"p\" \"a\""],
                var_side("a"), prop_side("o", "p"), False, ("copy", "orig"), None))
    # a call result as the argument of another call; a call result stored into an element
    res.append(("return-of-return", "function viaReturn($x) { return $x; }\n", shape.php_setup("$a") + " $b = viaReturn(viaReturn($a));",
                shape.model_setup("a") + ["SCopy \"x\" \"a\"", "SCopy \"y\" \"x\"", "SCopy \"b\" \"y\""],
                var_side("a"), var_side("b"), False, ("copy", "orig"), None))
    res.append(("elem-store-call", "function viaReturn($x) { return $x; }\n", shape.php_setup("$a") + " $w = []; $w['x'] = viaReturn($a);",
                shape.model_setup("a") + ["SCopy \"x\" \"a\"", "SLit \"w\" (LList [])", "SElemStore \"w\" (KS \"x\") \"x\""],
                var_side("a"), elem_side("w", "x"), False, ("copy", "orig"), None))
    # copy, store through the copy, copy the copy: then the middle array and its copy must stay independent on that key
    if shape.lit[0] == "list" and shape.lit[1] and isinstance(shape.lit[1][0], int) and not shape.post:
        v0 = dict(shape.top()[1]).get(0, shape.lit[1][0])      # the value element 0 has: the store keeps it (the compound mutations compute from it)
        res.append(("copy-store-copy", "", shape.php_setup("$a") + " $y = $a; $y[0] = %d; $z = $y;" % v0,
                    shape.model_setup("a") + ["SCopy \"y\" \"a\"", "SMut (BVar \"y\") [KI 0] (AStore %s)" % coq_z(v0), "SCopy \"z\" \"y\""],
                    var_side("y"), var_side("z"), False, ("copy", "orig"), None))
    # the array comes out of an object implementing ArrayAccess ($x = $coll['k']) and is THEN copied through a
    # variable-binding route (seeded C06-14: such arrays carry a mark and SetVariableValue adopted them without a copy).
    # offsetSet / offsetGet / the assignments are all by-value hops: model image = a chain of SCopy
    coll = ("class Coll6 implements ArrayAccess { private $items = []; public function offsetExists($k): bool { return isset($this->items[$k]); } "
            "public function offsetGet($k): mixed { return $this->items[$k]; } public function offsetSet($k, $v): void { $this->items[$k] = $v; } "
            "public function offsetUnset($k): void { unset($this->items[$k]); } }\n")
    res.append(("arrayaccess-read-assign", coll, shape.php_setup("$a") + " $cl = new Coll6(); $cl['k'] = $a; $x = $cl['k']; $y = $x;",
                shape.model_setup("a") + ["SCopy \"it\" \"a\"", "SCopy \"x\" \"it\"", "SCopy \"y\" \"x\""],
                var_side("x"), var_side("y"), False, ("copy", "orig"), None))
    res.append(("arrayaccess-read-param-local", coll, shape.php_setup("$a") + " $cl = new Coll6(); $cl['k'] = $a; $x = $cl['k'];",
                shape.model_setup("a") + ["SCopy \"it\" \"a\"", "SCopy \"x\" \"it\"", "SCopy \"p\" \"x\"", "SCopy \"tmp\" \"p\""],
                var_side("x"), var_side("tmp"), False, ("copy",), "param-local-x"))
    res.append(("param-then-local", "", shape.php_setup("$a"), shape.model_setup("a") + ["SCopy \"p\" \"a\"", "SCopy \"tmp\" \"p\""],
                var_side("a"), var_side("tmp"), False, ("copy",), "param-local"))
    # the by-value parameter of a CALLBACK a built-in invokes on the elements (seeded C06-15: array_map put the element
    # straight into the closure's parameter slot)
    # (call_user_func hands its whole argument list to the callback's first parameter in this interpreter and
    # call_user_func_array does not exist: no route through them)
    for wname in ("callback-array_map", "callback-array_filter", "callback-array_map-fn-name", "callback-array_reduce"):
        res.append((wname, "", shape.php_setup("$a") + " $rows = [5, 0]; $rows[1] = $a;",
                    shape.model_setup("a") + ["SLit \"rows\" (LList [LInt 5; LInt 0])", "SElemStore \"rows\" (KI 1) \"a\"",
                                              "SElemRead \"p\" \"rows\" (KI 1)"],
                    elem_side("rows", 1), var_side("p"), False, ("copy",), wname))
    # list destructuring into plain locals is a copy route (seeded C06-16: the element value was written straight into
    # the local's slot): from an array variable, from a call result, nested, and as a foreach target
    res.append(("destructure", "", shape.php_setup("$a") + " $rows = [5, 0]; $rows[1] = $a; [$q0, $p] = $rows;",
                shape.model_setup("a") + ["SLit \"rows\" (LList [LInt 5; LInt 0])", "SElemStore \"rows\" (KI 1) \"a\"",
                                          "SElemRead \"p\" \"rows\" (KI 1)"],
                elem_side("rows", 1), var_side("p"), False, ("copy", "orig"), None))
    res.append(("destructure-call-result", "function rowsOf($r) { return $r; }\n",
                shape.php_setup("$a") + " $rows = [5, 0]; $rows[1] = $a; [$q0, $p] = rowsOf($rows);",
                shape.model_setup("a") + ["SLit \"rows\" (LList [LInt 5; LInt 0])", "SElemStore \"rows\" (KI 1) \"a\"",
                                          "SCopy \"r\" \"rows\"", "SCopy \"t\" \"r\"", "SElemRead \"p\" \"t\" (KI 1)"],
                elem_side("rows", 1), var_side("p"), False, ("copy", "orig"), None))
    res.append(("destructure-static-result", "function staticRows($v = null) { static $s = null; if ($v !== null) { $s = [5, $v]; } return $s; }\n",
                shape.php_setup("$a") + " staticRows($a); [$q0, $p] = staticRows(); [$q1, $p2] = staticRows();",
                shape.model_setup("a") + ["SCopy \"v\" \"a\"", "SListOf \"s\" [\"five\"; \"v\"]", "SCopy \"t\" \"s\"", "SElemRead \"p\" \"t\" (KI 1)",
                                          "SCopy \"t2\" \"s\"", "SElemRead \"p2\" \"t2\" (KI 1)"],
                var_side("p2"), var_side("p"), False, ("copy", "orig"), None))
    res.append(("destructure-foreach", "", shape.php_setup("$a") + " $tbl = [[5, 0]]; $tbl[0][1] = $a; foreach ($tbl as [$q0, $p]) { }",
                shape.model_setup("a") + ["SLit \"tbl\" (LList [LList [LInt 5; LInt 0]])", "SMut (BVar \"tbl\") [KI 0; KI 1] (AStore 0)",
                                          "SElemRead \"row\" \"tbl\" (KI 0)", "SElemStore \"row\" (KI 1) \"a\"", "SElemRead \"p\" \"row\" (KI 1)"],
                var_side("a"), var_side("p"), False, ("copy", "orig"), None))
    # a KEYED literal whose entry is the variable (seeded C06-10: the literal stored the evaluated value as is)
    res.append(("in-keyed-literal", "", shape.php_setup("$a") + " $w = ['z' => 0, 'k' => $a];",
                shape.model_setup("a") + ["SLit \"w\" (LAssoc [(\"z\", LInt 0)])", "SElemStore \"w\" (KS \"k\") \"a\""],
                var_side("a"), elem_side("w", "k"), False, ("copy", "orig"), None))
    if not QUICK:
        res.append(("in-keyed-literal-first", "", shape.php_setup("$a") + " $w = ['k' => $a, 'z' => 0];",
                shape.model_setup("a") + ["SLit \"w\" (LAssoc [])", "SElemStore \"w\" (KS \"k\") \"a\"", "SSetInt \"zero\" 0", "SElemStore \"w\" (KS \"z\") \"zero\""],
                var_side("a"), elem_side("w", "k"), False, ("copy", "orig"), None))
    if shape.literal_only:
        res.append(("method-return-keyed-literal", "class C5 { public $p = %s; public function toArray() { return ['z' => 0, 'items' => $this->p]; } }\n" % lit,
                    "$o = new C5(); $res = $o->toArray();",
                    ["SNewObj \"o\" \"p\" (%s)" % coq_lit(shape.lit), "SPropRead \"t\" \"o\" \"p\"",
                     "SLit \"res\" (LAssoc [(\"z\", LInt 0)])", "SElemStore \"res\" (KS \"items\") \"t\""],
                    prop_side("o", "p"), elem_side("res", "items"), False, ("copy", "orig"), None))
    # array_push($w, $a)
    res.append(("in-array-push", "", shape.php_setup("$a") + " $w = []; array_push($w, $a);",
                shape.model_setup("a") + ["SLit \"w\" (LList [])", "SElemAppend \"w\" \"a\""],
                var_side("a"), elem_side("w", 0), False, ("copy", "orig"), None))
    # static properties (a static property is a cell like a variable: the model uses the variable "S::p")
    static_side = Side("S1::$p", "OVar %s" % cs("S::p"), "BVar %s" % cs("S::p"), var="S::p")
    res.append(("static-prop-store", "class S1 { public static $p = 0; }\n", shape.php_setup("$a") + " S1::$p = $a;",
                shape.model_setup("a") + ["SCopy \"S::p\" \"a\""],
                var_side("a"), static_side, False, ("copy", "orig"), None))
    res.append(("self-static-store", "class S1 { public static $p = 0; static function put($v) { self::$p = $v; } static function putLate($v) { static::$p = $v; } }\n",
                shape.php_setup("$a") + " S1::put($a);",
                shape.model_setup("a") + ["SCopy \"v\" \"a\"", "SCopy \"S::p\" \"v\""],
                var_side("a"), static_side, False, ("copy", "orig"), None))
    res.append(("late-static-store", "class S1 { public static $p = 0; static function put($v) { self::$p = $v; } static function putLate($v) { static::$p = $v; } }\n",
                shape.php_setup("$a") + " S1::putLate($a);",
                shape.model_setup("a") + ["SCopy \"v\" \"a\"", "SCopy \"S::p\" \"v\""],
                var_side("a"), static_side, False, ("copy", "orig"), None))
    if shape.literal_only:
        res.append(("static-prop-read", "class S1 { public static $p = %s; }\n" % lit, "$b = S1::$p;",
                    ["SLit \"S::p\" (%s)" % coq_lit(shape.lit), "SCopy \"b\" \"S::p\""],
                    static_side, var_side("b"), False, ("copy", "orig"), None))
        # an object handle copied: both names denote the SAME object, writes show through (exempt like &)
        res.append(("handle-copy", "class C1 { public $p = %s; }\n" % lit, "$o = new C1(); $h = $o;",
                    ["SNewObj \"o\" \"p\" (%s)" % coq_lit(shape.lit), "SCopy \"h\" \"o\""],
                    prop_side("o", "p"), prop_side("h", "p"), True, ("copy",), None))
        # clone of an object with several properties: each array property of the clone is independent
        res.append(("clone-multi", "class C4 { public $n = 5; public $p = %s; public $q = 0; }\n" % lit,
                    "$o = new C4(); $o->q = [7, 8]; $c = clone $o;",
                    ["SNewObj \"o\" \"n\" (LInt 5)", "SLit \"t1\" (%s)" % coq_lit(shape.lit), "SPropStore \"o\" \"p\" \"t1\"",
                     "SLit \"t2\" (LList [LInt 7; LInt 8])", "SPropStore \"o\" \"q\" \"t2\"", "SCloneObj \"c\" \"o\""],
                    prop_side("o", "p"), prop_side("c", "p"), False, ("copy", "orig"), None))
    # a reference into the array taken BEFORE the copy: PHP keeps the slot shared by both arrays; the model
    # (cref) and the code (RefSlotCount) must agree on what each name shows - no independence claimed
    if shape.lit[0] == "list" and shape.lit[1] and not shape.extra:
        res.append(("ref-slot-then-copy", "", shape.php_setup("$a") + " $x = &$a[0]; $b = $a;",
                    shape.model_setup("a") + ["SRefSlot \"x\" \"a\" 0", "SCopy \"b\" \"a\""],
                    var_side("a"), var_side("b"), True, ("copy", "orig"), None))
    # explicit reference: the write is meant to show through
    res.append(("reference", "", shape.php_setup("$a") + " $b = &$a;", shape.model_setup("a") + ["SRefVar \"b\" \"a\""],
                var_side("a"), var_side("b"), True, ("copy",), None))
    return res


HISTORY_SHAPES = {"list3-after-refcall", "built-mixed-after-refcall", "list3-after-store", "built-str-after-store", "built-sparse", "assoc9"}
CORE_ROUTES = {"assign", "param", "return", "prop-read", "prop-store", "clone", "in-array-str", "in-array-append", "from-array",
               "in-keyed-literal", "static-prop-store", "param-array", "callback-array_map", "foreach-value", "destructure", "reference"}


def build_case(shape, route, mut, side):
    rname, decls, pre_php, pre_model, A, B, has_ref, sides, wrap = route
    label, path, act, php_stmt = mut
    target = B if side == "copy" else A
    lv = target.php if not target.prefix else target.php  # php expr already includes the element key
    full_path = list(target.prefix) + list(path)
    if act.startswith("STMT:"):
        mstmt = act[5:].replace("%%", "%") % {"base": target.base, "path": coq_list(coq_key(k) for k in full_path),
                                             "var": cs(target.var)}
    else:
        mstmt = "SMut (%s) %s (%s)" % (target.base, coq_list(coq_key(k) for k in full_path), act)
    mut_php = php_stmt(lv)
    if wrap == "foreach-body":
        src = ("<?php\n" + SNAP + decls + pre_php +
               "\ns(\"a0\", %s);\nforeach ($rows as $rk => $row) { if ($rk === 1) { s(\"b0\", $row); %s s(\"b1\", $row); } }\ns(\"a1\", %s);\n" % (A.php, mut_php, A.php))
    elif wrap is not None and wrap.startswith("callback-"):
        body = "if (is_array($p)) { s(\"b0\", $p); %s s(\"b1\", $p); }" % mut_php
        decl, call = {
            "callback-array_map": ("", "array_map(function($p) { BODY return 0; }, $rows)"),
            "callback-array_filter": ("", "array_filter($rows, function($p) { BODY return true; })"),
            "callback-array_map-fn-name": ("function cbNamed($p) { BODY return 0; }", "array_map('cbNamed', $rows)"),
            "callback-array_reduce": ("", "array_reduce($rows, function($carry, $p) { BODY return 0; }, 0)"),
            "callback-call_user_func": ("", "call_user_func(function($p) { BODY return 0; }, $rows[1])"),
            "callback-call_user_func_array": ("", "call_user_func_array(function($q, $p) { BODY return 0; }, $rows)"),
        }[wrap]
        src = ("<?php\n" + SNAP + decls + decl.replace("BODY", body) + "\n" + pre_php +
               "\ns(\"a0\", %s); %s; s(\"a1\", %s);\n" % (A.php, call.replace("BODY", body), A.php))
    elif wrap is not None:
        body = "s(\"b0\", %s); %s s(\"b1\", %s);" % (B.php, mut_php, B.php)
        decl, call = {
            "param": ("function viaParam($p) { BODY }", "viaParam($a)"),
            "param-named": ("function viaParam($p) { BODY }", "viaParam(p: $a)"),
            "param-default": ("function viaParam($q = 0, $p = []) { BODY }", "viaParam(1, $a)"),
            "variadic": ("function viaParam(...$xs) { BODY }", "viaParam($a)"),
            "param-local": ("function viaParam($p) { $tmp = $p; BODY }", "viaParam($a)"),
            "param-local-x": ("function viaParam($p) { $tmp = $p; BODY }", "viaParam($x)"),
            "param-array": ("function viaParam(array $p) { BODY }", "viaParam($a)"),
            "param-nullable-array": ("function viaParam(?array $p) { BODY }", "viaParam($a)"),
            "param-iterable": ("function viaParam(iterable $p) { BODY }", "viaParam($a)"),
            "param-union": ("function viaParam(array|int $p) { BODY }", "viaParam($a)"),
            "param-method": ("class VP { function m(array $p) { BODY } }", "(new VP())->m($a)"),
            "param-static-method": ("class VP { static function sm(array $p) { BODY } }", "VP::sm($a)"),
            "param-closure": ("$viaClosure = function(array $p) { BODY };", "$viaClosure($a)"),
            "param-closure-typed-use": ("$z9 = 1; $viaClosure = function(?array $p) use ($z9) { BODY };", "$viaClosure($a)"),
        }[wrap]
        src = ("<?php\n" + SNAP + decls + decl.replace("BODY", body) + "\n" +
               pre_php + "\ns(\"a0\", %s); %s; s(\"a1\", %s);\n" % (A.php, call, A.php))
    else:
        src = ("<?php\n" + SNAP + decls + pre_php +
               "\ns(\"a0\", %s); s(\"b0\", %s);\n%s\ns(\"a1\", %s); s(\"b1\", %s);\n" % (A.php, B.php, mut_php, A.php, B.php))
    return {"shape": shape.name, "route": rname, "mutation": label, "side": side, "depth": shape.depth(),
            "mut_depth": len(path) + (1 if act.startswith("AAppend") or act in ("ASort", "APop") or act.startswith("APush") else 0),
            "src": src, "pre": pre_model, "mut": [mstmt], "a": A.oexpr, "b": B.oexpr,
            "other_is_a": side == "copy", "ref": has_ref}


# ---------------------------------------------------------------------------- snapshots -> Coq trees
def coq_tree(j, raw=False):
    """raw=False (model vs implementation): canonical integer strings used as keys are normalised to int
    keys (the model's abstraction of ZVal.Name) and a digit-string VALUE counts as that int (`.=` on an int
    element yields the digit string; the model stores the int).  raw=True (implementation vs implementation,
    the other name before and after): keys and values exactly as printed - 5 and "5" differ.
    Strings that are not canonical ints, floats and booleans are kept as TStr (never produced by the model)."""
    if j is None:
        return "TNull"
    if isinstance(j, bool):
        return "TStr %s" % cs("bool:%s" % j)
    if isinstance(j, int):
        return "TInt %s" % coq_z(j)
    if isinstance(j, float):
        return "TStr %s" % cs("float:%r" % j)
    if isinstance(j, str):
        if not raw and j.isdigit() and str(int(j)) == j:
            return "TInt %s" % coq_z(int(j))
        return "TStr %s" % cs(j)
    if isinstance(j, list):
        items = []
        for pair in j:
            k, v = pair[0], pair[1]
            if not raw and isinstance(k, str) and (k.isdigit() or (k.startswith("-") and k[1:].isdigit())) and str(int(k)) == k:
                k = int(k)
            kk = "TKI %s" % coq_z(k) if isinstance(k, int) else "TKS %s" % cs(k)
            items.append("(%s, %s)" % (kk, coq_tree(v, raw)))
        return "TArr %s" % coq_list(items)
    if isinstance(j, dict):
        return "TObjRef 0%nat"
    return "TNull"


def parse_snaps(out):
    res = {}
    for line in out.split("\n"):
        if "\t" in line:
            lab, payload = line.split("\t", 1)
            try:
                res[lab] = json.loads(payload)
            except ValueError:
                res[lab] = "<unparsed>"
    return res


def coq_case(c, snaps):
    return ("{| c_pre := %s; c_mut := %s; c_a := %s; c_b := %s; c_other_is_a := %s; c_ref := %s; "
            "i_a0 := %s; i_b0 := %s; i_a1 := %s; i_b1 := %s; r_o0 := %s; r_o1 := %s |}") % (
        coq_list(c["pre"]), coq_list(c["mut"]), c["a"], c["b"], coq_bool(c["other_is_a"]), coq_bool(c["ref"]),
        coq_tree(snaps["a0"]), coq_tree(snaps["b0"]), coq_tree(snaps["a1"]), coq_tree(snaps["b1"]),
        coq_tree(snaps["a0" if c["other_is_a"] else "b0"], raw=True),
        coq_tree(snaps["a1" if c["other_is_a"] else "b1"], raw=True))


def finding_key(c, clause):
    """clause x depth of the write x mutation class x route x side.
    Nested writes: `nested:<clause>:d<depth>:<class>:route=<route>:side=<side>`; a KNOWN_FINDINGS entry
    `nested:value:d2:append` covers every route and both sides of that (clause, depth, class) - all routes copy
    with the same shallow CloneArrayValue - and nothing else: the key-type clause, another depth or another
    mutation class is a new finding.  Depth 1: `depth1:<clause>:route=<route>:mutation=<mutation>:side=<side>`
    (never listed)."""
    m = c["mutation"]
    if m.startswith("nested"):
        d, lab = m.split("-", 1)
        return "nested:%s:d%s:%s:route=%s:side=%s" % (clause, d[len("nested"):], lab, c["route"], c["side"])
    return "depth1:%s:route=%s:mutation=%s:side=%s" % (clause, c["route"], m, c["side"])


def run_impl(binary, cases):
    inp = "\n".join(json.dumps({"src": c["src"]}) for c in cases) + "\n"
    p = subprocess.run([binary], input=inp, stdout=subprocess.PIPE, stderr=subprocess.PIPE, text=True, timeout=1200)
    outs = []
    for l in p.stdout.splitlines():
        l = l.strip()
        if l.startswith("{"):
            try:
                outs.append(json.loads(l))
            except ValueError:
                pass
    return outs, p.returncode, p.stderr


def main(ck):
    rng = ck.rng
    quick = ck.tier != "thorough"
    ck.trusted += [
        "ZVal.Name abstracted to none / canonical integer / other string (strconv.Itoa/Atoi round trip assumed; generated string keys are never numeric)",
        "two ArrayValue objects never share a Go backing array (NewArrayValue / CloneArrayValue allocate), so a spine is a pure list per object",
        "call frames and static locals modelled as distinct variable names; by-value parameter binding and `return` are SetVariableValue copies",
        "snapshots are taken by a script-level recursive foreach (function snap) and json_encode of nested lists of [key, value]",
        "harness/cmd/c06 (Go, vrun.RunString) and checks/C06.py (generators, Coq term printer)",
    ]
    ck.prove()
    binary, out = ck.go_build("c06")
    if binary is None:
        ck.broken.append("harness-build")
        ck.finish(evaluations=0, distinct_nontrivial=0, rule="harness did not build")

    cases = []
    if ck.replay:
        rp = json.load(open(ck.replay))
        if "case" in rp:
            cases = [rp["case"]]
    else:
        rounds = 1 if quick else 4
        for _ in range(rounds):
            for sh in shapes(rng, quick):
                for rt in routes(sh):
                    if quick and sh.name in HISTORY_SHAPES and rt[0] not in CORE_ROUTES:
                        continue      # shapes with a history before the copy: the quick tier runs them on the core routes, the thorough tier on all
                    for side in rt[7]:
                        target = rt[5] if side == "copy" else rt[4]
                        for mu in mutations(sh, target.is_var, not target.prefix):
                            if rt[6] and mu[0].startswith("splice"):
                                continue      # array_splice on a reference-bound slot: whether it writes through or replaces the slot is not modelled
                            cases.append(build_case(sh, rt, mu, side))
    outs, rc, err = run_impl(binary, cases)
    if len(outs) != len(cases):
        ck.log("engine returned %d results for %d cases rc=%s\n%s" % (len(outs), len(cases), rc, err[-2000:]))
        ck.broken.append("harness-run")
        ck.finish(evaluations=len(outs), distinct_nontrivial=0, rule="harness crashed")

    terms, idx = [], []
    notrun = 0
    for i, (c, o) in enumerate(zip(cases, outs)):
        snaps = parse_snaps(o.get("out", ""))
        if o.get("outcome") != "ok" or any(k not in snaps for k in ("a0", "b0", "a1", "b1")):
            notrun += 1
            ck.violation("impl-error:route=%s:mutation=%s" % (c["route"], c["mutation"]),
                         {"case": c, "impl_out": o, "clause": "generated program did not run to completion"})
            continue
        terms.append(coq_case(c, snaps))
        idx.append(i)
    bad = ck.eval_cases("cases", HEADER, terms, "check_case", shard=120)
    if ck.replay:
        for c, o in zip(cases, outs):
            ck.log("replay: shape=%s route=%s mutation=%s side=%s" % (c.get("shape"), c.get("route"), c.get("mutation"), c.get("side")))
            ck.log("program:\n" + c["src"])
            ck.log("implementation snapshots (A before, B before, A after, B after): %s" % json.dumps(parse_snaps(o.get("out", ""))))
            term = ("let st0 := run %s state0 in let st1 := run %s st0 in "
                    "(observe st0 (%s), observe st0 (%s), observe st1 (%s), observe st1 (%s))") % (
                coq_list(c["pre"]), coq_list(c["mut"]), c["a"], c["b"], c["a"], c["b"])
            ck.log("model snapshots (same order): " + ck.eval_print(HEADER, term))
            ck.log("spec: the %s snapshot must not change%s" % ("A" if c["other_is_a"] else "B", " (explicit reference: exempt)" if c["ref"] else ""))
    dist = {"route": {}, "mutation": {}, "shape": {}, "side": {}}
    for c in cases:
        for k in dist:
            dist[k][c[{"route": "route", "mutation": "mutation", "shape": "shape", "side": "side"}[k]]] = \
                dist[k].get(c[k], 0) + 1
    leaks = 0
    for j, cls in sorted(bad.items(), key=lambda kv: len(cases[idx[kv[0]]]["src"])):
        c, o = cases[idx[j]], outs[idx[j]]
        if 1 in cls:
            ck.broken.append("correspondence:C06")
            ck.violation("tie:route=%s:mutation=%s" % (c["route"], c["mutation"]),
                         {"case": c, "impl_out": parse_snaps(o.get("out", "")),
                          "clause": "model and implementation disagree on a snapshot" + ("; and the other name changed" if 2 in cls else "")})
        elif 3 in cls and 2 not in cls:
            leaks += 1
            ck.violation(finding_key(c, "key-types"), {"case": c, "impl_out": parse_snaps(o.get("out", "")),
                         "clause": "copy_then_mutate: the write through one name changed the KEY TYPES a foreach over the other name yields (int keys became numeric strings or back)"})
        elif 2 in cls:
            leaks += 1
            ck.violation(finding_key(c, "value"), {"case": c, "impl_out": parse_snaps(o.get("out", "")),
                                                   "clause": "copy_then_mutate: the write through one name is observable through the other"})
    ck.cov["distribution"] = dist
    ck.cov["cases"] = len(cases)
    ck.cov["cases_not_run"] = notrun
    ck.cov["cases_where_other_name_changed"] = leaks
    ck.cov["depth1_cases"] = sum(1 for c in cases if not c["mutation"].startswith("nested"))
    ck.samples = [{k: c[k] for k in ("shape", "route", "mutation", "side", "src")} for c in (cases[:1] + cases[len(cases) // 2:len(cases) // 2 + 1])]
    distinct = len(set(c["src"] for c in cases))
    ck.finish(level="proof", evaluations=len(cases), distinct_nontrivial=distinct,
              rule="every (shape x route x applicable mutation x side) of the shape family (10 shapes quick / 14 thorough x 4 seeded rounds), "
                   "15 routes (incl. method returning a property and the built-ins end/reset/current returning an element), up to 25 mutations (incl. compound element assignment .= += *=); the other name is compared key-type-exactly; element values seeded; non-trivial = distinct program text (every case mutates an existing array through one of two names)",
              traces=len(terms))
