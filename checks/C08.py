"""C08 — instanceof, type hints, catch and dispatch follow the declared class hierarchy.
Proof: coq/C08 (models of the three subtype walks, the BFS of interfaceExtends, method lookup,
parent:: / self:: / static:: resolution, `like`; spec = inductive reachability / first declaring
class on the ancestor chain; theorems for all well-formed tables).
Tie: generated hierarchies are printed as scripts and run on the real interpreter in-process;
every (object, type) pair goes through instanceof, $this instanceof, a typed parameter, a typed
parameter given $this, and catch; every (object, method) pair through ->, self::, static::,
parent::; every (object, type) pair through `like`.  The Coq model and the Coq spec are
evaluated on the same probes by vm_compute."""
import itertools
import json
import subprocess
import vcheck
from vcheck import coq_list

HEADER = "From V.C08 Require Import Model Spec Run.\nOpen Scope string_scope.\n"

KIND = {1: "instanceof", 2: "instanceof-this", 3: "param", 4: "param-this", 5: "catch",
        6: "call", 7: "self", 8: "static", 9: "parent", 10: "like",
        11: "parent-static", 12: "parent-self", 13: "parent-parent", 14: "like-this", 15: "catch-union",
        16: "static-entry-self", 17: "static-entry-static", 18: "static-entry-parent"}


# ------------------------------------------------------------------ hierarchy -> script
def helper_b():
    return 'function b($x) { return $x ? "1" : "0"; }\n'


def decl_ifaces(h):
    out = []
    for i in h["ifaces"]:
        ext = (" extends " + ", ".join(i["extends"])) if i["extends"] else ""
        ms = " ".join("public function %s(%s);" % (m, ", ".join("$p%d" % k for k in range(a))) for m, a in i["methods"])
        out.append("interface %s%s { %s }" % (i["name"], ext, ms))
    return out


def class_head(c):
    ext = (" extends " + c["extends"]) if c["extends"] else ""
    imp = (" implements " + ", ".join(c["impls"])) if c["impls"] else ""
    return "class %s%s%s {" % (c["name"], ext, imp)


def s_script(h, probes):
    """subtype probes; root classes carry the $this helpers (not part of the model's tables)"""
    types = [c["name"] for c in h["classes"]] + [i["name"] for i in h["ifaces"]]
    hu = {"classes": h["classes"], "ifaces": [i for i in h["ifaces"] if not i.get("builtin")]}
    out = [helper_b()] + decl_ifaces(hu)
    for t in types:
        out.append("function p_%s(%s $x) { return 1; }" % (t, t))
    for c in h["classes"]:
        if c.get("builtin"):
            continue
        out.append(class_head(c))
        if c["extends"] is None or c["extends"] == "Exception":
            out.append('  public function th($t) { return ($this instanceof $t) ? "1" : "0"; }')
            for t in types:
                out.append('  public function tp_%s() { try { p_%s($this); return "1"; } catch (Throwable $e) { return "0"; } }' % (t, t))
        out.append("}")
    for c in h["classes"]:
        if not c.get("builtin"):
            out.append('$o_%s = new %s(%s);' % (c["name"], c["name"], '"m"' if h.get("exceptions") else ""))
    for p in probes:
        k, n, t = p[0], p[1], p[2]
        if k == "catch-union":
            out.append('try { throw $o_%s; } catch (%s | %s $e) { echo "1\\n"; } catch (%s $e) { echo "0\\n"; }' % (n, t, p[3], n))
            continue
        if k == "instanceof":
            out.append('echo b($o_%s instanceof %s), "\\n";' % (n, t))
        elif k == "instanceof-this":
            out.append('echo $o_%s->th("%s"), "\\n";' % (n, t))
        elif k == "param":
            out.append('try { p_%s($o_%s); echo "1\\n"; } catch (Throwable $e) { echo "0\\n"; }' % (t, n))
        elif k == "param-this":
            out.append('echo $o_%s->tp_%s(), "\\n";' % (n, t))
        elif k == "catch":
            out.append('try { throw $o_%s; } catch (%s $e) { echo "1\\n"; } catch (%s $e) { echo "0\\n"; }' % (n, t, n))
    return "\n".join(out) + "\n"


BODIES = {"ks": "return self::s();", "kt": "return static::s();", "kp": "return parent::f();", "kq": "return parent::s();",
          "kr": "return parent::kt();", "kv": "return parent::ks();", "kw": "return parent::kp();",
          # static methods entered as C::zs() from top level
          "zs": "return self::s();", "zt": "return static::s();", "zp": "return parent::s();"}


def d_script(h, probes):
    out = [helper_b()] + decl_ifaces(h)
    for c in h["classes"]:
        out.append(class_head(c))
        for m, st, a in c["methods"]:
            params = ", ".join("$p%d = 0" % k for k in range(a))
            if m in BODIES:
                body = BODIES[m]
            elif m.startswith("lk_"):
                body = "return b($this like %s);" % m[3:]
            else:
                body = 'return "%s::%s";' % (c["name"], m)
            out.append("  public %sfunction %s(%s) { %s }" % ("static " if st else "", m, params, body))
        out.append("}")
    for c in h["classes"]:
        out.append("$o_%s = new %s();" % (c["name"], c["name"]))
    for p in probes:
        if p[0] == "like":
            out.append('echo b($o_%s like %s), "\\n";' % (p[1], p[2]))
        elif p[0] == "like-this":
            out.append('echo $o_%s->lk_%s(), "\\n";' % (p[1], p[2]))
        elif p[0].startswith("static-entry"):
            out.append('try { echo %s::%s(), "\\n"; } catch (Throwable $e) { echo "ERR\\n"; }' % (p[1], p[2]))
        else:
            # call / self / static / parent: all are `$o->method()`; what is printed is Class::name of
            # the definition that finally ran
            out.append('try { echo $o_%s->%s(), "\\n"; } catch (Throwable $e) { echo "ERR\\n"; }' % (p[1], p[2]))
    return "\n".join(out) + "\n"


# ------------------------------------------------------------------ Coq printers
def q(s):
    return '"%s"' % s


def coq_meths(ms):
    return coq_list("{| m_name := %s; m_static := %s; m_arity := %d |}" % (q(m), "true" if st else "false", a) for m, st, a in ms)


def coq_table(h):
    cs = coq_list("(%s, {| c_extends := %s; c_impls := %s; c_methods := %s |})" % (
        q(c["name"]), ("(Some %s)" % q(c["extends"])) if c["extends"] else "None",
        coq_list(q(x) for x in c["impls"]), coq_meths(c["methods"])) for c in h["classes"])
    fs = coq_list("(%s, {| i_extends := %s; i_methods := %s |})" % (
        q(i["name"]), coq_list(q(x) for x in i["extends"]),
        coq_meths([(m, False, a) for m, a in i["methods"]])) for i in h["ifaces"])
    return "{| classes := %s; ifaces := %s |}" % (cs, fs)


def coq_probe(p):
    k = p[0]
    if k == "instanceof":
        return "PInstanceof %s %s" % (q(p[1]), q(p[2]))
    if k == "instanceof-this":
        return "PInstanceofThis %s %s" % (q(p[1]), q(p[2]))
    if k == "param":
        return "PParam %s %s" % (q(p[1]), q(p[2]))
    if k == "param-this":
        return "PParamThis %s %s" % (q(p[1]), q(p[2]))
    if k == "catch":
        return "PCatch %s %s" % (q(p[1]), q(p[2]))
    if k == "call":
        return "PCall %s %s" % (q(p[1]), q(p[2]))
    if k == "self":
        return "PSelf %s %s %s" % (q(p[1]), q(p[2]), q(p[3]))
    if k == "static":
        return "PStatic %s %s %s" % (q(p[1]), q(p[2]), q(p[3]))
    if k == "parent":
        return "PParent %s %s %s" % (q(p[1]), q(p[2]), q(p[3]))
    if k == "like":
        return "PLike %s %s" % (q(p[1]), q(p[2]))
    if k in ("parent-static", "parent-self", "parent-parent"):
        return "%s %s %s %s %s" % ({"parent-static": "PParentStatic", "parent-self": "PParentSelf", "parent-parent": "PParentParent"}[k],
                                   q(p[1]), q(p[2]), q(p[3]), q(p[4]))
    if k == "like-this":
        return "PLikeThis %s %s" % (q(p[1]), q(p[2]))
    if k == "catch-union":
        return "PCatchUnion %s %s %s" % (q(p[1]), q(p[2]), q(p[3]))
    if k in ("static-entry-self", "static-entry-static", "static-entry-parent"):
        return "%s %s %s %s" % ({"static-entry-self": "PSEntrySelf", "static-entry-static": "PSEntryStatic", "static-entry-parent": "PSEntryParent"}[k],
                                q(p[1]), q(p[2]), q(p[3]))
    raise ValueError(k)


def parse_answers(out, probes):
    lines = [l for l in out.split("\n")]
    if lines and lines[-1] == "":
        lines = lines[:-1]
    if len(lines) != len(probes):
        return None
    res = []
    for l, p in zip(lines, probes):
        if p[0] in ("instanceof", "instanceof-this", "param", "param-this", "catch", "like", "like-this", "catch-union"):
            if l not in ("0", "1"):
                return None
            res.append("ABool %s" % ("true" if l == "1" else "false"))
        else:
            if l == "ERR":
                res.append("AName None")
            elif "::" in l:
                res.append("AName (Some %s)" % q(l.split("::")[0]))
            else:
                return None
    return res


# ------------------------------------------------------------------ generators
def forests(n):
    """all parent assignments: class k (0-based) extends one of the earlier classes or nothing"""
    return itertools.product(*[[None] + list(range(k)) for k in range(n)])


def subtype_probes(h):
    types = [c["name"] for c in h["classes"]] + [i["name"] for i in h["ifaces"]]
    ps = []
    for c in h["classes"]:
        if c.get("builtin"):
            continue
        for t in types:
            for k in ("instanceof", "instanceof-this", "param", "param-this", "catch"):
                ps.append((k, c["name"], t))
        # catch (T1 | T2): every unordered pair when the hierarchy is small, else the first type with each other
        pairs = [(a, b) for i, a in enumerate(types) for b in types[i + 1:]]
        if len(types) > 4:
            pairs = pairs[:len(types)]
        for a, b in pairs:
            ps.append(("catch-union", c["name"], a, b))
    return ps


def enum_subtype():
    """every hierarchy with 1..3 classes (single inheritance, parents declared first) and 0..2
    interfaces (the second may extend the first), every implements relation"""
    cases = []
    for n in (1, 2, 3):
        for par in forests(n):
            for m in (0, 1, 2):
                icfgs = {0: [[]], 1: [[[]]], 2: [[[], []], [[], ["I1"]]]}[m]
                for icfg in icfgs:
                    inames = ["I%d" % (k + 1) for k in range(m)]
                    subsets = [[x for x, b in zip(inames, bits) if b] for bits in itertools.product([0, 1], repeat=m)]
                    for impls in itertools.product(subsets, repeat=n):
                        h = {"classes": [{"name": "C%d" % (k + 1), "extends": ("C%d" % (par[k] + 1)) if par[k] is not None else None,
                                          "impls": list(impls[k]), "methods": []} for k in range(n)],
                             "ifaces": [{"name": inames[k], "extends": list(icfg[k]), "methods": []} for k in range(m)]}
                        cases.append({"h": h, "probes": subtype_probes(h), "script": "s", "gen": "enum-subtype"})
    return cases


def dispatch_probes(h, like_targets):
    ps = []
    names = sorted(set(m for c in h["classes"] for m, st, a in c["methods"]))
    for c in h["classes"]:
        r = c["name"]
        for m in ["f", "g", "s", "u"]:
            if m in names:
                ps.append(("call", r, m))
        if "ks" in names:
            ps.append(("self", r, "ks", "s"))
        if "kt" in names:
            ps.append(("static", r, "kt", "s"))
        if "kp" in names:
            ps.append(("parent", r, "kp", "f"))
        if "kq" in names:
            ps.append(("parent", r, "kq", "s"))
        if "kr" in names:
            ps.append(("parent-static", r, "kr", "kt", "s"))
        if "kv" in names:
            ps.append(("parent-self", r, "kv", "ks", "s"))
        if "kw" in names:
            ps.append(("parent-parent", r, "kw", "kp", "f"))
        for t in like_targets:
            ps.append(("like", r, t))
            if ("lk_" + t) in names:
                ps.append(("like-this", r, t))
        if "zs" in names:
            ps.append(("static-entry-self", r, "zs", "s"))
        if "zt" in names:
            ps.append(("static-entry-static", r, "zt", "s"))
        if "zp" in names:
            ps.append(("static-entry-parent", r, "zp", "s"))
    return ps


def like_parent_iface_cases():
    """`like` against an interface that EXTENDS other interfaces (one parent, a chain of two, two parents): only the methods
    the target itself declares count.  Objects: with exactly the target's method; plus the parent's method with the right /
    with another parameter count; with only the parent's method; with nothing; and a subclass inheriting the method"""
    cases = []
    shapes = [[("P1", [], [("g", 1)]), ("T1", ["P1"], [("f", 0)])],
              [("P0", [], [("h", 2)]), ("P1", ["P0"], [("g", 1)]), ("T1", ["P1"], [("f", 0)])],
              [("P1", [], [("g", 1)]), ("P2", [], [("h", 0)]), ("T1", ["P1", "P2"], [("f", 0), ("u", 1)])]]
    for ifs in shapes:
        own = dict((n, ms) for n, _, ms in ifs)["T1"]
        variants = [("X1", list(own)),                                  # exactly the target's own methods
                    ("X2", list(own) + [("g", 1)]),                     # + the parent's method, same parameter count
                    ("X3", list(own) + [("g", 0)]),                     # + the parent's method, another parameter count
                    ("X4", [("g", 1), ("h", 2)]),                       # only ancestors' methods
                    ("X5", []),
                    ("X6", [(m, a + 1) for m, a in own])]               # the target's methods with another parameter count
        classes = [{"name": n, "extends": None, "impls": [], "methods": [(m, False, a) for m, a in ms]} for n, ms in variants]
        classes.append({"name": "X7", "extends": "X1", "impls": [], "methods": []})
        h = {"classes": classes, "ifaces": [{"name": n, "extends": ext, "methods": ms} for n, ext, ms in ifs]}
        probes = [("like", c["name"], t) for c in classes for t in [n for n, _, _ in ifs]]
        cases.append({"h": h, "probes": probes, "script": "d", "gen": "like-parent-interfaces"})
    return cases


def enum_dispatch():
    """every forest of 1..3 classes x every choice of which classes declare f (instance) and s
    (static); ks/kt (self::s / static::s) in the root classes, kp/kq (parent::f / parent::s) in
    every class that has a parent"""
    cases = []
    for n in (1, 2, 3):
        for par in forests(n):
            for bits in itertools.product([0, 1, 2, 3], repeat=n):
                classes = []
                for k in range(n):
                    ms = []
                    if bits[k] & 1:
                        ms.append(("f", False, 1))
                    if bits[k] & 2:
                        ms.append(("s", True, 0))
                    if par[k] is None:
                        ms += [("ks", False, 0), ("kt", False, 0), ("zs", True, 0), ("zt", True, 0)]
                        ms += [("lk_" + t, False, 0) for t in ["C%d" % (j + 1) for j in range(n)] + ["M1"]]
                    else:
                        ms.append(("zp", True, 0))
                        ms += [("kp", False, 0), ("kq", False, 0), ("kr", False, 0), ("kv", False, 0)]
                        if par[par[k]] is not None:
                            ms.append(("kw", False, 0))
                    classes.append({"name": "C%d" % (k + 1), "extends": ("C%d" % (par[k] + 1)) if par[k] is not None else None,
                                    "impls": [], "methods": ms})
                h = {"classes": classes, "ifaces": [{"name": "M1", "extends": [], "methods": [("f", 1)]}]}
                cases.append({"h": h, "probes": dispatch_probes(h, [c["name"] for c in classes] + ["M1"]),
                              "script": "d", "gen": "enum-dispatch"})
    return cases


def seeded_hierarchy(rng, with_methods):
    n = rng.randint(2, 5)
    m = rng.randint(0, 4)
    inames = ["I%d" % (k + 1) for k in range(m)]
    ifaces = []
    for k in range(m):
        ext = [inames[j] for j in range(k) if rng.random() < 0.45]      # multiple extends, DAG by index
        rng.shuffle(ext)
        ifaces.append({"name": inames[k], "extends": ext, "methods": []})
    classes = []
    for k in range(n):
        par = None
        if k > 0 and rng.random() < 0.75:
            par = "C%d" % (rng.randint(0, k - 1) + 1)
        impls = [x for x in inames if rng.random() < 0.3]
        rng.shuffle(impls)
        ms = []
        if with_methods:
            for mname in ("f", "g"):
                if rng.random() < 0.45:
                    ms.append((mname, False, rng.choice([0, 1, 1, 2])))
            for mname in ("s", "u"):
                if rng.random() < 0.4:
                    ms.append((mname, True, 0))
            for mname in ("ks", "kt"):
                if rng.random() < 0.4:
                    ms.append((mname, False, 0))
            for mname in ("zs", "zt"):
                if rng.random() < 0.35:
                    ms.append((mname, True, 0))
            if par is not None and rng.random() < 0.4:
                ms.append(("zp", True, 0))
            if par is not None:
                for mname in ("kp", "kq", "kr", "kv"):
                    if rng.random() < 0.5:
                        ms.append((mname, False, 0))
            rng.shuffle(ms)
        classes.append({"name": "C%d" % (k + 1), "extends": par, "impls": impls, "methods": ms})
    return {"classes": classes, "ifaces": ifaces}


def seeded(rng, n_sub, n_disp):
    cases = []
    for _ in range(n_sub):
        h = seeded_hierarchy(rng, False)
        cases.append({"h": h, "probes": subtype_probes(h), "script": "s", "gen": "seeded-subtype"})
    for _ in range(n_disp):
        h = seeded_hierarchy(rng, True)
        ducks = []
        for k in range(rng.randint(1, 3)):
            ms = [(mn, rng.choice([0, 1, 2])) for mn in ("f", "g") if rng.random() < 0.6]
            ducks.append({"name": "M%d" % (k + 1), "extends": [], "methods": ms})
        h["ifaces"] = h["ifaces"] + ducks
        targets = [c["name"] for c in h["classes"]] + [d["name"] for d in ducks]
        for c in h["classes"]:
            if c["extends"] is None:
                c["methods"] = c["methods"] + [("lk_" + t, False, 0) for t in targets]
        cases.append({"h": h, "probes": dispatch_probes(h, targets), "script": "d", "gen": "seeded-dispatch"})
    return cases


def deep_cases(rng):
    """deep structures the enumeration (<= 3 classes, <= 2 interfaces) cannot reach: straight interface
    chains of depth 3..6, class chains of depth 3..6, an interface chain hanging under a class chain,
    chain + diamond mixes, with the implementing class at every level of the class chain.  Every
    (object, type) pair through the five subtype forms."""
    cases = []

    def mk(classes, ifaces, gen):
        h = {"classes": [{"name": n, "extends": e, "impls": list(i), "methods": []} for n, e, i in classes],
             "ifaces": [{"name": n, "extends": list(e), "methods": []} for n, e in ifaces]}
        cases.append({"h": h, "probes": subtype_probes(h), "script": "s", "gen": gen})

    for d in range(3, 7):
        chain = [("I0", [])] + [("I%d" % k, ["I%d" % (k - 1)]) for k in range(1, d + 1)]
        # the class implementing the most derived interface, and a subclass of it
        mk([("C1", None, ["I%d" % d]), ("C2", "C1", []), ("C3", None, [])], chain, "deep-iface-chain")
        # implemented half-way up, and at two levels
        mk([("C1", None, ["I%d" % (d // 2)]), ("C2", "C1", ["I%d" % d])], chain, "deep-iface-chain")
        # chain in declaration order reversed (children declared before parents)
        mk([("C1", None, ["I%d" % d])], list(reversed(chain)), "deep-iface-chain")
    for d in range(3, 7):
        cls = [("C1", None, ["I1"])] + [("C%d" % k, "C%d" % (k - 1), []) for k in range(2, d + 1)]
        mk(cls, [("I0", []), ("I1", ["I0"])], "deep-class-chain")
        # interface chain of the same depth implemented at the root of the class chain
        chain = [("I0", [])] + [("I%d" % k, ["I%d" % (k - 1)]) for k in range(1, d + 1)]
        mk([("C1", None, ["I%d" % d])] + [("C%d" % k, "C%d" % (k - 1), []) for k in range(2, d + 1)], chain, "deep-class+iface-chain")
        # implemented in the middle of the class chain
        mid = max(2, d // 2)
        mk([("C%d" % k, ("C%d" % (k - 1)) if k > 1 else None, (["I%d" % d] if k == mid else [])) for k in range(1, d + 1)],
           chain, "deep-class+iface-chain")
    for tail in range(1, 4):
        # diamond I1a,I1b over I0, joined by I2, then a chain of `tail` more interfaces; and a chain ABOVE a diamond
        dia = [("I0", []), ("I1a", ["I0"]), ("I1b", ["I0"]), ("I2", ["I1a", "I1b"])]
        ch = [("J%d" % k, [("J%d" % (k - 1)) if k > 1 else "I2"]) for k in range(1, tail + 1)]
        mk([("C1", None, ["J%d" % tail]), ("C2", "C1", [])], dia + ch, "chain+diamond")
        top = [("T0", [])] + [("T%d" % k, ["T%d" % (k - 1)]) for k in range(1, tail + 1)]
        dia2 = [("D1a", ["T%d" % tail]), ("D1b", ["T%d" % tail]), ("D2", ["D1a", "D1b"]), ("D3", ["D2"])]
        mk([("C1", None, ["D3"]), ("C2", "C1", [])], top + dia2, "chain+diamond")
    # the built-in exception hierarchy: user classes under Exception (class Exception implements Throwable),
    # probed against Exception / Throwable / their own interfaces, incl. catch (Throwable) and union catch
    EXC = {"name": "Exception", "extends": None, "impls": ["Throwable"], "methods": [], "builtin": True}
    THR = {"name": "Throwable", "extends": [], "methods": [], "builtin": True}
    for shape in ([("E1", "Exception", ["I1"]), ("E2", "E1", []), ("P", None, [])],
                  [("E1", "Exception", []), ("E2", "Exception", ["I1"]), ("E3", "E2", []), ("P", None, ["I1"])]):
        h = {"classes": [dict(EXC)] + [{"name": n, "extends": e, "impls": list(i), "methods": []} for n, e, i in shape],
             "ifaces": [dict(THR), {"name": "I1", "extends": [], "methods": []}], "exceptions": True}
        cases.append({"h": h, "probes": subtype_probes(h), "script": "s", "gen": "builtin-exceptions"})
    # forward references: the extended interface is declared AFTER the extending one (I1 extends I2)
    for impls in (["I1"], ["I2"], ["I1", "I2"]):
        mk([("C1", None, impls), ("C2", "C1", [])], [("I1", ["I2"]), ("I2", [])], "forward-reference")
    # seeded chain-biased hierarchies: each interface extends its predecessor with high probability
    for _ in range(60):
        m = rng.randint(4, 7)
        ifs = []
        for k in range(m):
            ext = []
            if k > 0 and rng.random() < 0.85:
                ext.append("I%d" % (k - 1))
            if k > 1 and rng.random() < 0.25:
                ext.append("I%d" % rng.randint(0, k - 2))
            ifs.append(("I%d" % k, ext))
        n = rng.randint(2, 5)
        cl = []
        for k in range(n):
            par = ("C%d" % k) if (k > 0 and rng.random() < 0.85) else None
            impls = [rng.choice(ifs)[0]] if rng.random() < 0.6 else []
            cl.append(("C%d" % (k + 1), par, impls))
        mk(cl, ifs, "seeded-deep")
    return cases


def decl_cases(rng, n):
    """interface declaration lists in source order (forward references allowed), about half of them
    containing an extends cycle (self loop, 2-cycle, longer, reached through a second parent)"""
    fixed = [
        [("P", ["Q"]), ("Q", ["P"])],
        [("S", ["S"])],
        [("P", ["Q"]), ("Q", ["R"]), ("R", ["P"])],
        [("A", []), ("B", ["A"]), ("C", ["B"]), ("A2", ["C"])],
        [("L", ["J", "K"]), ("J", ["I"]), ("K", ["I"]), ("I", [])],
        [("I", []), ("J", ["I"]), ("K", ["I", "J"]), ("M", ["K", "I"])],
        [("X", ["Y", "Z"]), ("Y", []), ("Z", ["W"]), ("W", ["X"])],
    ]
    cases = [{"decls": d} for d in fixed]
    for _ in range(n):
        m = rng.randint(2, 6)
        names = ["D%d" % k for k in range(m)]
        order = names[:]
        rng.shuffle(order)
        decls = []
        for k, nm in enumerate(order):
            ext = [x for x in names if x != nm and rng.random() < 0.3]
            if rng.random() < 0.05:
                ext.append(nm)
            rng.shuffle(ext)
            decls.append((nm, ext))
        cases.append({"decls": decls})
    for c in cases:
        c["src"] = "".join("interface %s%s {}\n" % (nm, (" extends " + ", ".join(ext)) if ext else "") for nm, ext in c["decls"]) + 'echo "ok\n";\n'
    return cases


# ------------------------------------------------------------------ call chains of arbitrary length
HOPC = {"this": "HThis", "self": "HSelf", "static": "HStatic", "parent": "HParent"}


def chain_script(c):
    """classes: [(name, extends, [methods declared])]; method c<i> is reached by hop i (c0 by the entry); its body
    returns the name of the class it is written in followed by what the next hop returns"""
    hops = c["hops"]
    n = len(hops)
    static = [c["entry_static"]] + [h in ("self", "static") or h.startswith("named:") for h in hops]
    out = []
    for name, ext, ms in c["classes"]:
        out.append("class %s%s {" % (name, (" extends " + ext) if ext else ""))
        for i in ms:
            if i < n:
                call = (hops[i][6:] + "::c%d()" if hops[i].startswith("named:") else
                        {"this": "$this->c%d()", "self": "self::c%d()", "static": "static::c%d()", "parent": "parent::c%d()"}[hops[i]]) % (i + 1)
                body = 'return "%s," . %s;' % (name, call)
            else:
                body = 'return "%s";' % name
            out.append("  public %sfunction c%d() { %s }" % ("static " if static[i] else "", i, body))
        out.append("}")
    if c["entry_static"]:
        out.append('try { echo %s::c0(), "\\n"; } catch (Throwable $e) { echo "ERR\\n"; }' % c["r"])
    else:
        out.append('$o = new %s();\ntry { echo $o->c0(), "\\n"; } catch (Throwable $e) { echo "ERR\\n"; }' % c["r"])
    return "\n".join(out) + "\n"


def chain_spec(c):
    """the reference semantics, recomputed here only to keep generated chains inside the theorem's hypotheses
    (returns (trace or None, ok)); the verdicts come from Coq"""
    par = {n: e for n, e, _ in c["classes"]}
    decl = {n: set(ms) for n, _, ms in c["classes"]}
    def resolve(n, i):
        while n is not None:
            if i in decl[n]:
                return n
            n = par[n]
        return None
    run = c["r"]
    lex = resolve(run, 0)
    if lex is None:
        return None, True
    trace, inst, ok = [lex], not c["entry_static"], True
    for i, h in enumerate(c["hops"]):
        if h == "this" and not inst:
            ok = False
        if h == "parent" and par[lex] is None:
            ok = False
        if h.startswith("named:"):
            run = h[6:]             # a call that names a class: static:: is that class from here on
            d = resolve(run, i + 1)
        else:
            d = {"this": lambda: resolve(run, i + 1), "static": lambda: resolve(run, i + 1), "self": lambda: resolve(lex, i + 1),
                 "parent": lambda: resolve(par[lex], i + 1) if par[lex] is not None else None}[h]()
        if d is None:
            return None, ok
        lex = d
        trace.append(d)
        if h in ("self", "static") or h.startswith("named:"):
            inst = False
    return trace, ok


def chain_cases(rng, tier):
    """4-class hierarchies (a straight chain A<-B<-C<-D and a chain with a fork), every sequence of 1-3 hops over
    {$this->, self::, static::, parent::} that keeps `$this->` before the first self:: / static::, from an object entry
    and from a static entry, started on each of the three lowest classes, with the methods declared by alternating /
    random subsets of the classes; sampled sequences of 4-5 hops"""
    shapes = [[("A", None), ("B", "A"), ("C", "B"), ("D", "C")],
              [("A", None), ("B", "A"), ("C", "B"), ("D", "B")]]
    forms = ["this", "self", "static", "parent", "named"]       # named = C::m() with C a class of the hierarchy
    def valid(seq, static_entry):
        inst = not static_entry
        for h in seq:
            if h == "this" and not inst:
                return False
            if h in ("self", "static", "named"):
                inst = False
        return True
    seqs = []
    for se in (False, True):
        for n in (1, 2, 3):
            for seq in itertools.product(forms, repeat=n):
                if valid(seq, se):
                    seqs.append((se, list(seq), "chain%d" % n))
        for _ in range(120 if tier == "quick" else 1500):
            seq = [rng.choice(forms) for _ in range(rng.randint(4, 5))]
            if valid(seq, se):
                seqs.append((se, seq, "chain%d" % len(seq)))
    pats = [["A", "B", "C", "D"], ["A", "C"], ["B", "D"], ["A"], ["A", "D"], ["B", "C"], ["A", "B"], ["C", "D"]]
    cases = []
    for se, seq, gen in seqs:
        for shape in shapes:
            for r in ("D", "C", "B"):
                if shape is shapes[1] and r == "B":
                    continue
                assigns = [[pats[0]] * (len(seq) + 1)]
                assigns += [[rng.choice(pats) for _ in range(len(seq) + 1)] for _ in range(3 if tier == "quick" else 8)]
                for a in assigns:
                    classes = [(n, e, [i for i in range(len(seq) + 1) if n in a[i]]) for n, e in shape]
                    # the class a `named` hop names: an ancestor of the start class (or the class itself), sometimes any class
                    par = dict(shape)
                    up = [r]
                    while par[up[-1]] is not None:
                        up.append(par[up[-1]])
                    hops = [("named:" + (rng.choice(up) if rng.random() < 0.8 else rng.choice([n for n, _ in shape]))) if h == "named" else h for h in seq]
                    c = {"classes": classes, "entry_static": se, "r": r, "hops": hops, "gen": gen}
                    tr, ok = chain_spec(c)
                    if not ok:
                        continue
                    if tr is None and rng.random() < 0.8:
                        continue          # keep only some of the chains that end in "no such method"
                    cases.append(c)
    return cases


def coq_chain(c, seen):
    static = [c["entry_static"]] + [h in ("self", "static") or h.startswith("named:") for h in c["hops"]]
    h = {"classes": [{"name": n, "extends": e, "impls": [], "methods": [("c%d" % i, static[i], 0) for i in ms]} for n, e, ms in c["classes"]], "ifaces": []}
    hops = coq_list(('HNamed "%s" "c%d"' % (x[6:], i + 1)) if x.startswith("named:") else ('%s "c%d"' % (HOPC[x], i + 1)) for i, x in enumerate(c["hops"]))
    return "(%s, %s, %s, %s, %s, %s)" % (coq_table(h), "true" if c["entry_static"] else "false", q(c["r"]), q("c0"), hops,
                                         "None" if seen is None else "(Some %s)" % coq_list(q(x) for x in seen))


def run_impl(binary, srcs):
    inp = "\n".join(json.dumps({"src": s}) for s in srcs) + "\n"
    p = subprocess.run([binary], input=inp, stdout=subprocess.PIPE, stderr=subprocess.PIPE, text=True, timeout=900)
    outs = [json.loads(l) for l in p.stdout.splitlines() if l.strip()]
    return outs, p.returncode, p.stderr


def main(ck):
    rng = ck.rng
    ck.trusted += [
        "harness/cmd/c08 (Go: vrun.RunString, fresh VM per script) and checks/C08.py (hierarchy generators, script and Coq term printers, answer parser)",
        "vm.GetClass / GetInterface modelled as exact-name table lookups (case-insensitive fallback of GetClass not modelled; generated names differ in more than case); class autoloading not modelled (closed tables)",
        "the probe scripts' plumbing (echo, try/catch around a call, default parameter values, string return values) is assumed to deliver the answer unchanged",
        "not modelled: traits, abstract classes, __call/__callStatic, closures bound to classes, namespaces, the Throwable hierarchy of built-in exceptions (catch is probed with thrown user objects)",
    ]
    ck.prove()
    binary, out = ck.go_build("c08")
    if binary is None:
        ck.broken.append("harness-build")
        ck.finish(evaluations=0, distinct_nontrivial=0, rule="harness did not build")

    hcases = []
    if ck.replay and "hops" in json.load(open(ck.replay)).get("case", {}):
        c = json.load(open(ck.replay))["case"]
        c["classes"] = [(n, e, list(ms)) for n, e, ms in c["classes"]]
        hcases, cases = [c], []
    elif ck.replay:
        rp = json.load(open(ck.replay))
        c = rp["case"]
        c["probes"] = [tuple(p) for p in c["probes"]]
        for cl in c["h"]["classes"]:
            cl["methods"] = [tuple(x) for x in cl["methods"]]
        for i in c["h"]["ifaces"]:
            i["methods"] = [tuple(x) for x in i["methods"]]
        cases = [c]
    else:
        hcases = chain_cases(rng, ck.tier)
        cases = enum_subtype() + enum_dispatch() + like_parent_iface_cases() + deep_cases(rng)
        if ck.tier == "quick":
            cases += seeded(rng, 250, 350)
        else:
            cases += seeded(rng, 4000, 6000)

    dcases = [] if ck.replay else decl_cases(rng, 300 if ck.tier == "quick" else 5000)
    # class extends cycles cannot be written at all: the parent must already be declared
    ccyc = [] if ck.replay else ["class X extends Y {}\nclass Y extends X {}\necho \"ok\\n\";\n", "class X extends X {}\necho \"ok\\n\";\n"]
    srcs = [s_script(c["h"], c["probes"]) if c["script"] == "s" else d_script(c["h"], c["probes"]) for c in cases]
    outs, rc, err = run_impl(binary, srcs + [c["src"] for c in dcases] + ccyc)
    if len(outs) == len(srcs) + len(dcases) + len(ccyc):
        douts, couts = outs[len(srcs):len(srcs) + len(dcases)], outs[len(srcs) + len(dcases):]
        outs = outs[:len(srcs)]
        dterms = []
        for c, o in zip(dcases, douts):
            acc = o["outcome"] == "ok" and o["out"].strip() == "ok"
            c["accepted"] = acc
            dterms.append("(%s, %s)" % (coq_list('("%s", {| i_extends := %s; i_methods := [] |})' % (nm, coq_list(q(x) for x in ext)) for nm, ext in c["decls"]),
                                        "true" if acc else "false"))
        dbad = ck.eval_cases("dcases", HEADER, dterms, "check_dcase", shard=200) if dterms else {}
        for j, cls in sorted(dbad.items(), key=lambda kv: len(dcases[kv[0]]["decls"])):
            c = dcases[j]
            rep = {"case": {"decls": c["decls"]}, "script": c["src"], "accepted": c["accepted"], "clauses": cls}
            if 2 in cls:
                ck.violation("decl:interface-%s" % ("cycle-accepted" if c["accepted"] else "acyclic-refused"),
                             dict(rep, clause="declared_interfaces_stay_acyclic / cyclic_declaration_refused"))
            if 1 in cls:
                ck.broken.append("correspondence:C08.declare")
                if 2 not in cls:
                    ck.violation("tie:decl", dict(rep, clause="model vs implementation (tie)"))
        for src, o in zip(ccyc, couts):
            if o["outcome"] == "ok" and "ok" in o["out"]:
                ck.violation("decl:class-cycle-accepted", {"script": src, "impl_out": o, "clause": "acyclic (class extends chains): the parent must be declared first"})
        ck.cov["declaration_cases"] = {"interface_lists": len(dcases), "accepted": sum(1 for c in dcases if c["accepted"]), "class_cycles": len(ccyc)}
    if len(outs) != len(srcs):
        ck.log("harness returned %d results for %d cases rc=%d\n%s" % (len(outs), len(srcs), rc, err[-2000:]))
        ck.broken.append("harness-run")
        ck.finish(evaluations=len(outs), distinct_nontrivial=0, rule="harness crashed")

    # ---- call chains
    hsrcs = [chain_script(c) for c in hcases]
    houts, rc, err = run_impl(binary, hsrcs) if hcases else ([], 0, "")
    if len(houts) != len(hcases):
        ck.log("harness returned %d results for %d chain cases rc=%d\n%s" % (len(houts), len(hcases), rc, err[-2000:]))
        ck.broken.append("harness-run:chains")
        ck.finish(evaluations=len(houts), distinct_nontrivial=0, rule="harness crashed")
    hterms, hidx = [], []
    for i, (c, o) in enumerate(zip(hcases, houts)):
        line = o["out"].strip()
        if o["outcome"] != "ok" or not line or "\n" in line:
            ck.violation("impl-error:chain:%s" % o["outcome"], {"case": c, "impl_out": o, "script": hsrcs[i], "clause": "script did not run to completion"})
            continue
        c["_seen"] = None if line == "ERR" else line.split(",")
        hterms.append(coq_chain(c, c["_seen"]))
        hidx.append(i)
    hbad = ck.eval_cases("hcases", HEADER, hterms, "check_hcase", shard=300) if hterms else {}
    for j, cls in sorted(hbad.items(), key=lambda kv: len(hcases[hidx[kv[0]]]["hops"])):
        i = hidx[j]
        c = hcases[i]
        forms = ("static-entry>" if c["entry_static"] else "object>") + ">".join(h.split(":")[0] for h in c["hops"])
        rep = {"case": {k: c[k] for k in ("classes", "entry_static", "r", "hops", "gen")}, "script": hsrcs[i], "impl_trace": c["_seen"],
               "reference_trace": chain_spec(c)[0], "clauses": cls}
        if 99 in cls or 3 in cls:
            ck.broken.append("generator:chain-outside-hypotheses")
            ck.violation("generator:chain", dict(rep, clause="generated chain is outside the theorem's hypotheses"), no_failing_input=True)
            continue
        if 2 in cls:
            ck.violation("chain:%s" % forms, dict(rep, clause="call_chain_follows_hierarchy: a hop ran another class's definition than the reference semantics names"))
        if 1 in cls:
            ck.broken.append("correspondence:C08.chain")
            if 2 not in cls:
                ck.violation("tie:chain:%s" % forms, dict(rep, clause="model vs implementation (tie)"))
    ck.cov["call_chains"] = {"cases": len(hcases), "by_length": {str(k): sum(1 for c in hcases if len(c["hops"]) == k) for k in range(1, 6)},
                             "static_entry": sum(1 for c in hcases if c["entry_static"]),
                             "ending_in_no_such_method": sum(1 for c in hcases if c.get("_seen") is None),
                             "hops": sum(len(c["hops"]) for c in hcases)}

    terms, idx = [], []
    for i, (c, o) in enumerate(zip(cases, outs)):
        seen = parse_answers(o["out"], c["probes"]) if o["outcome"] == "ok" else None
        if seen is None:
            ck.violation("impl-error:%s:%s" % (c["script"], o["outcome"]),
                         {"case": c, "impl_out": o, "script": srcs[i], "clause": "script did not run to completion / unexpected output"})
            continue
        terms.append("(%s, %s, %s)" % (coq_table(c["h"]), coq_list(coq_probe(p) for p in c["probes"]), coq_list(seen)))
        idx.append(i)
    bad = ck.eval_cases("cases", HEADER, terms, "check_case", shard=150)
    for j, cls in sorted(bad.items(), key=lambda kv: len(cases[idx[kv[0]]]["h"]["classes"])):
        i = idx[j]
        c, o = cases[i], outs[i]
        if 99 in cls or 98 in cls:
            ck.broken.append("generator:ill-formed-table")
            ck.violation("generator", {"case": c, "clause": "generated table is not well-formed / answer count"}, no_failing_input=True)
            continue
        pos = next((x - 1000 for x in cls if x >= 1000), None)
        kinds = sorted(set(x // 10 for x in cls if x < 1000))
        spec_bad = [x for x in cls if x < 1000 and x % 10 == 2]
        tie_bad = [x for x in cls if x < 1000 and x % 10 == 1]
        probe = c["probes"][pos] if pos is not None and pos < len(c["probes"]) else None
        rep = {"case": c, "script": srcs[i], "impl_out": o["out"].split("\n"), "first_differing_probe": probe,
               "probe_index": pos}
        kname = KIND.get(kinds[0], "?") if kinds else "?"
        if spec_bad:
            rep["clause"] = "implementation differs from the spec on a %s probe" % kname
            ck.violation("probe:%s" % kname, rep)
        if tie_bad:
            ck.broken.append("correspondence:C08.%s" % kname)
            if not spec_bad:
                rep["clause"] = "model vs implementation (tie) on a %s probe" % kname
                ck.violation("tie:%s" % kname, rep)

    # ---- coverage (measured)
    dist = {}
    shapes = set()
    nontriv = 0
    for c in cases:
        for p in c["probes"]:
            dist[p[0]] = dist.get(p[0], 0) + 1
        h = c["h"]
        key = json.dumps(h, sort_keys=True)
        if key in shapes:
            continue
        shapes.add(key)
        edges = sum(1 for x in h["classes"] if x["extends"]) + sum(len(x["impls"]) for x in h["classes"]) + sum(len(x["extends"]) for x in h["ifaces"])
        if edges >= 1:
            nontriv += 1
    ck.samples = [{"h": cases[300]["h"], "probes": cases[300]["probes"][:4]}, {"h": cases[-1]["h"], "probes": cases[-1]["probes"][:6]}] if len(cases) > 301 else []
    ck.cov["probe_kind_distribution"] = dist
    ck.cov["generators"] = {g: sum(1 for c in cases if c.get("gen") == g) for g in sorted(set(c.get("gen") for c in cases))}
    ck.cov["classes_per_hierarchy"] = {str(k): sum(1 for c in cases if len(c["h"]["classes"]) == k) for k in range(1, 8)}
    ck.cov["interfaces_per_hierarchy"] = {str(k): sum(1 for c in cases if len(c["h"]["ifaces"]) == k) for k in range(0, 8)}
    nprobes = sum(len(c["probes"]) for c in cases) + sum(len(c["hops"]) + 1 for c in hcases)
    ck.finish(level="proof", evaluations=nprobes, distinct_nontrivial=nontriv,
              rule="subtype: every hierarchy with 1-3 classes (every parent assignment) x 0-2 interfaces (second may extend first) x every "
                   "implements relation, each (object, type) pair through instanceof / $this instanceof / typed parameter / typed parameter "
                   "given $this / catch; dispatch: every forest of 1-3 classes x every choice of the classes declaring f and s, probed by "
                   "->f, ->s, self::s, static::s, parent::f, parent::s and like against every class and a one-method interface; like against interfaces that extend one / a chain of two / two other interfaces (only the target's own methods count); seeded "
                   "hierarchies with 2-5 classes, 0-4 interfaces with multiple extends, random overrides, arities and duck interfaces; deep "
                   "structures: straight interface chains and class chains of depth 3-6, interface chain under a class chain, chain+diamond "
                   "mixes, 60 seeded chain-biased hierarchies with 4-7 interfaces; "
                   "call chains: 4-class hierarchies (straight chain, chain with a fork), every sequence of 1-3 hops over $this-> / self:: / static:: / parent:: / C::m() (a named class of the hierarchy) "
                   "(`$this->` before the first self:: / static::) from an object entry and a static entry, started on the three lowest classes, methods declared by "
                   "all / alternating / random subsets of the classes, plus sampled sequences of 4-5 hops: the full trace of defining classes is compared; "
                   "evaluations = probes (+ hops); non-trivial = distinct hierarchy with at least one extends/implements edge",
              traces=sum(len(cases[i]["probes"]) for i in idx))
