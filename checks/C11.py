"""C11 — concurrent HTTP requests do not interfere: a response depends on its request.
Proof: coq/C11 (model of Handler.ServeHTTP's per-request flow over the package-level superglobal caches;
theorems over ALL schedules for per-request state, exclusive-window / serial isolation for superglobals,
refutation witness for overlapping requests).
Tie: (i) scripted interleavings on the REAL handler (ohttp.Handler.ServeHTTP, and a script-built
Net\\Http\\Server's ServeMux reached through GetSource()): N requests on N goroutines, the handler parks at
gates (a Go function registered into the VM) between its read segments and the engine releases one request
at a time following the schedule; every read prints the id of the request whose data it returned; the Coq
model is run on the same program and schedule.  (ii) free-running parallel load (2..64 in flight) in a child
process built with -race: every response is compared with its request, race reports are classified."""
import itertools
import json
import subprocess
import vcheck
from vcheck import coq_list

HEADER = "From V.C11 Require Import Spec Model FineModel Run.\n"

RD = {"_GET": "RSg GGet", "_POST": "RSg GPost", "_COOKIE": "RSg GCookie", "_SERVER": "RSg GServer", "_SERVERH": "RSg GServer",
      # $_REQUEST["id"]: the harness parses the form (as a form POST does), so http.Request.Form — which $_POST
      # is built from — also carries the query parameters and the POST part overrides the GET part on merge
      "_REQUEST": "RReq PPost", "_REQUESTP": "RReq PPost", "_REQUESTC": "RReq PCookie",
      "rquery": "RObj", "rheader": "RObj", "local": "RLocal", "arr": "RLocal", "obj": "RLocal", "clo": "RLocal", "loop": "RLocal",
      # state captured by value by the handler closure (route handler = function(...) use ($carr, $cmap, $ccnt)), mutated in
      # place by the request: each request sees it as it was at registration plus its own mutations — a private read
      "cap_arr": "RLocal", "cap_set": "RLocal", "cap_get": "RLocal", "cap_cnt": "RLocal",
      # a closure created by the request, with static locals: fresh statics per closure value — private
      "clo_static": "RLocal",
      # the response body is a JSON object written with $w->json(): the engine's verdict on the decoded body
      "jsonbody": "RLocal",
      # foreach over a process-wide static associative table that requests only read (parked inside the loop body)
      "static_iter": "RLocal",
      # except() on a key of the query string, and that key read through the request object
      "rexceptq": "RObj", "rtok": "RObj", "rtokq": "RObj",
      # a plain recursive function parked 14 frames deep; a shared service object with __get, requests parked inside __get while another reads the same undeclared property; a shared prototype object cloned per request
      "deep": "RLocal", "cap_clone": "RLocal",
      # a service object shared by all requests whose class has __get; the request parks inside __get
      "cap_magic": "RLocal",
      # per-request data through methods of the request object (all / only / except / query / Cookie header / formValue /
      # postFormValue / fullUrl / bind into a DTO with property defaults)
      "rall": "RObj", "ronly": "RObj", "rexcept": "RObj", "rqueryp": "RObj", "rcookie": "RObj", "rformval": "RObj",
      "rpostform": "RObj", "rurl": "RObj", "rbind": "RObj"}
RACC = ["rall", "ronly", "rexcept", "rqueryp", "rcookie", "rformval", "rpostform", "rurl", "rbind"]
GLOBAL_OF = {"_GET": "_GET", "_POST": "_POST", "_COOKIE": "_COOKIE", "_SERVER": "_SERVER", "_SERVERH": "_SERVER",
             "_REQUEST": "_REQUEST", "_REQUESTP": "_REQUEST", "_REQUESTC": "_REQUEST"}
SG = ["_GET", "_POST", "_COOKIE", "_SERVER", "_REQUEST", "_REQUESTP", "_REQUESTC"]
PRIV = ["rquery", "rheader", "local", "arr", "obj", "clo", "loop", "clo_static"] + RACC


def coq_prog(segs, mw=0, mwsg=False, quiet=False):
    if mwsg:
        # the outermost middleware parks at a gate and then reads $_GET before $next: one more segment in front
        return coq_prog([["_GET"]] + [list(x) for x in segs], mw, False, quiet)
    return _coq_prog(segs, mw, quiet)


def _coq_prog(segs, mw=0, quiet=False):
    # the handler sets status and the X-Id header from locals after its last read: two more private reads;
    # each middleware in front of it sets a header from the request object before $next and writes to the body
    # after it: two more request-object reads per middleware
    segs = [list(s) for s in segs]
    body = [coq_list("(%s)" % RD[x] for x in s) for s in segs[:-1]]
    # quiet handler: each middleware also sets a header from its local AFTER $next: a third private read
    body.append(coq_list(["(%s)" % RD[x] for x in segs[-1]] + ["RLocal", "RLocal"] + ["RObj"] * ((3 if quiet else 2) * mw)))
    return coq_list(body)


def owner(v):
    """the request number a printed value belongs to"""
    if v is None:
        return None
    v = str(v)
    if v.startswith("id="):
        v = v[3:]
    v = v.split("&")[0]          # the query string is id=<i>&tok=<i>
    return int(v) if v.isdigit() else None


def observed(segs, resp, mw=0, mwsg=False, quiet=False):
    vals = [owner(resp.get("mwg"))] if mwsg else []
    for k, seg in enumerate(segs):
        for j, _ in enumerate(seg):
            vals.append(owner(resp["fields"].get("s%dr%d" % (k, j))))
    vals.append(resp["status"] - 200 if resp.get("status") else None)
    vals.append(owner(resp.get("xid")))
    for j in range(mw):
        hdrs = resp.get("mw") or []
        vals.append(owner(hdrs[j]) if j < len(hdrs) else None)
        vals.append(owner(resp["fields"].get("m%db" % j)))
        if quiet:
            ha = resp.get("mwa") or []
            vals.append(owner(ha[j]) if j < len(ha) else None)
    return vals


def coq_obs(vals):
    return coq_list("None" if v is None else "(Some %d)" % v for v in vals)


def kinds_of(segs, mw=0, mwsg=False, quiet=False):
    return (["_GET"] if mwsg else []) + [x for s in segs for x in s] + ["status", "header"] + \
        [k for j in range(mw) for k in (("mw-header", "mw-after-next-marker", "mw-after-next-header") if quiet else ("mw-header", "mw-body"))]


def contiguous(order, i):
    """request i (0-based) ran all its stages with no other request stepping in between"""
    pos = [k for k, x in enumerate(order) if x == i]
    return bool(pos) and pos[-1] - pos[0] + 1 == len(pos)


def foreign_keys(segs, i, vals, window=False, mw=0, mwsg=False, quiet=False):
    """for request i (1-based): (kind, shape) of every read that returned foreign data;
    shape = first-read-foreign | changed-between-reads (the same superglobal answered with the request's own
    data earlier in this request)"""
    res = []
    seen_own = set()
    for kind, v in zip(kinds_of(segs, mw, mwsg, quiet), vals):
        g = GLOBAL_OF.get(kind)
        if v == i:
            if g:
                seen_own.add(g)
            continue
        if g:
            # a request that ran in an exclusive window (so also every request of a serial schedule) must read
            # only its own data: superglobals_isolated_exclusive_window_partial — never a known finding
            shape = "exclusive-window" if window else ("changed-between-reads" if g in seen_own else "first-read-foreign")
            res.append(("sg", g, shape))
        else:
            res.append(("private", kind, "-"))
    return res


# ------------------------------------------------------------------ generators
def interleavings(counts):
    """all schedules in which request i appears counts[i] times"""
    items = [i for i, c in enumerate(counts) for _ in range(c)]
    return sorted(set(itertools.permutations(items)))


def gated_cases(rng, tier):
    cases = []
    # the witness of the refutation, on both routes
    for route in ("handler", "mux"):
        cases.append({"segs": [["_GET"], ["_GET", "rquery", "local"]], "nreq": 2, "schedule": [0, 0, 1, 1, 0, 1], "route": route, "gen": "witness"})
    # every interleaving of two requests with two segments, for one program per superglobal
    for g in SG:
        prog = [[g, "local"], [g, "rquery", "obj"]]
        for sch in interleavings([3, 3]):
            cases.append({"segs": prog, "nreq": 2, "schedule": list(sch), "route": "handler", "gen": "all-2x2"})
    # parked at a gate between two reads while other requests run to completion (3 requests)
    for g in SG:
        prog = [[g], [g, "arr", "clo", "loop", "rheader"]]
        cases.append({"segs": prog, "nreq": 3, "schedule": [0, 0, 1, 1, 1, 2, 2, 2, 0], "route": "mux", "gen": "parked"})
        cases.append({"segs": prog, "nreq": 3, "schedule": [0, 1, 1, 1, 0, 2, 2, 2, 0], "route": "handler", "gen": "parked"})
    # routes behind 1-2 middlewares (header before $next, body write after it), plain and in a $server->group,
    # after a warm-up request: every interleaving of two requests x two segments, and parked shapes with three;
    # programs without superglobals (every difference is a violation) and with $_GET
    for mw, group in ((1, False), (2, False), (1, True), (2, True)):
        for prog in ([["local", "rquery"], ["arr", "obj", "clo"]], [["_GET", "local"], ["_GET", "rheader"]]):
            for sch in interleavings([3, 3]):
                cases.append({"segs": prog, "nreq": 2, "schedule": list(sch), "route": "mux", "mw": mw, "group": group, "warmup": True, "gen": "middleware-2x2"})
            for sch in ([0, 0, 1, 1, 1, 2, 2, 2, 0], [0, 1, 2, 2, 1, 0, 0, 1, 2], [2, 2, 0, 0, 0, 1, 1, 2, 1]):
                cases.append({"segs": prog, "nreq": 3, "schedule": sch, "route": "mux", "mw": mw, "group": group, "warmup": True, "gen": "middleware-parked"})
    # what a middleware does to $response and with its locals AFTER $next (a header from a local, then a marker): the
    # handler is quiet (no body write, pending status) so that nothing is committed before the middlewares return.
    # Shapes: every interleaving of two requests; A parked inside the handler while B (and C) pass through the same
    # chain completely, then A resumes; the same with a parked-in-the-middleware gate in front ($next called with
    # whatever $r/$w the middleware's frame holds at that time)
    for mw, group in ((1, False), (2, False), (2, True)):
        for prog in ([["local", "rquery"], ["arr", "obj"]], [["_GET", "local"], ["rheader"]]):
            for sch in interleavings([3, 3]):
                cases.append({"segs": prog, "nreq": 2, "schedule": list(sch), "route": "mux", "mw": mw, "group": group, "warmup": mw == 1, "quiet": True, "gen": "middleware-after-2x2"})
            for sch in ([0, 0, 1, 1, 1, 2, 2, 2, 0], [0, 1, 1, 1, 0, 2, 2, 2, 0], [0, 1, 2, 2, 2, 1, 1, 0, 0]):
                cases.append({"segs": prog, "nreq": 3, "schedule": sch, "route": "mux", "mw": mw, "group": group, "warmup": True, "quiet": True, "gen": "middleware-after-parked"})
    for sch in interleavings([4, 4]):
        cases.append({"segs": [["local"], ["rquery"]], "nreq": 2, "schedule": list(sch), "route": "mux", "mw": 1, "mwsg": True, "quiet": True, "gen": "middleware-after-sg"})
    # the route handler is a closure that captured an array, a map and a counter by value at registration and mutates them
    # in place (append, key store, increment): after a warm-up request, serial requests in every order (appends must not
    # accumulate), every interleaving of two requests (a key stored before a gate is read back after it), parked shapes
    capprog = [["cap_arr", "cap_set", "cap_cnt", "cap_clone", "local"], ["cap_get", "cap_arr", "cap_cnt", "cap_clone", "rquery"]]
    for mw in (0, 1):
        for order in itertools.permutations(range(3)):
            cases.append({"segs": capprog, "nreq": 3, "schedule": [i for i in order for _ in range(3)], "route": "mux", "mw": mw, "cap": True, "warmup": True, "gen": "captured-serial"})
        for sch in interleavings([3, 3]):
            cases.append({"segs": capprog, "nreq": 2, "schedule": list(sch), "route": "mux", "mw": mw, "cap": True, "warmup": mw == 0, "gen": "captured-2x2"})
        for sch in ([0, 0, 1, 1, 1, 2, 2, 2, 0], [0, 1, 2, 2, 1, 0, 0, 1, 2]):
            cases.append({"segs": capprog, "nreq": 3, "schedule": sch, "route": "mux", "mw": mw, "cap": True, "group": mw == 1, "warmup": True, "gen": "captured-parked"})
    # every Request method that returns per-request data, and a per-request closure with static locals: serial orders
    # after a warm-up (request 99 is odd: it sends the optional field that even requests omit), all 2x2 interleavings,
    # parked shapes; on the plain mux and behind a middleware
    accprog = [["rbind", "rall", "ronly", "rexcept", "rexceptq", "rtok", "rtokq", "clo_static"], ["rqueryp", "rcookie", "rformval", "rpostform", "rurl", "rbind", "rtok", "rtokq", "clo_static"]]
    for mw in (0, 1):
        for order in itertools.permutations(range(3)):
            cases.append({"segs": accprog, "nreq": 3, "schedule": [i for i in order for _ in range(3)], "route": "mux", "mw": mw, "warmup": True, "gen": "request-methods-serial"})
        for sch in interleavings([3, 3]):
            cases.append({"segs": accprog, "nreq": 2, "schedule": list(sch), "route": "mux", "mw": mw, "warmup": mw == 0, "gen": "request-methods-2x2"})
        cases.append({"segs": accprog, "nreq": 3, "schedule": [0, 0, 1, 1, 1, 2, 2, 2, 0], "route": "mux", "mw": mw, "group": True, "warmup": True, "gen": "request-methods-parked"})
    # an application mounted through the ANNOTATION router ($server->boot: #[Controller] + #[PostMapping] + #[Middleware(C)]):
    # the middleware is a CLASS that keeps the id of the request it serves on $this between its two halves.  Serial orders
    # (superglobals included: the route must reset the caches at entry, fix da364f3), all 2x2 interleavings, parked shapes
    for prog in ([["local", "rquery"], ["arr", "obj", "clo"]], [["_GET", "local"], ["_GET", "rheader"]]):
        for order in itertools.permutations(range(3)):
            cases.append({"segs": prog, "nreq": 3, "schedule": [i for i in order for _ in range(3)], "route": "annot", "mw": 1, "warmup": True, "gen": "annotation-serial"})
        for sch in interleavings([3, 3]):
            cases.append({"segs": prog, "nreq": 2, "schedule": list(sch), "route": "annot", "mw": 1, "warmup": True, "gen": "annotation-2x2"})
        for sch in ([0, 0, 1, 1, 1, 2, 2, 2, 0], [0, 1, 2, 2, 1, 0, 0, 1, 2]):
            cases.append({"segs": prog, "nreq": 3, "schedule": sch, "route": "annot", "mw": 1, "warmup": True, "gen": "annotation-parked"})
    # many requests in flight, each parked 14 frames deep in a plain recursive function (a per-VM call-depth counter would
    # add them up): 40 requests enter, descend and park; then they finish one by one
    n = 40
    cases.append({"segs": [["deep", "local"]], "nreq": n, "schedule": [i for i in range(n) for _ in range(2)], "route": "mux", "mw": 0, "gen": "deep-frames-in-flight"})
    cases.append({"segs": [["deep", "local"]], "nreq": n, "schedule": [i for i in range(n) for _ in range(2)], "route": "handler", "gen": "deep-frames-in-flight"})
    # a shared object with __get: request A parked INSIDE __get('greeting') while B reads the same undeclared property
    mprog = [["cap_magic", "local"], ["cap_magic", "rquery"]]
    msch = [[0, 1] * 6, [0, 0, 1, 1, 1, 1, 1, 0, 0, 0], [0, 0, 1, 1, 0, 1, 1, 1, 0, 0], [1, 1, 0, 0, 0, 0, 0, 1, 1, 1]]
    for _ in range(8):
        x = [0] * 5 + [1] * 5
        rng.shuffle(x)
        msch.append(x)
    for sch in msch:
        cases.append({"segs": mprog, "nreq": 2, "schedule": sch, "route": "mux", "mw": 0, "cap": True, "gen": "shared-object-magic-get"})
    cases.append({"segs": mprog, "nreq": 3, "schedule": [0, 0, 1, 1, 2, 2, 2, 2, 1, 1, 0, 0], "route": "mux", "mw": 1, "cap": True, "gen": "shared-object-magic-get"})
    # read-only iteration of a shared static table: strictly alternating, nested windows and 12 shuffled schedules
    # (each request: entry + 3 parkings inside each of the two loops + 2 stage ends)
    iprog = [["static_iter", "local"], ["static_iter", "rquery"]]
    isch = [[0, 1] * 10, [0, 0, 1, 1, 1, 1, 1, 1, 1, 1, 1, 0], [0, 0, 0, 1, 1, 0, 0, 1, 1, 1]]
    for _ in range(12):
        x = [0] * 9 + [1] * 9
        rng.shuffle(x)
        isch.append(x)
    for sch in isch:
        cases.append({"segs": iprog, "nreq": 2, "schedule": sch, "route": "mux", "mw": 0, "gen": "static-table-iteration"})
    for sch in ([0, 0, 1, 1, 0, 1], [0, 1, 0, 1, 0, 1], [0, 0, 0, 1, 1, 1]):
        cases.append({"segs": [["local"], ["rquery", "jsonbody"]], "nreq": 2, "schedule": sch, "route": "mux", "mw": 1, "warmup": True, "gen": "json-body"})
    # a server with onFormat() registered and no onError(): the formatter wrapper is the outermost layer of every route.
    # Serial requests (must be clean) over every superglobal, plain / behind a middleware / with the middleware reading
    # $_GET before $next; and the 2x2 interleavings of one program
    sgprog = [["_GET", "_POST", "_COOKIE", "_SERVERH"], ["_SERVER", "_REQUEST", "_REQUESTP", "_REQUESTC", "local", "_SERVERH"]]
    for mw, mwsg in ((0, False), (1, False), (1, True)):
        for order in itertools.permutations(range(3)):
            cases.append({"segs": sgprog, "nreq": 3, "schedule": [i for i in order for _ in range(4 if mwsg else 3)], "route": "mux", "mw": mw, "mwsg": mwsg,
                          "onformat": True, "warmup": True, "gen": "onformat-serial"})
    for sch in interleavings([3, 3]):
        cases.append({"segs": [["_GET", "local"], ["_GET", "rquery"]], "nreq": 2, "schedule": list(sch), "route": "mux", "mw": 1, "onformat": True, "gen": "onformat-2x2"})
    # a middleware that reads $_GET BEFORE $next (after a gate): serial orders (must be clean: the reset happens at the
    # entry of the outermost layer) and every interleaving of two requests (stages: entry, mw read + handler segment 1, ...)
    for mw in (1, 2):
        prog = [["_GET", "local"], ["_GET"]]
        for order in itertools.permutations(range(3)):
            cases.append({"segs": prog, "nreq": 3, "schedule": [i for i in order for _ in range(4)], "route": "mux", "mw": mw, "mwsg": True, "warmup": True, "gen": "middleware-sg-serial"})
        for sch in interleavings([4, 4]):
            cases.append({"segs": prog, "nreq": 2, "schedule": list(sch), "route": "mux", "mw": mw, "mwsg": True, "warmup": mw == 1, "gen": "middleware-sg-2x3"})
    # serial schedules in every order (must be clean)
    # (_SERVERH: an $_SERVER entry that only odd requests cause — HTTP_X_OPT —, absent for even ones; the warm-up 99 is odd)
    prog = [["_GET", "_POST", "_COOKIE", "_SERVERH"], ["_SERVER", "_REQUEST", "_REQUESTP", "_REQUESTC", "local", "_SERVERH"]]
    for order in itertools.permutations(range(3)):
        cases.append({"segs": prog, "nreq": 3, "schedule": [i for i in order for _ in range(3)], "route": "handler", "gen": "serial"})
        cases.append({"segs": prog, "nreq": 3, "schedule": [i for i in order for _ in range(3)], "route": "mux", "mw": 1, "warmup": True, "gen": "serial"})
    # seeded
    for _ in range(120 if tier == "quick" else 2500):
        nseg = rng.randint(1, 3)
        prog = [[rng.choice(SG + PRIV + SG) for _ in range(rng.randint(1, 4))] for _ in range(nseg)]
        n = rng.randint(2, 4)
        sch = [i for i in range(n) for _ in range(nseg + 1)]
        rng.shuffle(sch)
        c = {"segs": prog, "nreq": n, "schedule": sch, "route": rng.choice(["handler", "mux", "mux"]), "gen": "seeded"}
        if c["route"] == "mux":
            c.update({"mw": rng.randint(0, 2), "group": rng.random() < 0.4, "warmup": rng.random() < 0.6, "onformat": rng.random() < 0.25})
            if rng.random() < 0.3:
                # closure handler with captured state: a key store first, then captured reads mixed into the program
                c["cap"] = True
                c["segs"] = [["cap_set"] + prog[0]] + [sg + [rng.choice(["cap_arr", "cap_get", "cap_cnt"])] for sg in prog[1:]]
        cases.append(c)
    return cases


def fine_cases(rng, tier):
    """interleavings with the verif yield hook enabled: a request also parks INSIDE the lazy fill of $_GET.
    Programs over $_GET and private reads only (the fine model covers that one superglobal)."""
    cases = [{"segs": [["_GET"], ["_GET", "local"]], "nreq": 2, "schedule": [0, 0, 1, 0], "gen": "crash-witness"},
             {"segs": [["_GET"], ["_GET", "local"]], "nreq": 2, "schedule": [0, 0, 1, 1, 1, 0, 0, 1], "gen": "fill-into-foreign-object"}]
    # every schedule of length <= 7 over two requests for one small program (prefix-closed: the engine finishes the rest)
    prog = [["_GET", "local"], ["_GET"]]
    for n in range(1, 8 if tier == "quick" else 10):
        for sch in itertools.product([0, 1], repeat=n):
            cases.append({"segs": prog, "nreq": 2, "schedule": list(sch), "gen": "all-prefixes"})
    for _ in range(150 if tier == "quick" else 3000):
        nseg = rng.randint(1, 3)
        p = [[rng.choice(["_GET", "_GET", "local", "rquery", "obj"]) for _ in range(rng.randint(1, 3))] for _ in range(nseg)]
        n = rng.randint(2, 3)
        sch = [rng.randrange(n) for _ in range(rng.randint(3, 14))]
        cases.append({"segs": p, "nreq": n, "schedule": sch, "gen": "seeded-fine"})
    for c in cases:
        c["yields"] = True
        c["route"] = "handler"
    return cases


def coq_fprog(segs):
    segs = [list(x) for x in segs]
    body = [coq_list("FGet" if x == "_GET" else "FPriv" for x in sg) for sg in segs[:-1]]
    body.append(coq_list(["FGet" if x == "_GET" else "FPriv" for x in segs[-1]] + ["FPriv", "FPriv"]))
    return coq_list(body)


def load_cases(rng, tier):
    cases = []
    progs = [[["_GET", "_SERVER", "local"], ["_GET", "rquery", "_REQUEST", "arr", "obj", "clo", "loop"]],
             [["_POST", "_COOKIE", "rheader"], ["_REQUESTP", "_REQUESTC", "_POST", "local"]],
             [["local", "arr", "obj"], ["clo", "loop", "rquery", "rheader"]]]       # no superglobals at all
    for n, procs in ((2, 2), (8, 4), (16, 4), (64, 16)) if tier == "quick" else ((2, 1), (2, 2), (4, 4), (8, 4), (16, 4), (16, 16), (32, 8), (64, 16)):
        for prog in progs:
            cases.append({"segs": prog, "nreq": n, "gomaxprocs": procs, "rounds": 3 if tier == "quick" else 10})
        cases.append({"segs": progs[2], "nreq": n, "gomaxprocs": procs, "rounds": 3 if tier == "quick" else 10,
                      "route": "mux", "mw": 2, "group": n % 16 == 0, "warmup": True})
        cases.append({"segs": [["cap_arr", "cap_set", "cap_cnt", "local"], ["cap_get", "cap_arr", "cap_cnt", "rquery"]], "nreq": n, "gomaxprocs": procs,
                      "rounds": 3 if tier == "quick" else 10, "route": "mux", "mw": n % 2, "cap": True, "warmup": True})
        cases.append({"segs": [["rbind", "rall", "clo_static", "ronly"], ["rexcept", "rqueryp", "rformval", "rurl", "rbind", "clo_static"]], "nreq": n, "gomaxprocs": procs,
                      "rounds": 3 if tier == "quick" else 10, "route": "mux", "mw": n % 2, "onformat": n % 16 == 0, "warmup": True})
    # JSON bodies with string keys and values ($w->json): the encoder is Go code that no gate can stop inside, so this
    # is a matter of real parallelism: many requests in flight on many OS threads
    # (under load every static_iter read makes 1200 passes over the table: two requests must ENTER a foreach at the same moment)
    cases.append({"segs": [["static_iter", "local"], ["static_iter", "rquery"]], "nreq": 32, "gomaxprocs": 16, "rounds": 3 if tier == "quick" else 10})
    cases.append({"segs": [["static_iter"], ["static_iter"]], "nreq": 16, "gomaxprocs": 8, "rounds": 3 if tier == "quick" else 10, "route": "mux", "mw": 0})
    jprog = [["local", "rquery"], ["rall", "jsonbody"]]
    for n, procs, rounds in ((32, 8, 4), (64, 16, 6)) if tier == "quick" else ((16, 4, 10), (32, 8, 20), (64, 16, 20), (128, 16, 20)):
        cases.append({"segs": jprog, "nreq": n, "gomaxprocs": procs, "rounds": rounds, "route": "mux", "mw": 0, "warmup": True})
        cases.append({"segs": jprog, "nreq": n, "gomaxprocs": procs, "rounds": rounds})
    cases.append({"segs": progs[2], "nreq": 16, "gomaxprocs": 4, "rounds": 3 if tier == "quick" else 10, "route": "annot", "mw": 1, "warmup": True})
    return cases


def run(cmd, lines, timeout=900):
    try:
        p = subprocess.run(cmd, input="\n".join(json.dumps(c) for c in lines) + "\n", stdout=subprocess.PIPE, stderr=subprocess.PIPE,
                           text=True, timeout=timeout)
    except subprocess.TimeoutExpired as e:
        so = e.stdout.decode("utf-8", "replace") if isinstance(e.stdout, bytes) else (e.stdout or "")
        outs = []
        for l in so.splitlines():
            try:
                outs.append(json.loads(l))
            except ValueError:
                break
        return outs, -9, "engine timed out after %ds; %d results" % (timeout, len(outs))
    return [json.loads(l) for l in p.stdout.splitlines() if l.strip()], p.returncode, p.stderr


SKIPPED = {}


def stuck(ck, c, o, what):
    """the engine's per-step watchdog: a released request neither reached its next gate nor finished within step_ms.
    Reported with the case (the interleaving is the replay); a family's cases after its third deadlock are skipped."""
    if "skipped" in o:
        SKIPPED[c.get("gen", "?")] = SKIPPED.get(c.get("gen", "?"), 0) + 1
        return True
    if "deadlock" not in o:
        return False
    d = o["deadlock"]
    # a request that passed its own gate but turned up at ANOTHER request's gate: it is running with foreign data
    shape = "foreign-gate" if d.get("unexpected_arrivals") else "no-progress"
    rep = {"case": {k: c[k] for k in ("segs", "nreq", "schedule", "route", "mw", "mwsg", "group", "warmup", "quiet", "cap", "onformat", "yields", "gen") if k in c},
           "executed_order": o.get("order"), "deadlock": d, "finished_responses": o.get("finished"),
           "clause": "private_state_isolated / every request is answered: released request %s (stage %s) neither reached a gate of its own nor "
                     "finished within %s ms; arrivals at other requests' gates: %s" % (d.get("released"), d.get("stage_before"), d.get("after_ms"), d.get("unexpected_arrivals"))}
    ck.violation("deadlock:%s:%s:%s" % (what, c.get("gen", "?"), shape), rep)
    return True


SG_FRAMES = ("node.ResetSuperglobals", "node.(*GetVariable).GetValue", "node.(*PostVariable).GetValue",
             "node.(*CookieVariable).GetValue", "node.(*ServerVariable).GetValue", "node.(*RequestVariable).GetValue")


def main(ck):
    rng = ck.rng
    ck.trusted += [
        "scheduling granularity: a request runs atomically from one gate to the next (the model's stages); the free-running load and the race detector cover finer interleavings without a model",
        "harness/cmd/c11 (Go: real ohttp.Handler / ServeMux of a script-built server, gate function registered into the VM, httptest recorders) and checks/C11.py (generators, Coq term printer, owner parser)",
        "Go's net/http ServeMux dispatch and httptest.ResponseRecorder (assumed)",
        "not modelled: $_SESSION, $_FILES, $_ENV, $GLOBALS caches (same package-level pattern), middleware stacks, HotHandler's TempVM, route parameters",
    ]
    ck.prove()
    binary, out = ck.go_build("c11")
    racebin, out2 = ck.go_build("c11", race=True)
    if binary is None or racebin is None:
        ck.broken.append("harness-build")
        ck.finish(evaluations=0, distinct_nontrivial=0, rule="harness did not build")

    if ck.replay:
        rp = json.load(open(ck.replay))
        c = rp["case"]
        gcases = [c] if "schedule" in c else []
        lcases = [c] if "schedule" not in c else []
    else:
        gcases = gated_cases(rng, ck.tier)
        lcases = load_cases(rng, ck.tier)

    # ---- (i) scripted interleavings
    gouts, rc, err = run([binary, "gated"], gcases)
    if len(gouts) != len(gcases):
        ck.log("gated engine returned %d results for %d cases rc=%d\n%s" % (len(gouts), len(gcases), rc, err[-2000:]))
        if len(gouts) < len(gcases):
            # the case the engine was busy with when it died / timed out is the replay
            ck.violation("impl-error:engine-%s" % ("timeout" if rc == -9 else "died"), {"case": gcases[len(gouts)], "impl_out": err[-1500:],
                                                                                        "clause": "the engine did not answer this case"})
        ck.broken.append("harness-run")
        ck.finish(evaluations=len(gouts), distinct_nontrivial=0, rule="harness crashed")
    terms, idx = [], []
    for i, (c, o) in enumerate(zip(gcases, gouts)):
        if stuck(ck, c, o, "gated"):
            continue
        if "err" in o or any(r.get("panic") for r in o["resps"]):
            ck.violation("impl-error:gated", {"case": c, "impl_out": o})
            continue
        q = c.get("quiet", False)
        obs = [observed(c["segs"], r, c.get("mw", 0), c.get("mwsg", False), q) for r in o["resps"]]
        c["_obs"] = obs
        if c.get("warmup") and o.get("warmup") and any(v != 99 for v in observed(c["segs"], o["warmup"], c.get("mw", 0), c.get("mwsg", False), q)):
            ck.violation("private:warmup-response", {"case": c, "impl_out": o["warmup"], "clause": "a request served alone gets its own response"})
        if c.get("warmup") and o.get("warmup2") and any(v != 99 for v in observed(c["segs"], o["warmup2"], c.get("mw", 0), c.get("mwsg", False), q)):
            ck.violation("private:repeated-request-response", {"case": c, "impl_out": o["warmup2"], "clause": "the same request served alone a second time (byte-identical query string) gets the same response"})
        terms.append("(%s, %d, %s, %s)" % (coq_prog(c["segs"], c.get("mw", 0), c.get("mwsg", False), q), c["nreq"], coq_list(str(x) for x in o["order"]),
                                            coq_list(coq_obs(v) for v in obs)))
        idx.append(i)
    bad = ck.eval_cases("gcases", HEADER, terms, "check_case", shard=200)
    interfering = 0
    for j, cls in sorted(bad.items(), key=lambda kv: len(gcases[idx[kv[0]]]["schedule"])):
        c, o = gcases[idx[j]], gouts[idx[j]]
        rep = {"case": {k: c[k] for k in ("segs", "nreq", "schedule", "route", "mw", "mwsg", "group", "warmup", "quiet", "cap", "onformat", "gen") if k in c}, "executed_order": o["order"], "impl_out": o["resps"], "clauses": cls}
        if 1 in cls:
            ck.broken.append("correspondence:C11.gated")
            ck.violation("tie:gated", dict(rep, clause="model vs implementation (tie)"))
        if 2 in cls or 3 in cls:
            interfering += 1
            keys = set()
            for ri, vals in enumerate(c["_obs"]):
                for kind, name, shape in foreign_keys(c["segs"], ri + 1, vals, contiguous(o["order"], ri), c.get("mw", 0), c.get("mwsg", False), c.get("quiet", False)):
                    keys.add("private:%s" % name if kind == "private" else "sg:%s:%s" % (name, shape))
            for k in sorted(keys):
                ck.violation(k, dict(rep, clause="private_state_isolated" if k.startswith("private") else "superglobals_isolated (refuted: overlapping requests)"))

    # ---- (i') finer than gates: yield point inside the $_GET fill
    fcases = [] if ck.replay else fine_cases(rng, ck.tier)
    if ck.replay and gcases and gcases[0].get("yields"):
        fcases, gcases = gcases, []
    fouts, rc, err = run([binary, "gated"], fcases) if fcases else ([], 0, "")
    if len(fouts) != len(fcases):
        ck.log("gated engine (yields) returned %d results for %d cases rc=%d\n%s" % (len(fouts), len(fcases), rc, err[-2000:]))
        ck.broken.append("harness-run")
        ck.finish(evaluations=len(fouts), distinct_nontrivial=0, rule="harness crashed")
    fterms, fidx = [], []
    for i, (c, o) in enumerate(zip(fcases, fouts)):
        if stuck(ck, c, o, "gated-yields"):
            continue
        if "err" in o or any(r.get("panic") == "timeout" for r in o["resps"]):
            ck.violation("impl-error:gated-yields", {"case": c, "impl_out": o})
            continue
        obs = []
        for r in o["resps"]:
            if r.get("panic"):
                obs.append((True, []))
            else:
                obs.append((False, observed(c["segs"], r)))
        c["_obs"] = obs
        fterms.append("(%s, %d, %s, %s)" % (coq_fprog(c["segs"]), c["nreq"], coq_list(str(x) for x in o["order"]),
                                             coq_list("(%s, %s)" % ("true" if cr else "false", coq_obs(v)) for cr, v in obs)))
        fidx.append(i)
    fbad = ck.eval_cases("fcases", HEADER, fterms, "check_fcase", shard=200) if fterms else {}
    crashes = 0
    for j, cls in sorted(fbad.items(), key=lambda kv: len(fcases[fidx[kv[0]]]["schedule"])):
        c, o = fcases[fidx[j]], fouts[fidx[j]]
        rep = {"case": {k: c[k] for k in ("segs", "nreq", "schedule", "route", "yields")}, "executed_order": o["order"], "impl_out": o["resps"], "clauses": cls}
        if 1 in cls:
            ck.broken.append("correspondence:C11.fine")
            ck.violation("tie:gated-yields", dict(rep, clause="fine model vs implementation (tie)"))
        if 5 in cls:
            crashes += 1
            for ri, (cr, _) in enumerate(c["_obs"]):
                if cr:
                    at = (o["resps"][ri].get("at") or ["?"])
                    inside = any(f.startswith("node.(*GetVariable).GetValue") for f in at)
                    shape = "exclusive-window" if contiguous(o["order"], ri) else "reset-during-fill"
                    ck.violation("sg:_GET:panic:%s" % shape if inside else "panic:" + at[0],
                                 dict(rep, clause="fine_no_crash_refuted (a request parked inside the lazy fill, another request's reset, nil dereference on resume)"))
        if 2 in cls:
            keys = set()
            for ri, (cr, vals) in enumerate(c["_obs"]):
                if cr:
                    continue
                for kind, name, shape in foreign_keys(c["segs"], ri + 1, vals, contiguous(o["order"], ri)):
                    keys.add("private:%s" % name if kind == "private" else "sg:%s:%s" % (name, shape))
            for k in sorted(keys):
                ck.violation(k, dict(rep, clause="private_state_isolated" if k.startswith("private") else "superglobals_isolated (refuted: overlapping requests)"))
    ck.cov["fine_cases"] = len(fcases)
    ck.cov["fine_cases_with_crash"] = crashes

    # ---- (i'') process-wide output buffering (std/php/core ob_start: ONE stack for the whole process): a handler
    # that opens a buffer in one stage and closes it in the next.  Not in the Coq model: the expectation is a
    # push/pop simulation here, the property (the closed buffer holds the request's own output) is checked directly.
    ocases = []
    if not ck.replay:
        oprog = [["ob_open"], ["ob_close", "local"]]
        for sch in interleavings([3, 3]):
            ocases.append({"segs": oprog, "nreq": 2, "schedule": list(sch), "route": "handler", "gen": "ob"})
        for sch in ([0, 1, 2, 0, 1, 2, 0, 1, 2], [0, 0, 1, 1, 2, 2, 2, 1, 0], [2, 2, 2, 0, 0, 0, 1, 1, 1]):
            ocases.append({"segs": oprog, "nreq": 3, "schedule": sch, "route": "mux", "mw": 1, "gen": "ob"})
    oouts, rc, err = run([binary, "gated"], ocases) if ocases else ([], 0, "")
    ob_foreign = 0
    for c, o in zip(ocases, oouts):
        if stuck(ck, c, o, "ob"):
            continue
        if "err" in o or any(r.get("panic") for r in o["resps"]):
            ck.violation("impl-error:ob", {"case": c, "impl_out": o})
            continue
        stack, stage, expect = [], [0] * c["nreq"], {}
        for i in o["order"]:
            stage[i] += 1
            if stage[i] == 2:
                stack.append(i + 1)
            elif stage[i] == 3:
                expect[i] = stack.pop() if stack else None
        for i, r in enumerate(o["resps"]):
            got = owner(r["fields"].get("s1r0"))
            rep = {"case": {k: c[k] for k in ("segs", "nreq", "schedule", "route")}, "executed_order": o["order"], "impl_out": o["resps"]}
            if got != expect.get(i):
                ck.broken.append("correspondence:C11.ob")
                ck.violation("tie:ob", dict(rep, clause="output buffer stack simulation vs implementation"))
            if got != i + 1:
                ob_foreign += 1
                ck.violation("ob:foreign-buffer:%s" % ("exclusive-window" if contiguous(o["order"], i) else "overlap"),
                             dict(rep, clause="the body a handler produces equals what it produces alone (ob_get_clean returned another request's output)"))
            if owner(r["fields"].get("s1r1")) != i + 1 or r.get("status") != 200 + i + 1:
                ck.violation("private:ob-case", dict(rep, clause="private_state_isolated"))
    ck.cov["cases_skipped_after_three_deadlocks_of_their_family"] = dict(SKIPPED)
    ck.cov["ob_cases"] = len(ocases)
    ck.cov["ob_cases_foreign_reads"] = ob_foreign

    # ---- (ii) parallel load under the race detector
    louts, rc, err = run([racebin, "load"], lcases, timeout=1500)
    lterms, lidx = [], []
    races = {}
    for i, (c, o) in enumerate(zip(lcases, louts)):
        if o.get("err") or o.get("fatal") or not o.get("rounds"):
            ck.violation("impl-error:load", {"case": c, "impl_out": {k: o.get(k) for k in ("exit", "err", "fatal", "races")}})
            continue
        for pair, n in (o.get("races") or {}).items():
            races[pair] = races.get(pair, 0) + n
        for rnd in o["rounds"]:
            panics = [r for r in rnd if r.get("panic") or r.get("fields") is None]
            if panics:
                for r in panics[:3]:
                    frames = r.get("at") or ["?"]
                    # a nil / half-built superglobal cache: the panic is inside a *Variable.GetValue, or in the
                    # index expression that received the shared cache object
                    if any(f.startswith(x) for f in frames for x in SG_FRAMES) or (
                            frames[0].startswith("data.(*ObjectValue)") and any("IndexExpression" in f for f in frames)):
                        at = "superglobal-cache"
                    else:
                        at = frames[0]
                    ck.violation("load:panic:" + at, {"case": c, "panic": str(r.get("panic"))[:300], "at": r.get("at"),
                                                       "clause": "a request served under parallel load panicked"})
                continue
            obs = [observed(c["segs"], r, c.get("mw", 0)) for r in rnd]
            lterms.append("(%s, %s)" % (coq_prog(c["segs"], c.get("mw", 0)), coq_list(coq_obs(v) for v in obs)))
            lidx.append((i, obs))
    lbad = ck.eval_cases("lcases", HEADER, lterms, "check_load", shard=100) if lterms else {}
    for j, cls in sorted(lbad.items()):
        i, obs = lidx[j]
        c = lcases[i]
        keys = set()
        for ri, vals in enumerate(obs):
            for kind, name, shape in foreign_keys(c["segs"], ri + 1, vals, False, c.get("mw", 0)):
                keys.add("private:%s" % name if kind == "private" else "sg:%s:parallel-load" % name)
        if 4 in cls:
            keys.add("load:missing-output")
        for k in sorted(keys):
            ck.violation(k, {"case": c, "impl_out": obs[:8], "clauses": cls, "clause": "response depends on its request (parallel load)"})
    for pair, n in sorted(races.items()):
        a, _, b = pair.partition(" | ")
        if "StaticLocals" in pair:
            key = "race:static-locals-lazy-init"
        elif "node.(*NewExpression).resolveClass" in pair or "node.(*NewClassGenerated).resolveClass" in pair:
            key = "race:new-expression-class-cache"
        elif any(f in pair for f in SG_FRAMES) or pair.endswith("[sg]"):
            # one of the two stacks passes through ResetSuperglobals / a *Variable.GetValue: the package-level cache
            # variable or the cache object it points to (a race on any OTHER shared object gets its own key)
            key = "race:superglobal-caches"
        else:
            key = "race:" + pair.replace(" [sg]", "").replace(" ", "")
        ck.violation(key, {"race": pair, "reports": n, "clause": "data race between concurrently served requests (-race)"})

    # ---- coverage
    dist = {}
    for c in gcases:
        dist[c.get("gen", "replay")] = dist.get(c.get("gen", "replay"), 0) + 1
    ck.samples = [{k: gcases[0][k] for k in ("segs", "nreq", "schedule", "route")}] + ([{k: gcases[-1][k] for k in ("segs", "nreq", "schedule", "route")}] if gcases else [])
    ck.cov["gated_generators"] = dist
    ck.cov["gated_cases_with_interference"] = interfering
    ck.cov["load_configs"] = [{"nreq": c["nreq"], "gomaxprocs": c.get("gomaxprocs"), "rounds": c.get("rounds")} for c in lcases]
    ck.cov["load_rounds_compared"] = len(lterms)
    ck.cov["race_reports"] = races
    nreads = sum(len(kinds_of(c["segs"], c.get("mw", 0))) * c["nreq"] for c in gcases) + sum(len(kinds_of(lcases[i]["segs"], lcases[i].get("mw", 0))) * len(obs) for i, obs in lidx)
    ck.finish(level="proof", evaluations=nreads, distinct_nontrivial=len(set(json.dumps([c["segs"], c["schedule"], c["nreq"]]) for c in gcases if len(set(c["schedule"])) > 1)),
              rule="scripted: the witness on both routes; every interleaving of two requests x two segments for each of the 7 superglobal reads "
                   "(20 schedules each); parked-at-a-gate shapes with three requests; all serial orders of three requests; seeded programs "
                   "(1-3 segments of 1-4 reads over 14 read kinds), 2-4 requests, shuffled schedules, both routes; load: 2/8/16/64 requests in "
                   "flight x 3 programs x 3 rounds under -race. evaluations = reads compared (incl. status and X-Id per response); non-trivial = "
                   "distinct scripted case in which at least two requests interleave",
              traces=len(terms) + len(lterms) + len(fterms))
