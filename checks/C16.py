"""C16 — ahead-of-time compilation preserves behaviour: compiled = interpreted.

Proof: coq/C16 — model of the generic reflective emitter of cmd/compile (Emit dispatch,
emitStructLiteral, emitReflectValue, emitSlice/Map/StructValue) over a generic value tree and a
node-field table; emit succeeds exactly on covered trees, everything else is an EmitError / crash
(never a silently wrong program); rebuild (emit t) = erase t.  The field table is regenerated from
/repo by reflection on every run and the table obligations are re-proved on it.
PARTIAL: the 31 special handlers and 5 scalar emitters are abstracted as faithful in the model; they
are VALIDATED by
  (a) structural comparison: for every program, the tree compile's parser produced vs the tree the
      generated Go constructor builds, dumped by reflection, equal after erasing runtime-only fields;
  (b) end to end: generated feature programs + corpus files compiled by the real `origami compile`
      into ONE Go package, one go build, each run compiled and interpreted in child processes
      (stdout, uncaught-error outcome, exit status); plus a few real single-program projects built
      from the unmodified generated register.go / main.go / go.mod.
"""
import hashlib
import json
import os
import re
import shutil
import subprocess
import time
from concurrent.futures import ThreadPoolExecutor

import vcheck
from vcheck import coq_string as cs, coq_list, coq_bool

HEADER = ("From Coq Require Import List String Bool.\nImport ListNotations.\n"
          "From V.C16 Require Import Model Spec Run.\nOpen Scope string_scope.\n")
TS = re.compile(r"\d{4}-\d{2}-\d{2}[ T]\d{2}:\d{2}:\d{2}")
NONDET_SRC = re.compile(
    r"\b(time|microtime|hrtime|date|gmdate|strftime|mktime|strtotime|rand|mt_rand|random_int|random_bytes|"
    r"uniqid|shuffle|array_rand|str_shuffle|getmypid|memory_get_usage|memory_get_peak_usage|sleep|usleep|"
    r"tempnam|tmpfile|sys_get_temp_dir|spawn|curl_init|fsockopen|stream_socket_client|proc_open|"
    r"shell_exec|system|passthru|gethostname|php_uname|lcg_value|"
    r"file_put_contents|mkdir|unlink|rmdir|touch|fwrite|set_time_limit)\s*\(|new\s+\\?(DateTime|DateTimeImmutable|DateTimeZone)|"
    r"\b(pcntl_|posix_)|\bgo\s+(function|fn|\$)|->listen\(|->serve\(|Net\\\\Http|Channel|\$argv|\$argc|\['argv'\]")

# ---------------------------------------------------------------------------- generated feature programs
# each feature is a self-contained block; {S} is replaced by a per-program suffix so that blocks can
# be combined in one file
FEATURES = [
    ("arith", "$a{S} = 7; $b{S} = 3; echo $a{S} + $b{S}, ' ', $a{S} - $b{S}, ' ', $a{S} * $b{S}, ' ', $a{S} % $b{S}, ' ', 2 ** 5, ' ', 7 / 2, \"\\n\";"),
    ("strings", "$s{S} = 'ab' . 'cd'; echo $s{S}, strlen($s{S}), strtoupper($s{S}), \" x{$s{S}}y \", substr($s{S}, 1, 2), \"\\n\";"),
    ("compare", "echo (1 < 2) ? 'lt' : 'ge', (2 == 2) ? 'eq' : 'ne', (3 === 3) ? 'id' : 'ni', ('a' !== 'b') ? 'd' : 's', 1 <=> 2, \"\\n\";"),
    ("logic", "$t{S} = true; $f{S} = false; echo ($t{S} && !$f{S}) ? 'y' : 'n', ($f{S} || $t{S}) ? 'y' : 'n', $f{S} ?: 'dflt', null ?? 'nc', \"\\n\";"),
    ("if_else", "$x{S} = 5; if ($x{S} > 3) { echo 'big'; } elseif ($x{S} > 1) { echo 'mid'; } else { echo 'small'; } echo \"\\n\";"),
    ("while_loop", "$i{S} = 0; $acc{S} = 0; while ($i{S} < 5) { $i{S} = $i{S} + 1; if ($i{S} == 2) { continue; } if ($i{S} == 5) { break; } $acc{S} = $acc{S} + $i{S}; } echo $acc{S}, \"\\n\";"),
    ("for_loop", "$s{S} = 0; for ($i{S} = 0; $i{S} < 4; $i{S}++) { $s{S} += $i{S}; } echo $s{S}, \"\\n\";"),
    ("foreach_list", "$r{S} = ''; foreach ([3, 1, 2] as $k{S} => $v{S}) { $r{S} = $r{S} . $k{S} . ':' . $v{S} . ','; } echo $r{S}, \"\\n\";"),
    ("foreach_assoc", "$r{S} = ''; foreach (['a' => 1, 'b' => 2] as $k{S} => $v{S}) { $r{S} .= $k{S} . '=' . $v{S} . ';'; } echo $r{S}, \"\\n\";"),
    ("switch", "function sw{S}($x) { switch ($x) { case 1: return 'one'; case 2: return 'two'; default: return 'many'; } } echo sw{S}(1), sw{S}(2), sw{S}(9), \"\\n\";"),
    ("function_default", "function fd{S}($a, $b = 10) { return $a + $b; } echo fd{S}(1), ' ', fd{S}(1, 2), \"\\n\";"),
    ("recursion", "function fact{S}($n) { if ($n <= 1) { return 1; } return $n * fact{S}($n - 1); } echo fact{S}(6), \"\\n\";"),
    ("by_ref_param", "function inc{S}(&$x) { $x = $x + 1; } $v{S} = 4; inc{S}($v{S}); echo $v{S}, \"\\n\";"),
    ("typed_function", "function ty{S}(int $a, string $b): string { return $b . $a; } echo ty{S}(3, 'n'), \"\\n\";"),
    ("closure_value", "$m{S} = 3; $f{S} = function($y) use ($m{S}) { return $y * $m{S}; }; echo $f{S}(4), \"\\n\";"),
    ("closure_ref", "$c{S} = 0; $g{S} = function() use (&$c{S}) { $c{S} = $c{S} + 1; }; $g{S}(); $g{S}(); echo $c{S}, \"\\n\";"),
    ("closure_typed", "$h{S} = function(int $y): int { return $y + 1; }; echo $h{S}(4), \"\\n\";"),
    ("arrow_fn", "$k{S} = 2; $af{S} = fn($y) => $y + $k{S}; echo $af{S}(5), \"\\n\";"),
    ("array_ops", "$a{S} = [1, 2, 3]; $a{S}[] = 4; $a{S}[0] = 9; unset($a{S}[1]); echo json_encode($a{S}), count($a{S}), \"\\n\";"),
    ("nested_array", "$n{S} = ['x' => [1, 2], 'y' => ['z' => 3]]; echo $n{S}['x'][1], $n{S}['y']['z'], json_encode($n{S}), \"\\n\";"),
    ("array_functions", "echo implode(',', array_map(function($x) { return $x * 2; }, [1, 2, 3])), in_array(2, [1, 2]) ? 'in' : 'out', \"\\n\";"),
    ("class_basic", "class P{S} { public $x = 1; protected $y = 2; function inc() { $this->x++; return $this; } function sum() { return $this->x + $this->y; } } $p{S} = new P{S}(); echo $p{S}->inc()->sum(), \"\\n\";"),
    ("class_ctor", "class Q{S} { public $v; function __construct($v) { $this->v = $v; } function get() { return $this->v; } } $q{S} = new Q{S}(7); echo $q{S}->get(), \"\\n\";"),
    ("class_const", "class K{S} { const A = 5; const B = 'bee'; function f() { return self::A; } } echo K{S}::A, K{S}::B, (new K{S}())->f(), \"\\n\";"),
    ("class_static", "class T{S} { public static $n = 0; static function bump() { self::$n = self::$n + 1; return self::$n; } } T{S}::bump(); echo T{S}::bump(), T{S}::$n, \"\\n\";"),
    ("inheritance", "class A{S} { function who() { return 'A'; } function hi() { return 'hi ' . $this->who(); } } class B{S} extends A{S} { function who() { return 'B'; } } echo (new B{S}())->hi(), (new B{S}()) instanceof A{S} ? 'y' : 'n', \"\\n\";"),
    ("parent_call", "class C{S} { function f() { return 'c'; } } class D{S} extends C{S} { function f() { return parent::f() . 'd'; } } echo (new D{S}())->f(), \"\\n\";"),
    ("interface", "interface I{S} { function area(); } class R{S} implements I{S} { function area() { return 6; } } $r{S} = new R{S}(); echo $r{S}->area(), ($r{S} instanceof I{S}) ? 'y' : 'n', \"\\n\";"),
    ("abstract_class", "abstract class Sh{S} { abstract function name(); function show() { return 'I am ' . $this->name(); } } class Ci{S} extends Sh{S} { function name() { return 'circle'; } } echo (new Ci{S}())->show(), \"\\n\";"),
    ("static_method_call", "class U{S} { static function twice($x) { return 2 * $x; } } echo U{S}::twice(21), \"\\n\";"),
    ("clone_obj", "class W{S} { public $a = [1]; } $w{S} = new W{S}(); $c{S} = clone $w{S}; $c{S}->a[] = 2; echo count($w{S}->a), count($c{S}->a), \"\\n\";"),
    ("try_catch", "try { throw new Exception('boom'); } catch (Exception $e{S}) { echo 'caught ', $e{S}->getMessage(); } finally { echo ' fin'; } echo \"\\n\";"),
    ("custom_exception", "class E{S} extends Exception {} function thr{S}() { throw new E{S}('custom'); } try { thr{S}(); } catch (E{S} $e{S}) { echo get_class($e{S}), ':', $e{S}->getMessage(), \"\\n\"; }"),
    ("nested_try", "function nt{S}() { try { try { throw new Exception('in'); } finally { echo 'f1 '; } } catch (Exception $e) { echo 'c:', $e->getMessage(), ' '; return 'r'; } finally { echo 'f2 '; } } echo nt{S}(), \"\\n\";"),
    ("ternary_chain", "$z{S} = 4; echo $z{S} > 3 ? ($z{S} > 5 ? 'a' : 'b') : 'c', \"\\n\";"),
    ("string_funcs", "echo str_repeat('ab', 2), ucfirst('word'), trim('  t  '), str_replace('a', 'b', 'banana'), strpos('hello', 'l'), \"\\n\";"),
    ("sprintf_json", "echo sprintf('%d-%s', 5, 'x'), json_encode(['k' => [1, true, null]]), \"\\n\";"),
    ("global_const", "define('GC{S}', 12); const HC{S} = 'hc'; echo GC{S}, HC{S}, \"\\n\";"),
    ("static_local", "function cnt{S}() { static $n = 0; $n = $n + 1; return $n; } cnt{S}(); cnt{S}(); echo cnt{S}(), \"\\n\";"),
    ("multi_assign", "function two{S}() { return [1, 2]; } $ma{S}, $mb{S} = two{S}(); echo $ma{S}, $mb{S}, \"\\n\";"),
    ("closure_falloff", "$fo{S} = function($y) { $z = $y + 1; }; $fa{S} = fn($y) => $y + 1; echo json_encode($fo{S}(1)), json_encode($fa{S}(1)), \"\\n\";"),
    ("new_variable", "class NV{S} { public $v; function __construct($v = 0) { $this->v = $v; } } $cn{S} = 'NV{S}'; $nv{S} = new $cn{S}(3); echo $nv{S}->v, \"\\n\";"),
    ("new_self_static_args", "class NS2{S} { public $v; function __construct($v = 0) { $this->v = $v; } static function a() { return new self(4); } static function b() { return new static(5); } } echo NS2{S}::a()->v, NS2{S}::b()->v, \"\\n\";"),
    ("array_int_keys", "$ik{S} = [1 => 'a', 5 => 'b', 'k' => 'c']; $ik{S}[] = 'd'; echo json_encode($ik{S}), \"\\n\";"),
    ("multi_namespace", "namespace NsA{S};\nconst LIM = 3;\nfunction late($x) { return 'A-late:' . $x . ':' . fmt($x) . later2(); }\nfunction fmt($x) { return 'A:' . $x; }\nclass Box { const K = 'ka'; function show() { return fmt(self::K) . later2(); } }\nfunction later2() { return '/A2'; }\necho late(1), fmt(1), (new Box())->show(), LIM, \"\\n\";\nnamespace NsB{S};\nconst LIM = 4;\nfunction late($x) { return 'B-late:' . $x . ':' . fmt($x) . later2(); }\nfunction fmt($x) { return 'B:' . $x; }\nclass Box { const K = 'kb'; function show() { return fmt(self::K) . later2(); } }\nfunction later2() { return '/B2'; }\necho late(2), fmt(2), (new Box())->show(), LIM, \\NsA{S}\\fmt(3), (new \\NsA{S}\\Box())->show(), \"\\n\";"),
    ("user_attribute", "class Tag{S} { public $v; function __construct($v = 'd') { $this->v = $v; } }\n#[Tag{S}('on-class')]\nclass Tagged{S} { #[Tag{S}('on-method')] function m() { return 1; } public $p = 1; const C = 2; }\n$rc{S} = new \\ReflectionClass('Tagged{S}');\necho count($rc{S}->getAttributes()), ':';\nforeach ($rc{S}->getAttributes() as $at{S}) { echo $at{S}->getName(), '=', $at{S}->newInstance()->v, ';'; }\necho \"\\n\";"),
    ("reflection_members", "class RM{S} { const A = 1; const B = 'b'; public $p = 1; protected $q = 2; private $r = 3; public static $s = 4; function m1() {} protected function m2() {} static function m3() {} }\n$rr{S} = new \\ReflectionClass('RM{S}');\necho json_encode($rr{S}->getMethods()), json_encode($rr{S}->getProperties()), $rr{S}->hasMethod('m2') ? 'y' : 'n', $rr{S}->getName(), count($rr{S}->getAttributes()), \"\\n\";"),
    ("datetime_fixed", "$dt{S} = new \\DateTime('2001-02-03 04:05:06'); echo $dt{S}->format('Y-m-d H:i:s'), ' '; $dt{S}->setDate(2010, 11, 12); $dt{S}->setTime(13, 14, 15); echo $dt{S}->format('Y-m-d H:i:s'), ' ', $dt{S}->format('D, d M Y'), ' ', $dt{S}->getTimestamp(), \"\\n\";"),
    ("switch_default_not_last", "function swd{S}($x) { $o = ''; switch ($x) { case 1: $o .= 'one'; default: $o .= 'dflt'; case 2: $o .= 'two'; break; case 3: $o .= 'three'; } return $o; } function swe{S}($x) { switch ($x) { default: return 'd'; case 'a': return 'A'; case 'b': echo 'b-falls '; } return 'end'; } echo swd{S}(1), '|', swd{S}(2), '|', swd{S}(3), '|', swd{S}(9), '|', swe{S}('a'), swe{S}('b'), swe{S}('q'), \"\\n\";"),
    ("ob_open_at_end_shutdown", "register_shutdown_function(function() { $b{S} = ob_get_clean(); echo 'sd[', ($b{S} === false ? 'F' : $b{S}), ']', ob_get_level(), \"\\n\"; }); echo \"a\\n\"; ob_start(); echo \"buffered\\n\";"),
    ("class_array_const_keyed", "class LV{S} { const LEVELS = ['debug' => 0, 'info' => 1, 'warning' => 2, 'error' => 3]; const NUMS = [3 => 'a', 10 => 'b', 1 => 'c']; } echo implode(',', array_keys(LV{S}::LEVELS)), ';', json_encode(LV{S}::NUMS), ';'; foreach (LV{S}::LEVELS as $k{S} => $v{S}) { echo $k{S}, '=', $v{S}, ' '; } echo LV{S}::LEVELS['error'], \"\\n\";"),
    ("class_array_static_keyed", "class LS{S} { public static $map = ['z' => 1, 'a' => 2, 'm' => 3]; public static $list = [3, 1, 2]; } echo json_encode(LS{S}::$map), json_encode(LS{S}::$list), implode(',', array_keys(LS{S}::$map)), \"\\n\";"),
    ("class_array_const_list", "class LL{S} { const LIST = [3, 1, 2]; const EMPTY = []; } echo json_encode(LL{S}::LIST), count(LL{S}::EMPTY), \"\\n\";"),
    ("interface_array_const_keyed", "interface HC{S} { const ORDER = ['y' => 1, 'b' => 2, 'k' => 3]; } class HI{S} implements HC{S} {} echo implode(',', array_keys(HC{S}::ORDER)), implode(',', array_keys(HI{S}::ORDER)), \"\\n\";"),
    ("reflection_constructor", "class NoCtor{S} {} class WithCtor{S} { public $a; function __construct($a = 1, $b = 2) { $this->a = $a; } } class Inherits{S} extends WithCtor{S} {} class Promoted{S} { function __construct(public $x = 0, protected int $y = 3) {} } abstract class AbsC{S} { public $q; function __construct($q = 9) { $this->q = $q; } } class FromAbs{S} extends AbsC{S} {}\nforeach (['NoCtor{S}', 'WithCtor{S}', 'Inherits{S}', 'Promoted{S}', 'FromAbs{S}'] as $c{S}) { $rc{S} = new \\ReflectionClass($c{S}); $k{S} = $rc{S}->getConstructor(); if ($k{S} === null) { echo $c{S}, \": null\\n\"; continue; } echo $c{S}, ': ', $k{S}->getName(), ' ', count($k{S}->getParameters()), \"\\n\"; }\necho (new \\ReflectionClass('Inherits{S}'))->newInstance(7)->a, (new \\ReflectionClass('FromAbs{S}'))->newInstanceArgs([8])->q, \"\\n\";"),
    ("type_forms", "interface TI{S} { function m(int $a): ?string; }\nclass TC{S} implements TI{S} { public int $pi = 1; public ?string $ps = null; public int|string $pu = 2; public array $pa = []; protected float $pf = 1.5; private bool $pb = true; public ?TC{S} $self = null; public static int $cnt = 0; public static ?array $reg = null;\n function m(int $a): ?string { return (string)$a; }\n function all(int $a, float $b, string $c, bool $d, array $e, ?int $f, int|string|null $g, callable $h, object $i, mixed $j, TC{S} $k, self $l, iterable $m, \\Closure $n): void {}\n static function make(): static { self::$cnt++; return new static(); }\n function me(): self { return $this; }\n function nothing(): null { return null; }\n function nf(): false|int { return 1; } }\nfunction tf{S}(int $a = 1, string ...$rest): array { return [$a, $rest]; }\n$cl{S} = function(?array $x, int|float $y = 2): int|float { return $y; };\n$af{S} = fn(string $s): string => $s;\necho json_encode(tf{S}(2, 'a', 'b')), $cl{S}(null), $af{S}('z'), (new TC{S}())->m(5), TC{S}::make()->me()->pi, TC{S}::$cnt, json_encode(TC{S}::$reg), \"\\n\";\ntry { (new TC{S}())->m('x'); } catch (\\Throwable $e{S}) { echo 'type error caught', \"\\n\"; }\ntry { $o{S} = new TC{S}(); $o{S}->pi = 'notint'; echo 'stored'; } catch (\\Throwable $e{S}) { echo 'prop type error', \"\\n\"; }"),
    ("float_bits", "$fa{S} = 0.30000000000000004; $fb{S} = 0.7999999999999999; $fe{S} = 2.220446049250313E-16; $fc{S} = 9007199254740993.0; echo ($fa{S} == 0.1 + 0.2) ? 'eq' : 'ne', ' ', ($fb{S} == 0.8) ? 'eq' : 'ne', ' ', (1.0 + $fe{S} > 1.0) ? 'gt' : 'same', ' ', ($fa{S} - 0.3) * 1e17, ' ', ($fb{S} - 0.8) * 1e17, ' ', ($fc{S} == 9007199254740992.0) ? 'eq' : 'ne', ' ', (0.1 + 0.7) * 10 == 8.0 ? 'eq' : 'ne', \"\\n\";"),
    ("list_assign", "[$la{S}, $lb{S}] = [1, 2]; echo $la{S}, $lb{S}, \"\\n\";"),
    ("incr_ops", "$u{S} = 1; $u{S}++; ++$u{S}; $u{S} += 3; $u{S} -= 1; $u{S} *= 2; $w{S} = 'a'; $w{S} .= 'b'; echo $u{S}, $w{S}, \"\\n\";"),
    ("uncaught_throw", "echo \"before\\n\"; throw new Exception('uncaught{S}'); echo 'after';"),
    ("undefined_function", "echo \"before\\n\"; nosuchfn{S}(); echo 'after';"),
    ("shutdown_function", "register_shutdown_function(function() { echo \"bye\\n\"; }); echo \"main\\n\";"),
    ("exit_code", "echo \"out\\n\"; exit(3);"),
    ("generic_class", "class Box{S}<T> { public $v = 0; function set($x) { $this->v = $x; return $this; } } $b{S} = new Box{S}<int>(); echo $b{S}->set(4)->v, \"\\n\";"),
    ("enum_basic", "enum Suit{S}: string { case Hearts = 'H'; case Spades = 'S'; } echo Suit{S}::Hearts->value, \"\\n\";"),
    ("trait_use", "trait Hello{S} { function hi() { return 'hi'; } } class UsesT{S} { use Hello{S}; } echo (new UsesT{S}())->hi(), \"\\n\";"),
    ("match_expr", "$mv{S} = 2; echo match($mv{S}) { 1 => 'one', 2 => 'two', default => 'other' }, \"\\n\";"),
    ("generator", "function gen{S}() { yield 1; yield 2; } $t{S} = 0; foreach (gen{S}() as $g{S}) { $t{S} += $g{S}; } echo $t{S}, \"\\n\";"),
    ("magic_tostring", "class TS{S} { function __toString() { return 'ts'; } } echo new TS{S}(), \"\\n\";"),
    ("magic_get_set", "class MG{S} { private $d = []; function __get($n) { return $this->d[$n] ?? 'none'; } function __set($n, $v) { $this->d[$n] = $v; } } $mg{S} = new MG{S}(); $mg{S}->a = 5; echo $mg{S}->a, $mg{S}->b, \"\\n\";"),
    ("invoke", "class Inv{S} { function __invoke($x) { return $x * 3; } } $iv{S} = new Inv{S}(); echo $iv{S}(4), \"\\n\";"),
    ("promoted_ctor", "class PC{S} { function __construct(public $a, protected $b = 2) {} function sum() { return $this->a + $this->b; } } echo (new PC{S}(5))->sum(), \"\\n\";"),
    ("nullsafe", "class NS{S} { public $o = null; function me() { return $this; } } $ns{S} = new NS{S}(); echo $ns{S}->o?->x ?? 'null', $ns{S}?->me() === $ns{S} ? 'same' : 'diff', \"\\n\";"),
    ("spread_named", "function sp{S}($a, $b, $c = 0) { return $a + $b * 10 + $c * 100; } echo sp{S}(...[1, 2]), ' ', sp{S}(b: 1, a: 2), \"\\n\";"),
    ("static_late", "class SL{S} { static function make() { return new static(); } function name() { return 'SL'; } } class SL2{S} extends SL{S} { function name() { return 'SL2'; } } echo SL2{S}::make()->name(), \"\\n\";"),
    ("heredoc", "$hn{S} = 'w'; echo <<<EOT\nhello {$hn{S}}\nEOT;\necho \"\\n\";"),
    ("do_while", "$dw{S} = 0; do { $dw{S}++; } while ($dw{S} < 3); echo $dw{S}, \"\\n\";"),
    ("callable_strings", "function cs{S}($x) { return $x . '!'; } echo call_user_func('cs{S}', 'a'), implode(',', array_map('strtoupper', ['a', 'b'])), \"\\n\";"),
    ("isset_unset", "$iu{S} = ['a' => 1]; echo isset($iu{S}['a']) ? 'set' : 'unset', isset($iu{S}['b']) ? 'set' : 'unset', empty($iu{S}['b']) ? 'empty' : 'full', \"\\n\";"),
    ("int_float_ops", "echo intdiv(7, 2), ' ', 7 <=> 7.0, ' ', round(2.5), ' ', 0.1 + 0.2 == 0.3 ? 'eq' : 'ne', ' ', 1e3, ' ', PHP_INT_MAX, \"\\n\";"),
    ("extends_builtin", "class AI{S} extends \\ArrayIterator { function twice() { return $this->count() * 2; } } $ai{S} = new AI{S}([1, 2, 3]); $at{S} = 0; foreach ($ai{S} as $av{S}) { $at{S} += $av{S}; } echo $at{S}, $ai{S}->twice(), \"\\n\";"),
    ("var_dump_line", "var_dump(5);"),
    ("namespace_fn", "__NAMESPACE__"),  # placeholder, expanded specially
]


def feature_src(name, code, suffix, namespace=None):
    if name == "namespace_fn":
        return ("<?php\nnamespace App%s;\nfunction helper($x) { return $x + 1; }\nclass Svc { const N = 2; function run($x) { return helper($x) * self::N; } }\n"
                "echo helper(1), (new Svc())->run(2), \\strlen('abc'), \"\\n\";\n" % suffix)
    return "<?php\n" + code.replace("{S}", suffix) + "\n"


# ---------------------------------------------------------------------------- string-literal stress family
# every byte class inside literals, in every literal form; the programs print strlen and bin2hex, so the
# comparison is on bytes (a compiled string that lost a CR differs in both).  Raw bytes that are not
# valid UTF-8 are carried in the Python source text as surrogate escapes.
STR_ATOMS = [
    ("plain", b"ab"), ("cr", b"\r"), ("lf", b"\n"), ("crlf", b"\r\n"), ("tab", b"\t"), ("nul", b"\0"), ("del", b"\x7f"),
    ("esc", b"\x1b"), ("bq", b"`"), ("bs", b"\\"), ("dq", b'"'), ("sq", b"'"), ("dollar", b"$"), ("brace", b"{x}"),
    ("pct", b"%d%s%%"), ("utf8", "\u00e9\u4e2d".encode("utf-8")), ("astral", "\U0001f600".encode("utf-8")),
    ("bad", b"\xff"), ("trunc", b"\xc3"), ("bom", b"\xef\xbb\xbf"), ("ls", "\u2028".encode("utf-8")),
    ("nbsp", "\u00a0".encode("utf-8")), ("vt_ff", b"\x0b\x0c"), ("nel", "\u0085".encode("utf-8")),
]


def stress_strings(rng, n_random):
    """(id, bytes) list: every atom alone, every atom after a newline, every ordered pair joined by a
    newline (a multi-line literal is where an emitter may switch representation), random mixes, a long one."""
    res = [(n, b) for n, b in STR_ATOMS]
    res += [("lf+" + n, b"x\n" + b + b"y") for n, b in STR_ATOMS]
    for n1, b1 in STR_ATOMS:
        for n2, b2 in STR_ATOMS:
            res.append((n1 + "+lf+" + n2, b1 + b"\n" + b2))
    for k in range(n_random):
        parts = [rng.choice(STR_ATOMS)[1] for _ in range(rng.randint(2, 7))]
        res.append(("rnd%d" % k, b"".join(parts)))
    res.append(("long", b"line of text \r\n" * 400))
    res.append(("empty", b""))
    return res


def _php_dq_escaped(b):
    out = []
    for c in b:
        ch = chr(c)
        if ch == "\r": out.append("\\r")
        elif ch == "\n": out.append("\\n")
        elif ch == "\t": out.append("\\t")
        elif c == 0: out.append("\\0")
        elif ch in '"\\$': out.append("\\" + ch)
        elif 32 <= c < 127 and ch != "{": out.append(ch)
        else: out.append("\\x%02x" % c)
    return '"' + "".join(out) + '"'


def _raw(b):
    return b.decode("utf-8", "surrogateescape")


def _php_dq_raw(b):
    if b"\0" in b:
        return None
    return '"' + _raw(b.replace(b"\\", b"\\\\").replace(b'"', b'\\"').replace(b"$", b"\\$")) + '"'


def _php_sq_raw(b):
    if b"\0" in b:
        return None
    return "'" + _raw(b.replace(b"\\", b"\\\\").replace(b"'", b"\\'")) + "'"


def _php_heredoc(b):
    if b"\0" in b or b"EOT" in b:
        return None
    return "<<<EOT\n" + _raw(b.replace(b"\\", b"\\\\").replace(b"$", b"\\$")) + "\nEOT"


def _php_nowdoc(b):
    if b"\0" in b or b"EOT" in b:
        return None
    return "<<<'EOT'\n" + _raw(b) + "\nEOT"


def _php_interp(b):
    if b"\0" in b:
        return None
    return '"<{$iv}' + _php_dq_raw(b)[1:-1] + '{$iv}>"'


STR_FORMS = [("dq_escaped", _php_dq_escaped), ("dq_raw", _php_dq_raw), ("sq_raw", _php_sq_raw), ("heredoc", _php_heredoc),
             ("nowdoc", _php_nowdoc), ("interpolated", _php_interp)]


def string_programs(rng, quick):
    strs = stress_strings(rng, 12 if quick else 60)
    if quick:
        # all atoms and lf+atom, a seeded tenth of the pairs, the long one; the whole list goes through the
        # emitter round trip below in both tiers (cheap), the programs carry the subset
        strs = [x for x in strs if "+lf+" not in x[0] or rng.random() < 0.1]
    else:
        strs = [x for x in strs if "+lf+" not in x[0] or rng.random() < 0.4]     # every pair goes through the emitter round trip (strlit); the programs carry 40 %
    progs = []
    for form, lit in STR_FORMS:
        lines = ["<?php", "function p_%s($i, $s) { echo $i, ':', strlen($s), ':', bin2hex($s), \"\\n\"; }" % form, "$iv = 'I';"]
        for sid, b in strs:
            l = lit(b)
            if l is None:
                continue
            if form in ("heredoc", "nowdoc"):
                lines.append("$s = %s;\np_%s('%s', $s);" % (l, form, sid))     # this parser does not take a heredoc as a call argument
            else:
                lines.append("p_%s('%s', %s);" % (form, sid, l))
        # the same literals in the other positions a string constant is emitted from: array keys/values,
        # default parameter values, class constants, match arms
        progs.append(("strlit_" + form, "\n".join(lines) + "\n"))
    pos = ["<?php"]
    for k, (sid, b) in enumerate(strs[: (30 if quick else 120)]):
        l = _php_dq_escaped(b)
        pos.append("function d%d($p = %s) { return $p; } class K%d { const C = %s; public $q = %s; }\n"
                   "$a = [%s => %s]; foreach ($a as $ak => $av) { echo '%s:', bin2hex((string)$ak), ':', bin2hex($av), ':', bin2hex(d%d()), ':', bin2hex(K%d::C), ':', bin2hex((new K%d())->q), \"\\n\"; }"
                   % (k, l, k, l, l, l, l, sid, k, k, k))
    progs.append(("strlit_positions", "\n".join(pos) + "\n"))
    return progs, strs


# ---------------------------------------------------------------------------- generated expression / control-flow programs
# seeded random expression trees (ints, floats incl. -0.0 / huge / INF / NAN, strings, booleans, null;
# arithmetic, comparison, logic, concatenation, ternary, null coalescing, calls) inside randomly nested
# control flow: the operands are not constants chosen by hand, and every literal kind reaches the scalar emitters
def gen_expr(rng, depth, vars_):
    if depth <= 0 or rng.random() < 0.25:
        k = rng.random()
        if k < 0.3 and vars_:
            return rng.choice(vars_)
        if k < 0.55:
            return str(rng.choice([0, 1, 2, 3, 7, 10, 255, 1000, -1, -17, 2147483647, 9007199254740993]))
        if k < 0.75:
            return rng.choice(["0.5", "1.5", "-0.0", "0.1", "2.0", "1e3", "1.0E+25", "-2.5e-3", "3.0", "INF", "-INF", "NAN", "1e308 * 10"])
        if k < 0.9:
            return rng.choice(["'a'", "'12'", "'1e1'", "''", "'x y'", "\"q\\n\"", "'0'", "' 5'"])
        return rng.choice(["true", "false", "null"])
    a = gen_expr(rng, depth - 1, vars_)
    b = gen_expr(rng, depth - 1, vars_)
    k = rng.random()
    if k < 0.30:
        return "(%s %s %s)" % (a, rng.choice(["+", "-", "*"]), b)
    if k < 0.36:
        return "(%s %% ((int)%s %% 7 + 9))" % (a, b)
    if k < 0.50:
        return "(%s %s %s)" % (a, rng.choice(["==", "===", "!=", "!==", "<", "<=", ">", ">=", "<=>"]), b)
    if k < 0.60:
        return "(%s %s %s)" % (a, rng.choice(["&&", "||"]), b)
    if k < 0.68:
        return "(%s . %s)" % (a, b)
    if k < 0.76:
        return "(%s ? %s : %s)" % (a, b, gen_expr(rng, depth - 1, vars_))
    if k < 0.82:
        return "(%s ?? %s)" % (a, b)
    if k < 0.88:
        return "(!%s)" % a
    if k < 0.93:
        return "(-%s)" % a
    return rng.choice(["abs((int)%s)", "max((int)%s, 3)", "strlen((string)%s)", "intdiv((int)%s, 7)", "(int)%s", "(float)%s", "(string)%s", "(bool)%s"]) % a


def gen_block(rng, depth, vars_, counter):
    out = []
    for _ in range(rng.randint(1, 3)):
        k = rng.random()
        v = "$v%d" % counter[0]
        counter[0] += 1
        if depth <= 0 or k < 0.45:
            out.append("%s = %s; echo json_encode(@(%s)), var_export(%s, true), \"\\n\";" % (v, gen_expr(rng, 3, vars_), v, v))
            vars_ = vars_ + [v]
        elif k < 0.60:
            out.append("if (%s) { %s } else { %s }" % (gen_expr(rng, 2, vars_), gen_block(rng, depth - 1, vars_, counter), gen_block(rng, depth - 1, vars_, counter)))
        elif k < 0.72:
            i = "$i%d" % counter[0]
            out.append("for (%s = 0; %s < %d; %s++) { if (%s == 1) { continue; } %s }" % (i, i, rng.randint(1, 3), i, i, gen_block(rng, depth - 1, vars_ + [i], counter)))
        elif k < 0.82:
            i = "$w%d" % counter[0]
            out.append("%s = %d; while (%s > 0) { %s--; %s if (%s == 1) { break; } }" % (i, rng.randint(1, 3), i, i, gen_block(rng, depth - 1, vars_ + [i], counter), i))
        elif k < 0.91:
            out.append("foreach ([%s, %s] as $fk%d => $fv%d) { %s }" % (gen_expr(rng, 1, vars_), gen_expr(rng, 1, vars_), counter[0], counter[0],
                                                                      gen_block(rng, depth - 1, vars_ + ["$fk%d" % counter[0], "$fv%d" % counter[0]], counter)))
        else:
            out.append("switch ((int)%s %% 3) { case 0: echo 'z'; break; case 1: echo 'o'; default: echo 'd'; } echo \"\\n\";" % gen_expr(rng, 2, vars_))
    return " ".join(out)


def gen_programs(rng, n):
    progs = []
    for k in range(n):
        body = gen_block(rng, 3, [], [0])
        progs.append(("gen_%02d" % k, "<?php\n" + body.replace("; ", ";\n") + "\n"))
    return progs


# ---------------------------------------------------------------------------- include / require that cannot load
# include/include_once warn and go on, require/require_once are fatal: only visible when the target cannot
# be loaded.  All four forms x missing file / empty path / directory x inside try or not.
def include_programs():
    progs = []
    for form in ("include", "include_once", "require", "require_once"):
        for tname, tgt in (("missing", "'/nonexistent/c16/nosuch.php'"), ("empty", "''"), ("dir", "'/tmp'")):
            progs.append(("inc_%s_%s_bare" % (form, tname),
                          "<?php\necho \"before\\n\";\n$r = %s %s;\necho ($r === false ? 'false' : 'other'), \"\\nafter\\n\";\n" % (form, tgt)))
            progs.append(("inc_%s_%s_try" % (form, tname),
                          "<?php\ntry {\n  echo \"before\\n\";\n  $r = %s %s;\n  echo ($r === false ? 'false' : 'other'), \"\\n\";\n} catch (\\Throwable $e) {\n  echo 'caught ', get_class($e), \"\\n\";\n} finally {\n  echo \"finally\\n\";\n}\necho \"after\\n\";\n" % (form, tgt)))
    return progs


def write_src(path, src):
    with open(path, "w", encoding="utf-8", errors="surrogateescape", newline="") as f:
        f.write(src)


# ---------------------------------------------------------------------------- dump -> Coq
def asc(s):
    return s.encode("ascii", "backslashreplace").decode("ascii")


def coq_val(j):
    if j is None:
        return "VNil"
    if "s" in j:
        return "VScalar %s" % cs(asc(j["s"]))
    if "var" in j:
        return "VVar %s" % cs(asc(j["var"]))
    if "types" in j:
        return "VTypes %s" % cs(asc(j["types"]))
    if "bad" in j:
        return "VBad %s %s" % (coq_bool(j["bad"].startswith("ptr:")), cs(asc(j["bad"])))
    if "n" in j:
        return "VNode %s %s" % (cs(j["n"]), coq_list("(%s, %s)" % (cs(f[0]), coq_val(f[1])) for f in (j.get("f") or [])))
    if "st" in j:
        return "VStruct %s %s" % (cs(asc(j["st"])), coq_list("(%s, %s)" % (cs(f[0]), coq_val(f[1])) for f in (j.get("f") or [])))
    if "l" in j:
        return "VList %s" % coq_list("(%s)" % coq_val(x) for x in j["l"])
    if "m" in j:
        return "VMap %s" % coq_list("(%s, %s)" % (cs(asc(k)), coq_val(v)) for k, v in j["m"])
    return "VBad false \"unknown-dump\""


PSEUDO_TYPES = [
    {"name": "static-method", "handler": "special", "getvalue": True,
     "fields": [{"name": "class", "exported": True, "pp": False, "node": False}, {"name": "method", "exported": True, "pp": False, "node": False}]},
    {"name": "static-property", "handler": "special", "getvalue": True,
     "fields": [{"name": "class", "exported": True, "pp": False, "node": False}, {"name": "property", "exported": True, "pp": False, "node": False}]},
]


def align_calls(a, b):
    """the one place where the late-bound namespace of a call is NOT compared: the parsed side is a plain
    CallExpression (late-namespace = null: callee resolved while parsing), the built side is the NewCallTodo
    the generator always emits; there the full name is found before the namespace is consulted.
    Everywhere else (both sides late-bound) the namespace is part of the tree."""
    if isinstance(a, dict) and isinstance(b, dict):
        if a.get("n") == "node.CallExpression" and b.get("n") == "node.CallExpression":
            fa, fb = a.get("f") or [], b.get("f") or []
            if fa and fb and fa[-1][0] == "late-namespace" and fb[-1][0] == "late-namespace" and fa[-1][1] is None:
                fb[-1][1] = None
        for k in a:
            if k in b:
                align_calls(a[k], b[k])
    elif isinstance(a, list) and isinstance(b, list):
        for x, y in zip(a, b):
            align_calls(x, y)


def coq_table(tb):
    ents = []
    for t in tb:
        fs = coq_list("{| f_name := %s; f_exported := %s; f_pp := %s; f_node := %s |}" % (
            cs(f["name"]), coq_bool(f["exported"]), coq_bool(f["pp"]), coq_bool(f["node"])) for f in (t.get("fields") or []))
        h = {"special": "HSpecial", "scalar": "HScalar"}.get(t["handler"], "HReflect")
        ents.append("(%s, {| t_fields := %s; t_handler := %s |})" % (cs(t["name"]), fs, h))
    return "[\n  " + ";\n  ".join(ents) + "\n]"


def handler_free_subtrees(j, tmap, acc, limit):
    """maximal subtrees rooted at reflective nodes that contain no handler-typed node"""
    def hf(x):
        if x is None:
            return True
        if "n" in x:
            t = tmap.get(x["n"])
            if not t or t["handler"] != "reflect":
                return False
            return all(hf(f[1]) for f in (x.get("f") or []))
        if "st" in x:
            return all(hf(f[1]) for f in (x.get("f") or []))
        if "l" in x:
            return all(hf(y) for y in x["l"])
        if "m" in x:
            return all(hf(v) for _, v in x["m"])
        return True

    def walk(x):
        if x is None or len(acc) >= limit:
            return
        if "n" in x:
            if hf(x):
                if len(x.get("f") or []) > 1:
                    acc.append(x)
                return
            for f in (x.get("f") or []):
                walk(f[1])
        elif "st" in x:
            for f in (x.get("f") or []):
                walk(f[1])
        elif "l" in x:
            for y in x["l"]:
                walk(y)
        elif "m" in x:
            for _, v in x["m"]:
                walk(v)
    walk(j)


def first_diff(a, b, tmap, path=""):
    """where two dumps differ after erasure (for replay messages and finding keys)"""
    if a is None and b is None:
        return None
    if type(a) != type(b) or (isinstance(a, dict) and set(a.keys()) != set(b.keys())):
        return (path, "shape")
    if isinstance(a, dict):
        if "n" in a or "st" in a:
            k = "n" if "n" in a else "st"
            if a[k] != b[k]:
                return (path, "type %s -> %s" % (a[k], b[k]))
            t = tmap.get(a[k], {})
            fb = dict((x[0], x[1]) for x in (b.get("f") or []))
            for fn, fv in (a.get("f") or []):
                fd = next((f for f in (t.get("fields") or []) if f["name"] == fn), None)
                if fd and fd["node"]:
                    if (fv is None) != (fb.get(fn) is None):
                        return (a[k] + ".*Node", "embedded Node present on one side only")
                    continue
                if fd and fd["pp"] and t.get("handler") == "reflect":
                    continue
                d = first_diff(fv, fb.get(fn), tmap, (path.split(">")[-1] + ">" if path else "") + a[k] + "." + fn)
                if d:
                    return d
            return None
        for k in a:
            if k == "l":
                if len(a[k]) != len(b[k]):
                    return (path, "length %d -> %d" % (len(a[k]), len(b[k])))
                for x, y in zip(a[k], b[k]):
                    d = first_diff(x, y, tmap, path)
                    if d:
                        return d
            elif k == "m":
                da, db = dict(map(tuple, a[k])), dict(map(tuple, b[k]))
                if set(da) != set(db):
                    return (path, "map keys %s -> %s" % (sorted(da)[:4], sorted(db)[:4]))
                for kk in da:
                    d = first_diff(da[kk], db[kk], tmap, path)
                    if d:
                        return d
            elif k != "f" and a[k] != b[k]:
                return (path, "value %s -> %s" % (str(a[k])[:40], str(b[k])[:40]))
    return None


# ---------------------------------------------------------------------------- the real command and the project
def scan_types(repo):
    res = []
    for pkg in ("node", "data"):
        d = os.path.join(repo, pkg)
        for f in sorted(os.listdir(d)):
            if not f.endswith(".go") or f.endswith("_test.go"):
                continue
            txt = open(os.path.join(d, f), encoding="utf-8", errors="replace").read()
            for m in re.finditer(r"^type\s+([A-Z][A-Za-z0-9_]*)\s+struct\b", txt, re.M):
                res.append((pkg, m.group(1)))
    return sorted(set(res))


def run_compile(origami, repo, srcdir, outdir, log):
    """`origami compile srcdir -o outdir --pkg main`; files the command rejects are moved away and the
    command is repeated.  Returns {file: message} of rejected files."""
    rejected = {}
    for _ in range(200):
        p = subprocess.run([origami, "compile", srcdir, "-o", outdir, "--pkg", "main"], cwd=repo,
                           stdout=subprocess.PIPE, stderr=subprocess.STDOUT, text=True, timeout=600)
        if p.returncode == 0:
            return rejected, p.stdout
        bad = set(re.findall(r"解析 (\S+?\.php) 失败", p.stdout)) | set(re.findall(r"compile error: (\S+?\.php)", p.stdout))
        bad = [b for b in bad if os.path.exists(b)]
        if not bad:
            log("compile command failed and the failing file could not be attributed:\n" + p.stdout[-1500:])
            return None, p.stdout
        for b in bad:
            msg = next((l for l in p.stdout.split("\n") if b in l), "")
            detail = p.stdout[p.stdout.find("compile error"):][:400] if "compile error" in p.stdout else msg[:400]
            rejected[b] = detail
            os.rename(b, b + ".rejected")
    return rejected, ""


def read_ctors(outdir):
    ctors = {}
    for f in os.listdir(outdir):
        if f.startswith("ast_") and f.endswith(".go"):
            t = open(os.path.join(outdir, f), encoding="utf-8").read()
            fn = re.search(r"^func (AST_\w+)\(\)", t, re.M)
            path = re.search(r'filePath := ("(?:[^"\\]|\\.)*")', t)
            if fn and path:
                ctors[json.loads(path.group(1))] = fn.group(1)
    return ctors


def go_mod(repo, verif):
    return ("module c16proj\n\ngo 1.25.0\n\nrequire github.com/php-any/origami v0.0.0\n\nrequire verif/harness v0.0.0\n\n"
            "replace github.com/php-any/origami => %s\n\nreplace verif/harness => %s/harness\n" % (repo, verif))


def run_engine(engine, reqs, cwd, timeout=1200):
    p = subprocess.run([engine], input="\n".join(json.dumps(r) for r in reqs) + "\n", stdout=subprocess.PIPE,
                       stderr=subprocess.PIPE, text=True, cwd=cwd, timeout=timeout)
    outs = []
    for l in p.stdout.split("\n"):
        if l.startswith("{"):
            try:
                outs.append(json.loads(l))
            except ValueError:
                pass
    return outs, p


POS = re.compile(r"(\.php|\.zy|\.go)(:\d+(:\d+)?| on line \d+)")


def norm_run(r):
    """outcome, stdout, exit decision and status, the uncaught error (class + message) and stderr;
    source positions inside the error text are normalised (compiled programs carry none: known finding)"""
    return (r.get("outcome"), TS.sub("<ts>", r.get("out", "")), bool(r.get("exit_fail")), r.get("exit_code", 0),
            POS.sub(r"\1:<pos>", r.get("detail") or ""), POS.sub(r"\1:<pos>", TS.sub("<ts>", r.get("stderr") or "")))


# ---------------------------------------------------------------------------- main
def main(ck):
    rng = ck.rng
    quick = ck.tier != "thorough"
    repo = os.path.realpath(vcheck.REPO)
    verif = vcheck.VERIF
    ck.trusted += [
        "harness/cmd/c16 dumper: the abstraction from Go values to the model's `val` follows emitReflectValue's classification; its normalisations (CallLater ~ CallExpression, CallStatic* ~ CallStatic*Later, []data.Variable as name#index, sync.Map snapshot, CallExpression.Fun ignored) encode what the special handlers are meant to preserve",
        "special handlers and scalar emitters are abstracted as faithful (GHandler) in the model: validated by the structural and end-to-end comparisons, not proved",
        "the Go compiler is the real `rebuild`: the tree built by the generated constructor is what the theorems' rebuild stands for",
        "the node type universe is the set of exported struct types of /repo/node and /repo/data found by a source scan",
        "in the batch engine the compiled side transcribes the entry branch of the generated Register() and main() (template text checked every run; real single-program projects built from the unmodified templates as well)",
        "checks/C16.py (generators, Coq term printer), cmd/compile/verif_export.go (build tag verif): views and forwarding wrappers",
    ]
    ck.prove()
    origami, _ = ck.build_origami()
    if origami is None:
        ck.broken.append("origami-build")
        ck.finish(evaluations=0, distinct_nontrivial=0, rule="interpreter did not build")

    work = os.path.join(ck.bdir, "work")
    shutil.rmtree(work, ignore_errors=True)
    gen_dir = os.path.join(work, "gen")
    proj = os.path.join(work, "proj")
    os.makedirs(gen_dir)
    os.makedirs(proj)

    # ---- programs
    progs = {}          # path -> meta
    replay = None
    stress = []
    if ck.replay:
        replay = json.load(open(ck.replay)).get("case")
    if replay and replay.get("src"):
        p = os.path.join(gen_dir, "replay.php")
        write_src(p, replay["src"])
        progs[p] = {"kind": "feature", "features": replay.get("features", ["replay"]), "src": replay["src"]}
    elif replay is None:
        for i, (name, code) in enumerate(FEATURES):
            p = os.path.join(gen_dir, "f%02d_%s.php" % (i, name))
            src = feature_src(name, code, "_%d" % i)
            write_src(p, src)
            progs[p] = {"kind": "feature", "features": [name], "src": src}
        sprogs, _ = string_programs(rng, quick)
        stress = stress_strings(rng, 100)
        # the translation of a file depends on what the same `origami compile` run parsed before it: an unqualified
        # class name inside a namespace resolves to a same-named GLOBAL class when one is already loaded
        # (isolated from tests/php/rti_debug.php + spl_iterator_family_test.php).  a_ sorts before b_.
        ctx_pair = [("batchctx_a_global_class", "<?php\nclass CtxDup { function who() { return 'global'; } }\necho (new CtxDup())->who(), \"\\n\";\n"),
                    ("batchctx_b_namespaced_class", "<?php\nnamespace CtxNs;\nclass CtxDup { function who() { return 'namespaced'; } function again() { return new CtxDup(); } }\n"
                                                    "echo (new CtxDup())->who(), (new CtxDup())->again()->who(), \"\\n\";\n")]
        # the entry includes, at run time, a helper that is NOT part of the compiled tree, and the helper does
        # require_once of the ENTRY's own path (a circular include: a no-op when interpreted, because running a script
        # puts it on the loaded-files list; seeded C16-12).  The helper lives next to the program directory.
        back_src = ("<?php\necho \"entry\\n\";\nfunction only_once_back() { return 1; }\n"
                    "include __DIR__ . '/../ext_back/helper.php';\nrequire_once __FILE__;\necho \"after \", only_once_back(), \"\\n\";\n")
        os.makedirs(os.path.join(work, "ext_back"), exist_ok=True)
        open(os.path.join(work, "ext_back", "helper.php"), "w").write(
            "<?php\necho \"helper\\n\";\nrequire_once '%s';\necho \"helper done\\n\";\n" % os.path.join(gen_dir, "x_include_back_to_entry.php"))
        # a namespace that declares functions named like built-ins: calls bound while parsing keep meaning the built-in
        # (seeded C16-11: the late-bound form the compiler emits for every call looked the name up in the namespace first)
        shadow_src = ("<?php\nnamespace App\\Text;\nfunction strlen($s) { return 42; }\nfunction ucfirst($s) { return '<' . $s . '>'; }\nfunction count($x) { return -1; }\n"
                      "function mine($s) { return strlen($s) . ucfirst($s); }\n"
                      "echo strlen('abc'), ' ', ucfirst('abc'), ':', \\strlen('abcd'), ' ', \\App\\Text\\strlen('x'), ' ', count([1, 2]), ' ', mine('q'), \"\\n\";\n")
        more = [("include_back_to_entry", back_src), ("namespace_shadows_builtin", shadow_src)]
        for name, src in sprogs + include_programs() + ctx_pair + more + gen_programs(rng, 16 if quick else 60):
            p = os.path.join(gen_dir, "x_%s.php" % name)
            write_src(p, src)
            progs[p] = {"kind": "feature", "features": [name], "src": src}
        combinable = [f for f in FEATURES if f[0] not in ("uncaught_throw", "undefined_function", "exit_code", "namespace_fn", "shutdown_function", "multi_namespace", "user_attribute", "datetime_fixed", "ob_open_at_end_shutdown")
                      and not any(k.startswith("e2e:feature=%s" % f[0]) or k.startswith("reject:feature=%s" % f[0]) or k.startswith("struct:") and f[0] in k for k in ck.known)]
        for c in range(8 if quick else 60):
            chosen = rng.sample(combinable, min(len(combinable), rng.randint(3, 6)))
            src = "<?php\n" + "\n".join(code.replace("{S}", "_c%d" % c) for _, code in chosen) + "\n"
            p = os.path.join(gen_dir, "c%02d_combo.php" % c)
            open(p, "w").write(src)
            progs[p] = {"kind": "combo", "features": [n for n, _ in chosen], "src": src}
    corpus_dirs = []
    if replay is None or (replay and replay.get("file")):
        if replay and replay.get("file"):
            corpus_dirs = [os.path.dirname(os.path.join(repo, replay["file"]))]
        else:
            corpus_dirs = [os.path.join(repo, d) for d in (["tests/basic", "tests/obj"] if quick else ["tests", "examples"])]

    # ---- the real command
    t0 = time.time()
    rejected_all = {}
    rej, out = run_compile(origami, repo, gen_dir, proj, ck.log)
    if rej is None:
        ck.broken.append("compile-command")
        ck.finish(evaluations=0, distinct_nontrivial=0, rule="compile command failed")
    rejected_all.update(rej)
    ctors = read_ctors(proj)
    corpus_rejected_backup = []
    for d in corpus_dirs:
        if not os.path.isdir(d):
            continue
        tmp_out = os.path.join(work, "out_" + os.path.basename(d))
        # the corpus is compiled in place (autoload and relative includes depend on the location);
        # rejected files are renamed only for the duration of the command
        rej, out = run_compile(origami, repo, d, tmp_out, ck.log)
        for root, _, fs in os.walk(d):
            for f in fs:
                if f.endswith(".php.rejected"):
                    os.rename(os.path.join(root, f), os.path.join(root, f[:-len(".rejected")]))
        if rej is None:
            ck.notes.append("compile command failed on corpus directory %s" % d)
            continue
        rejected_all.update(rej)
        for f in os.listdir(tmp_out):
            if f.startswith("ast_") and f.endswith(".go"):
                shutil.copy(os.path.join(tmp_out, f), os.path.join(proj, f))
        c2 = read_ctors(tmp_out)
        for path, fn in c2.items():
            ctors[path] = fn
            txt = open(path, encoding="utf-8", errors="replace").read()
            progs[path] = {"kind": "corpus", "features": [os.path.relpath(path, repo)], "src": None,
                           "nondet": bool(NONDET_SRC.search(txt)) or "run_tests" in path}
    ck.cov["compile_wall_s"] = round(time.time() - t0, 1)
    for f, msg in sorted(rejected_all.items()):
        # a rejected file is a reported compile error - the property allows that ("never a silently wrong
        # program") - but a construct the command cannot translate is a limit of the compiler worth a line:
        # each rejection is reported (a change that makes the emitter reject what it used to accept - a new
        # unexported field in a node type, say - shows up here instead of shrinking the corpus silently)
        meta = progs.get(f, {})
        name = (meta.get("features") or [os.path.relpath(f, repo) if f.startswith(repo) else os.path.basename(f)])[0]
        kind = "corpus" if f.startswith(repo) else ("combo" if meta.get("kind") == "combo" else "feature")
        if kind == "combo":
            name = "+".join(sorted(meta.get("features") or []))
        first = [l.strip() for l in msg.split("\n") if l.strip()]
        why = re.sub(r"0x[0-9a-f]+", "0x", " | ".join(first[1:3]) if len(first) > 1 else (first[0] if first else ""))[:160]
        ck.violation("reject:%s=%s" % (kind, name), {"case": {"kind": "reject", "file": os.path.relpath(f, repo) if f.startswith(repo) else None,
                                                              "src": meta.get("src"), "features": meta.get("features")},
                                                     "impl_out": msg[:1500],
                                                     "clause": "the compile command rejects a program the interpreter runs (%s)" % why})
    ck.cov["files_rejected_by_compile"] = {os.path.relpath(f, repo) if f.startswith(repo) else os.path.basename(f): m[:200] for f, m in sorted(rejected_all.items())}

    # ---- assemble and build the project
    types = scan_types(repo)
    with open(os.path.join(proj, "ctors_gen.go"), "w") as f:
        f.write("package main\n\nvar ctors = map[string]ctor{\n" + "".join("\t%s: %s,\n" % (json.dumps(k), v) for k, v in sorted(ctors.items())) + "}\n")
    with open(os.path.join(proj, "types_gen.go"), "w") as f:
        f.write("package main\n\nimport (\n\t\"reflect\"\n\n\t\"github.com/php-any/origami/data\"\n\t\"github.com/php-any/origami/node\"\n)\n\n"
                "var nodeTypes = []reflect.Type{\n" + "".join("\treflect.TypeOf((*%s.%s)(nil)),\n" % t for t in types) + "}\n")
    for f in os.listdir(os.path.join(verif, "harness", "cmd", "c16")):
        shutil.copy(os.path.join(verif, "harness", "cmd", "c16", f), proj)
    open(os.path.join(proj, "go.mod"), "w").write(go_mod(repo, verif))
    shutil.copy(os.path.join(repo, "go.sum"), os.path.join(proj, "go.sum"))
    t0 = time.time()
    rc, out = vcheck.sh(["go", "build", "-tags", "verif c16proj", "-o", "engine", "."], cwd=proj, env=vcheck.go_env(), timeout=1500)
    ck.cov["go_build_wall_s"] = round(time.time() - t0, 1)
    ck.cov["generated_files_in_one_package"] = len(ctors)
    if rc != 0:
        # the command accepted the sources but the generated package does not build
        m = re.search(r"\./(ast_\w+\.go):(\d+):\d+: (.*)", out)
        ck.log("generated package does not build:\n" + out[-3000:])
        if not m:
            # nothing wrong with the generated files: the harness sources themselves do not build
            ck.broken.append("harness-build")
            ck.finish(evaluations=0, distinct_nontrivial=0, rule="harness did not build")
        ck.violation("build:generated-package", {"case": {"kind": "build"}, "impl_out": out[-3000:],
                                                 "clause": "the Go program generated for an accepted source must build (%s)" % (m.group(3)[:120] if m else "go build failed")})
        ck.broken.append("generated-package-build")
        ck.finish(evaluations=len(progs), distinct_nontrivial=0, rule="generated package did not build")
    engine = os.path.join(proj, "engine")

    # ---- regenerated table + obligations
    files_in_order = sorted(ctors.keys())
    gen_files = sorted(f for f in files_in_order if f.startswith(gen_dir))
    by_dir = {}
    for f in files_in_order:
        if not f.startswith(gen_dir):
            by_dir.setdefault(next(d for d in corpus_dirs if f.startswith(d)), []).append(f)
    if replay and replay.get("kind") == "strlit":
        stress = [("replay", bytes.fromhex(replay["hex"]))]
    elif replay is None and not quick:
        stress = stress_strings(rng, 3000)
    # float64 bit patterns for the float-literal round trip: values needing 15 / 16 / 17 significant digits, powers of two
    # and their neighbours, subnormals, the extremes, +-0, +-inf, NaN, whole numbers, seeded random bit patterns
    import struct
    fl = [0.1, 0.2, 0.1 + 0.2, 0.7999999999999999, 2.220446049250313e-16, 9007199254740992.0, 9007199254740993.0, 1.0, -3.0, 1e25,
          1e-300, 5e-324, 2.2250738585072014e-308, 2.225073858507201e-308, 1.7976931348623157e308, 123456789.12345678, 1 / 3, 2 / 3,
          3.141592653589793, 0.30000000000000004, 1e15 + 0.3, 4.35, 0.000001, 1e21, 1e22, 123456789012345680.0]
    fbits = ["%016x" % struct.unpack(">Q", struct.pack(">d", x))[0] for x in fl + [-x for x in fl]]
    fbits += ["0000000000000000", "8000000000000000", "7ff0000000000000", "fff0000000000000", "7ff8000000000000", "0000000000000001", "000fffffffffffff"]
    for e in range(0, 2047, 97):
        for m in (0, 1, (1 << 52) - 1, 0x5555555555555):
            fbits.append("%016x" % ((e << 52) | m))
    fbits += ["%016x" % rng.getrandbits(64) for _ in range(400 if quick else 5000)]
    reqs = [{"mode": "table"}, {"mode": "emit_zero"}, {"mode": "strlit", "hex": [b.hex() for _, b in stress]}, {"mode": "loaders"},
            {"mode": "floatlit", "hex": fbits if (replay is None or replay.get("kind") == "floatlit") else []},
            {"mode": "struct", "files": gen_files}]
    for d in sorted(by_dir):
        reqs.append({"mode": "struct", "files": sorted(by_dir[d])})
    outs, p = run_engine(engine, reqs, repo)
    if len(outs) != len(reqs):
        ck.log("engine returned %d/%d answers rc=%s\n%s" % (len(outs), len(reqs), p.returncode, p.stderr[-2000:]))
        ck.broken.append("harness-run")
        ck.finish(evaluations=0, distinct_nontrivial=0, rule="engine crashed")
    table = outs[0]["table"] + PSEUDO_TYPES
    for t in table:
        if t["name"] == "node.CallExpression":
            # pseudo-field added by the dumper: the namespace of the late-bound form (CallLater.namespace)
            t["fields"] = (t.get("fields") or []) + [{"name": "late-namespace", "exported": True, "pp": False, "node": False, "kind": "string"}]
    tmap = {t["name"]: t for t in table}
    emit_zero = outs[1]["emit_zero"]
    strlit = outs[2].get("strlit") or []
    loaders = outs[3].get("loaders") or {}
    floatlit = outs[4].get("floatlit") or []
    structs = [s for o in outs[5:] for s in o["struct"]]
    nfl_bad = 0
    for r in floatlit:
        if r.get("status") != "ok":
            nfl_bad += 1
            ck.violation("floatlit:%s" % r.get("status"), {"case": {"kind": "floatlit", "hex": r.get("hex")}, "impl_out": r,
                                                           "clause": "float_round_trip: the Go expression the emitter prints for a float must denote exactly the same float64 (bits %s)" % r.get("hex")})
    ck.cov["float_round_trip_bit_patterns"] = len(floatlit)
    # ---- the generated main.go loads the standard library like the interpreter does (seeded C16-6): VM.AddClass /
    # AddFunc keep the first registration of a name, so for names registered by two loaders the ORDER decides
    def load_order(text):
        return [m for m in re.findall(r"\b(\w+)\.Load\(vm\)", text)]
    alias = {"netannotation": "annotation"}
    tmpl_order = [alias.get(x, x) for x in load_order(open(os.path.join(repo, "cmd", "compile", "template.go"), encoding="utf-8").read().split("defaultMainTmpl", 1)[-1])]
    zy_order = [alias.get(x, x) for x in load_order(open(os.path.join(repo, "zy.go"), encoding="utf-8").read())]
    dups = sorted(list((loaders.get("classes") or {}).keys()) + list((loaders.get("funcs") or {}).keys()))
    ck.cov["stdlib_loader_order"] = {"generated_main_template": tmpl_order, "interpreter_zy_go": zy_order}
    ck.cov["names_registered_by_two_loaders_with_different_go_types"] = {k: ["%s:%s" % (r["Loader"], r["Type"]) for r in v]
                                                                       for k, v in list((loaders.get("classes") or {}).items()) + list((loaders.get("funcs") or {}).items())}
    if tmpl_order != zy_order:
        ck.violation("template:loader-order", {"case": {"kind": "loader-order"}, "impl_out": {"template": tmpl_order, "zy.go": zy_order, "first-registration-wins names": dups},
                                               "clause": "the generated main.go must load the standard library in the interpreter's order: %s are registered by two loaders with different implementations and the first registration wins" % (", ".join(dups) or "no name today")})
    tbl_term = coq_table(table)
    table_def = "Definition tbl : table := %s.\n" % tbl_term
    obl = os.path.join(ck.bdir, "Obligations.v")
    with open(obl, "w", encoding="latin-1") as f:
        f.write("From Coq Require Import List String Bool.\nImport ListNotations.\nFrom V.C16 Require Import Model Spec Proofs.\nOpen Scope string_scope.\n")
        f.write("(* node-field table regenerated from %s by reflection (harness/cmd/c16 table) *)\n" % repo)
        f.write(table_def)
        f.write("Lemma tbl_wf : table_wf tbl = true.\nProof. vm_compute. reflexivity. Qed.\n")
        f.write("Lemma tbl_erased_ok : erased_ok tbl = true.\nProof. vm_compute. reflexivity. Qed.\n")
        f.write("Theorem rebuild_emit_tbl : forall v, nodes_present tbl v = true -> forall g, emit tbl v = Ok g -> rebuild g = erase tbl v.\n"
                "Proof. exact (rebuild_emit_l tbl tbl_wf). Qed.\n")
        f.write("Theorem emit_ok_iff_covered_tbl : forall v, (exists g, emit tbl v = Ok g) <-> covered tbl v = true.\n"
                "Proof. exact (emit_ok_iff_covered_l tbl). Qed.\nPrint Assumptions rebuild_emit_tbl.\n")
    rc, out = ck.coqc(obl, cwd=ck.bdir)
    ck.checker_cmds.append("coqc .build/C16/Obligations.v (field table regenerated from /repo by reflection)")
    ck.obligations += 4
    if rc == 0:
        ck.discharged += 4
    else:
        ck.log("obligations on the regenerated table FAILED:\n" + out[-2500:])
        ck.broken.append("obligation:regenerated-table")
        ck.coq_log_tail = out[-2500:]
    reflect_types = [t for t in table if t["handler"] == "reflect" and t.get("getvalue")]
    uncovered_types = sorted(t["name"] for t in reflect_types if any((not f["exported"]) and not f["node"] for f in (t.get("fields") or [])))
    ck.cov["node_types"] = len(outs[0]["table"])
    ck.cov["node_types_by_handler"] = {h: sum(1 for t in outs[0]["table"] if t["handler"] == h) for h in ("special", "scalar", "reflect")}
    ck.cov["reflective_types_not_covered (compile error by construction)"] = uncovered_types
    ck.cov["pp_dash_fields_of_reflective_types"] = sorted("%s.%s" % (t["name"], f["name"]) for t in reflect_types for f in (t.get("fields") or []) if f["pp"] and not f["node"])

    header = HEADER + table_def
    evaluations = 0
    traces = 0

    # ---- tie 1: Emit on the zero value of every node type vs the model
    zterms, zidx = [], []
    for e in emit_zero:
        t = tmap.get(e["name"])
        if not t:
            continue
        fields = []
        for f in (t.get("fields") or []):
            if f["node"]:
                fields.append("(\"*Node\", node_marker)")
            else:
                k = f.get("kind", "")
                if k in ("string",):
                    z = "VScalar \"\\\"\\\"\"".replace("\\\"", "\"\"")
                elif k in ("bool",):
                    z = "VScalar \"false\""
                elif re.fullmatch(r"u?int\d*|float\d+|uint8|byte", k) or k.split(".")[-1] in ("TokenType", "Modifier"):
                    z = "VScalar \"0\""
                elif k.startswith("func"):
                    z = "VBad false \"func-nil\""
                elif k.startswith("map[") and not k.startswith("map[string]"):
                    z = "VBad false \"map-key\""
                elif k.startswith("[]") or k.startswith("map["):
                    z = "VList []" if k.startswith("[]") else "VMap []"
                elif k.startswith("*") or "." not in k or k.startswith("data.") and k in ("data.GetValue", "data.Variable", "data.Types", "data.Value", "data.Method", "data.ClassStmt", "data.Property", "data.From", "data.Control", "data.FuncStmt", "data.Context", "data.Modifier"):
                    z = "VNil"
                else:
                    z = None     # struct by value / named kinds: leave the comparison to the dump-based ties
                if z is None:
                    fields = None
                    break
                fields.append("(%s, %s)" % (cs(f["name"]), z))
        if fields is None:
            continue
        zterms.append("(VNode %s %s, %s)" % (cs(e["name"]), coq_list(fields), coq_bool(e["outcome"] == "ok")))
        zidx.append(e)
    zbad = ck.eval_cases("zero", header, zterms, "check_zero tbl", shard=400)
    evaluations += len(zterms)
    traces += len(zterms)
    for j, cl in sorted(zbad.items()):
        e = zidx[j]
        ck.broken.append("correspondence:C16.emit_zero:%s" % e["name"])
        ck.violation("tie:emit-zero:%s" % e["name"], {"case": {"kind": "emit_zero", "type": e["name"]}, "impl_out": e,
                                                     "clause": "emit_ok_iff_covered: the model and Generator.Emit disagree on whether the zero value of %s can be emitted" % e["name"]})
    for e in emit_zero:
        if e.get("not_go"):
            ck.violation("emit:not-go:%s" % e["name"], {"case": {"kind": "emit_zero", "type": e["name"]}, "impl_out": e,
                                                       "clause": "Generator.Emit returned no error on the zero value of %s but the text it printed is not a Go expression (go/parser)" % e["name"]})
    ck.cov["emit_zero_cases"] = len(zterms)
    ck.cov["emit_zero_outcomes"] = {o: sum(1 for e in emit_zero if e["outcome"] == o) for o in ("ok", "error", "panic")}

    # ---- string literals: what the real emitter prints, read back as the Go compiler reads it
    evaluations += len(strlit) + len(floatlit)
    nfields = 0
    for (sid, b), r in zip(stress, strlit):
        nfields = max(nfields, r.get("fields", 0))
        bad = []
        if r["scalar"] != "ok":
            bad.append("data.StringValue: " + r["scalar"])
        bad += r.get("reflect") or []
        if bad:
            classes = "+".join(sorted(set(n for n, a in STR_ATOMS if a in b)))[:80]
            ck.violation("strlit:%s:%s" % (bad[0].split(":")[0].strip(), classes),
                         {"case": {"kind": "strlit", "hex": b.hex(), "id": sid}, "impl_out": {"emitted": r.get("emitted"), "failures": bad[:10]},
                          "clause": "string_round_trip: the Go literal the emitter prints for a string must denote exactly the same bytes (%d of its emitters do not)" % len(bad)})
    ck.cov["string_round_trip_strings"] = len(strlit)
    ck.cov["string_round_trip_reflective_string_fields"] = nfields

    # ---- tie 2 / validation (a): structural comparison per program
    pterms, pidx, subterms = [], [], []
    for s in structs:
        meta = progs.get(s["file"])
        if s.get("err") or s.get("parsed") is None or s.get("built") is None:
            ck.violation("struct:error", {"case": {"kind": "struct", "file": s["file"], "src": (meta or {}).get("src")}, "impl_out": s.get("err"),
                                          "clause": "the parsed tree and the constructor-built tree could not be obtained"})
            continue
        align_calls(s["parsed"], s["built"])
        pterms.append("(%s, %s)" % (coq_val(s["parsed"]), coq_val(s["built"])))
        pidx.append(s)
        for sub in (s.get("subs") or []):
            acc = []
            handler_free_subtrees(sub["v"], tmap, acc, 1)
            # only nodes that are handler-free as a whole: there the model is a transcription
            if acc and acc[0] is sub["v"]:
                subterms.append("(%s, %s)" % (coq_val(sub["v"]), coq_bool(sub["ok"])))
    # balance the shards: deal the programs out by size, so that the large ones do not share a shard
    nsh = max(1, min(16, len(pterms) // 4))
    order = sorted(range(len(pterms)), key=lambda i: -len(pterms[i]))
    order = [order[j] for k in range(nsh) for j in range(k, len(order), nsh)]
    pterms = [pterms[i] for i in order]
    pidx = [pidx[i] for i in order]
    pbad = ck.eval_cases("prog", header, pterms, "check_prog tbl", shard=-(-len(pterms) // nsh) if pterms else 1, timeout=1200)
    sbad = ck.eval_cases("sub", header, subterms, "check_sub tbl", shard=400)
    evaluations += len(pterms) + len(subterms)
    traces += len(pterms) + len(subterms)
    ck.cov["programs_compared_structurally"] = len(pterms)
    # where the structural comparison is vacuous: fields of handler-emitted node types that no parsed program
    # of this run carried with a non-default value (a handler that dropped such a field would not be noticed)
    special_types = {t["name"] for t in table if t["handler"] == "special"}
    exercised, seen_types = set(), set()

    def is_default(v):
        if v is None:
            return True
        if isinstance(v, dict):
            if "s" in v:
                return v["s"] in ('""', "0", "false", "node")
            if "l" in v:
                return not v["l"]
            if "m" in v:
                return not v["m"]
        return False

    def walk_fields(v):
        if isinstance(v, dict):
            if "n" in v or "st" in v:
                tn = v.get("n") or v.get("st")
                if tn in special_types:
                    seen_types.add(tn)
                for f in v.get("f") or []:
                    if tn in special_types and not is_default(f[1]):
                        exercised.add("%s.%s" % (tn, f[0]))
                    walk_fields(f[1])
            else:
                for x in v.values():
                    walk_fields(x)
        elif isinstance(v, list):
            for x in v:
                walk_fields(x)
    for sres in structs:
        walk_fields(sres.get("parsed"))
    never = sorted("%s.%s" % (t["name"], f["name"]) for t in table if t["name"] in seen_types
                   for f in (t.get("fields") or []) if not f["node"] and f["exported"] and not f["pp"]
                   and "%s.%s" % (t["name"], f["name"]) not in exercised)
    # which implementations of data.Types did the compared programs carry (declared types are dumped as
    # "<Go type>:<text>": a kind genTypes turns into another kind shows as a structural difference - but only for kinds
    # that occur)
    kinds = set()

    def walk_kinds(v):
        if isinstance(v, dict):
            for key in ("types", "var"):
                if key in v and isinstance(v[key], str):
                    for m in re.finditer(r"(data\.\w+):", v[key]):
                        kinds.add(m.group(1))
            for x in v.values():
                walk_kinds(x)
        elif isinstance(v, list):
            for x in v:
                walk_kinds(x)
    for sres in structs:
        walk_kinds(sres.get("parsed"))
    ck.cov["declared_type_kinds_seen_in_compared_programs"] = sorted(kinds)
    ck.cov["declared_type_kinds_never_seen (genTypes untested for them)"] = sorted(t["name"] for t in outs[0]["table"] if t.get("is_types") and t["name"] not in kinds)
    ck.cov["special_handler_types_seen_in_programs"] = "%d of %d" % (len(seen_types), len(special_types))
    ck.cov["special_handler_types_never_seen"] = sorted(special_types - seen_types)
    ck.cov["special_handler_fields_never_non_default (structural comparison vacuous there)"] = never
    ck.cov["handler_free_subtrees_checked_against_the_model"] = len(subterms)
    for j, cl in sorted(sbad.items()):
        ck.broken.append("correspondence:C16.emit")
        ck.violation("tie:handler-free-subtree:clauses=%s" % "".join(map(str, cl)),
                     {"case": {"kind": "subtree", "term": subterms[j][:2000]}, "clause": "emit_ok_iff_covered / rebuild_emit: the model and the real Generator.Emit disagree on a handler-free node of a parsed program"})
    struct_diff_files = set()
    for j, cl in sorted(pbad.items(), key=lambda kv: len(pterms[kv[0]])):
        s = pidx[j]
        meta = progs.get(s["file"], {})
        d = first_diff(s["parsed"], s["built"], tmap) or ("?", "differs after erasure")
        struct_diff_files.add(s["file"])
        key = "struct:%s:%s" % (d[0], re.sub(r"[^A-Za-z0-9_.>-]+", "_", d[1])[:60])
        ck.violation(key, {"case": {"kind": "struct", "file": os.path.relpath(s["file"], repo) if s["file"].startswith(repo) else None,
                                    "src": meta.get("src"), "features": meta.get("features")},
                           "impl_out": {"where": d[0], "difference": d[1]},
                           "clause": "the tree built by the generated Go constructor differs from the parsed tree in a field that is not runtime-only (clauses %s)" % cl})

    # ---- validation (b): end to end, compiled vs interpreted, child processes
    e2e_files = [f for f in files_in_order if not progs.get(f, {}).get("nondet")]
    t0 = time.time()

    def one(f):
        o, pp = run_engine(engine, [{"mode": "e2e", "file": f}], repo if not f.startswith(gen_dir) else gen_dir, timeout=120)
        return o[0] if o else {"file": f, "err": "engine died: " + pp.stderr[-300:]}
    with ThreadPoolExecutor(max_workers=max(2, min(8, vcheck.NCPU // 2))) as ex:
        e2e = list(ex.map(one, e2e_files))
    ck.cov["e2e_wall_s"] = round(time.time() - t0, 1)
    evaluations += 2 * len(e2e)
    ndiff = 0
    nmulti = 0
    e2e_keys = []
    for r in e2e:
        meta = progs.get(r["file"], {})
        if r.get("err"):
            ck.violation("e2e:error", {"case": {"kind": "e2e", "file": r["file"], "src": meta.get("src")}, "impl_out": r, "clause": "engine failure"})
            continue
        if r["interpreted"].get("multi"):
            nmulti += 1
            continue      # the script pulls in sibling files: compiled behaviour depends on registering the whole directory
        a, b = norm_run(r["interpreted"]), norm_run(r["compiled"])
        if a == b:
            continue
        ndiff += 1
        what = "output" if a[1] != b[1] else ("outcome" if a[0] != b[0] else ("exit-status" if a[2:4] != b[2:4] else ("error" if a[4] != b[4] else "stderr")))
        LINE = re.compile(r"(\.php|\.zy)(:\d+(:\d+)?| on line \d+)")
        if what == "output" and a[0] == b[0] and a[2:] == b[2:] and LINE.sub(r"\1:<line>", a[1]) == LINE.sub(r"\1:<line>", b[1]):
            # the only difference is a source position printed by the program (var_dump's file:line prefix, ...)
            ck.violation("e2e:positions:printed-line-number", {"case": {"kind": "e2e", "file": os.path.relpath(r["file"], repo) if r["file"].startswith(repo) else None,
                                                                        "src": meta.get("src"), "features": meta.get("features")},
                                                               "impl_out": {"interpreted": r["interpreted"], "compiled": r["compiled"]},
                                                               "clause": "compiled and interpreted output differ only in a printed source line number"})
            continue
        # the key names WHAT differs and where: component, the compiled side's outcome, the first differing
        # output line (number + digest of the two lines), so that a known entry covers this difference only
        la, lb = a[1].split("\n"), b[1].split("\n")
        k = next((i for i in range(max(len(la), len(lb))) if (la[i] if i < len(la) else None) != (lb[i] if i < len(lb) else None)), None)
        sig = "same-output" if k is None else "L%d-%s" % (k + 1, hashlib.sha1(("%r|%r" % (la[k] if k < len(la) else None, lb[k] if k < len(lb) else None)).encode("utf-8", "replace")).hexdigest()[:6])
        tail = "%s:compiled=%s:%s" % (what, b[0], sig)
        if meta.get("kind") == "feature":
            key = "e2e:feature=%s:%s" % (meta["features"][0], tail)
        elif meta.get("kind") == "combo":
            key = "e2e:combo=%s:%s" % ("+".join(sorted(meta["features"])), tail)
        else:
            key = "e2e:corpus=%s:%s" % (meta.get("features", ["?"])[0], tail)
        e2e_keys.append(key)
        ck.violation(key, {"case": {"kind": "e2e", "file": os.path.relpath(r["file"], repo) if r["file"].startswith(repo) else None,
                                    "src": meta.get("src"), "features": meta.get("features")},
                           "impl_out": {"interpreted": r["interpreted"], "compiled": r["compiled"]},
                           "clause": "compiled and interpreted runs differ in %s" % what})
    ck.cov["e2e_programs"] = len(e2e)
    ck.cov["e2e_programs_that_differ"] = ndiff
    ck.cov["e2e_difference_keys (known or reported)"] = sorted(e2e_keys)
    ck.cov["e2e_corpus_files_skipped_because_they_load_sibling_files"] = nmulti
    ck.cov["program_kinds"] = {k: sum(1 for m in progs.values() if m["kind"] == k) for k in ("feature", "combo", "corpus")}

    # ---- the templates the batch engine transcribes are still what the command generates
    tmpl = open(os.path.join(repo, "cmd", "compile", "template.go"), encoding="utf-8").read()
    # the statements of the generated main() after the loaders, comments and blank lines dropped: the batch engine
    # (harness/cmd/c16 childRun) transcribes exactly these; any other statement there (seeded C16-8 moved the flush of
    # open output buffers into main.go) makes the transcription stale
    main_tail = tmpl.split("defaultMainTmpl", 1)[-1].split("Register(vm)", 1)[-1].split("`", 1)[0]
    main_stmts = [l.strip() for l in main_tail.split("\n") if l.strip() and not l.strip().startswith("//")]
    EXPECTED_MAIN = ["{{- if .HasEntry}}", "_, err := vm.RunCompiledFile(EntryPath)", "vm.RunShutdownCallbacks()", "if err != nil {",
                     'fmt.Fprintf(os.Stderr, "错误: %v\\n", err)', "os.Exit(1)", "}", "{{- end}}", "}"]
    if main_stmts != EXPECTED_MAIN:
        ck.violation("template:main-body", {"case": {"kind": "template"}, "impl_out": {"main_after_Register": main_stmts, "transcribed": EXPECTED_MAIN},
                                            "clause": "the generated main() does something after Register(vm) that the interpreter's RunScriptFile does not (or in another order): RunCompiledFile, RunShutdownCallbacks, exit status"})
    for needle in ("vm.RegisterCompiledFile(EntryPath, func() (data.GetValue, []data.Variable) {", "registerClasses(vm, program)",
                   "_, err := vm.RunCompiledFile(EntryPath)", "vm.RunShutdownCallbacks()", "os.Exit(1)"):
        if needle not in tmpl:
            ck.notes.append("cmd/compile/template.go no longer contains %r: the batch engine's transcription of Register()/main() may be stale" % needle)
            ck.broken.append("template-drift")
            break

    # ---- real single-program projects from the unmodified generated register.go / main.go / go.mod
    real = [f for f in gen_files if progs[f]["kind"] == "feature"]
    real = [f for f in real if progs[f]["features"][0] in ("class_const", "try_catch", "uncaught_throw", "exit_code", "namespace_fn", "closure_value", "shutdown_function", "datetime_fixed", "multi_namespace", "ob_open_at_end_shutdown", "include_back_to_entry", "namespace_shadows_builtin", "reflection_constructor")]
    if not quick:
        # one real project per feature block + a seeded dozen of the generated families (a project costs ~4 s)
        real = [f for f in gen_files if os.path.basename(f).startswith("f")]
        others = [f for f in gen_files if os.path.basename(f).startswith("x_")]
        real += rng.sample(others, min(12, len(others)))
    if replay is not None:
        real = gen_files[:1]

    def real_project(f):
        name = os.path.splitext(os.path.basename(f))[0]
        src = os.path.join(work, "real", name, "src")
        out = os.path.join(work, "real", name, "out")
        os.makedirs(src)
        entry = os.path.join(src, "app.php")
        shutil.copy(f, entry)
        if "ext_back/helper.php" in open(f, encoding="utf-8", errors="replace").read():
            os.makedirs(os.path.join(work, "real", name, "ext_back"), exist_ok=True)
            open(os.path.join(work, "real", name, "ext_back", "helper.php"), "w").write(
                "<?php\necho \"helper\\n\";\nrequire_once '%s';\necho \"helper done\\n\";\n" % entry)
        p = subprocess.run([origami, "compile", src, "--build", "--entry=" + entry, "-o", out], cwd=repo,
                           stdout=subprocess.PIPE, stderr=subprocess.STDOUT, text=True, timeout=600)
        if not os.path.exists(os.path.join(out, "main.go")):
            return f, None, "compile --build produced no main.go: " + p.stdout[-400:]
        gm = open(os.path.join(out, "go.mod")).read()
        if "replace github.com/php-any/origami" not in gm:
            gm += "\nreplace github.com/php-any/origami => %s\n" % repo
        else:
            gm = re.sub(r"replace github.com/php-any/origami => \S+", "replace github.com/php-any/origami => %s" % repo, gm)
        open(os.path.join(out, "go.mod"), "w").write(gm)
        shutil.copy(os.path.join(repo, "go.sum"), os.path.join(out, "go.sum"))
        rc, o = vcheck.sh(["go", "build", "-o", "app", "."], cwd=out, env=vcheck.go_env(), timeout=900)
        if rc != 0:
            return f, None, "go build of the generated project failed: " + o[-600:]
        res = {}
        for side, cmd in (("compiled", [os.path.join(out, "app")]), ("interpreted", [origami, entry])):
            try:
                q = subprocess.run(cmd, cwd=src, stdout=subprocess.PIPE, stderr=subprocess.PIPE, timeout=60)
                res[side] = {"out": TS.sub("<ts>", q.stdout.decode("utf-8", "replace")), "exit": q.returncode}
            except subprocess.TimeoutExpired:
                res[side] = {"out": "", "exit": "timeout"}
        return f, res, None
    # ---- two source files whose names map to the same generated Go identifier: must be a reported error (or two files)
    if replay is None:
        cdir = os.path.join(work, "collide")
        os.makedirs(os.path.join(cdir, "src"))
        for fn, txt in (("user_login.php", "under"), ("userLogin.php", "camel")):
            open(os.path.join(cdir, "src", fn), "w").write("<?php\necho \"%s\\n\";\n" % txt)
        pc = subprocess.run([origami, "compile", os.path.join(cdir, "src"), "-o", os.path.join(cdir, "out")], cwd=repo,
                            stdout=subprocess.PIPE, stderr=subprocess.STDOUT, text=True, timeout=120)
        gen = [f for f in os.listdir(os.path.join(cdir, "out")) if f.startswith("ast_")] if os.path.isdir(os.path.join(cdir, "out")) else []
        evaluations += 1
        reported = "same generated" in pc.stdout or "Error" in pc.stdout
        if not reported and len(gen) < 2:
            ck.violation("compile:name-collision", {"case": {"kind": "collision", "files": ["user_login.php", "userLogin.php"]},
                                                    "impl_out": {"stdout": pc.stdout[-600:], "generated": gen},
                                                    "clause": "two source files were translated into ONE generated file without an error: one program is silently dropped (and registered under the other's name)"})
        ck.cov["name_collision_probe"] = "reported" if reported else "%d generated files" % len(gen)

    # ---- a real MULTI-FILE project: the entry includes / requires compiled siblings (the mechanism the property
    # names: RegisterCompiledFile, "run instead of parsing")
    MULTI = {
        "app.php": "<?php\necho \"start\\n\";\n$cfg = include __DIR__ . '/lib/cfg.php';\necho $cfg['n'], \"\\n\";\n"
                   "require_once __DIR__ . '/lib/fn.php';\nrequire_once __DIR__ . '/lib/fn.php';\necho fn_twice(4), \"\\n\";\n"
                   "include_once __DIR__ . '/lib/greeter.php';\necho (new Greeter('w'))->hi(), \"\\n\";\n",
        "lib/cfg.php": "<?php\nreturn ['n' => 21];\n",
        "lib/fn.php": "<?php\nfunction fn_twice($x) { return 2 * $x; }\necho \"fn loaded\\n\";\n",
        "lib/greeter.php": "<?php\nclass Greeter { private $n; function __construct($n) { $this->n = $n; } function hi() { return 'hi ' . $this->n; } }\n",
    }

    def real_multi():
        src = os.path.join(work, "real", "multi", "src")
        out = os.path.join(work, "real", "multi", "out")
        for rel, text in MULTI.items():
            os.makedirs(os.path.dirname(os.path.join(src, rel)), exist_ok=True)
            open(os.path.join(src, rel), "w").write(text)
        entry = os.path.join(src, "app.php")
        p = subprocess.run([origami, "compile", src, "--build", "--entry=" + entry, "-o", out], cwd=repo,
                           stdout=subprocess.PIPE, stderr=subprocess.STDOUT, text=True, timeout=600)
        if not os.path.exists(os.path.join(out, "main.go")):
            return None, "compile --build produced no main.go: " + p.stdout[-400:]
        gm = open(os.path.join(out, "go.mod")).read()
        if "replace github.com/php-any/origami" not in gm:
            gm += "\nreplace github.com/php-any/origami => %s\n" % repo
        open(os.path.join(out, "go.mod"), "w").write(gm)
        shutil.copy(os.path.join(repo, "go.sum"), os.path.join(out, "go.sum"))
        rc, o = vcheck.sh(["go", "build", "-o", "app", "."], cwd=out, env=vcheck.go_env(), timeout=900)
        if rc != 0:
            return None, "go build of the generated project failed: " + o[-600:]
        res = {}
        for side, cmd in (("compiled", [os.path.join(out, "app")]), ("interpreted", [origami, entry])):
            q = subprocess.run(cmd, cwd=src, stdout=subprocess.PIPE, stderr=subprocess.PIPE, timeout=60)
            res[side] = {"out": POS.sub(r"\1:<pos>", TS.sub("<ts>", q.stdout.decode("utf-8", "replace"))).replace(src, "<src>"), "exit": q.returncode,
                         "stderr": POS.sub(r"\1:<pos>", q.stderr.decode("utf-8", "replace")).replace(src, "<src>")[-600:]}
        return res, None
    if replay is None or (replay and replay.get("kind") == "real-multi"):
        res, err = real_multi()
        evaluations += 2
        if err:
            ck.violation("real:multifile:build", {"case": {"kind": "real-multi", "files": MULTI}, "impl_out": err,
                                                  "clause": "`origami compile --build` of a multi-file project must build"})
        elif res["compiled"] != res["interpreted"]:
            what = "output" if res["compiled"]["out"] != res["interpreted"]["out"] else ("exit-status" if res["compiled"]["exit"] != res["interpreted"]["exit"] else "stderr")
            ck.violation("real:multifile:%s" % what, {"case": {"kind": "real-multi", "files": MULTI}, "impl_out": res,
                                                      "clause": "a compiled project whose entry includes / requires its compiled siblings behaves like `origami app.php` (%s differs)" % what})
        ck.cov["real_multi_file_project"] = "entry + 3 siblings: include with return value, require_once twice, include_once of a class file"

    t0 = time.time()
    with ThreadPoolExecutor(max_workers=max(2, min(6, vcheck.NCPU // 2))) as ex:
        reals = list(ex.map(real_project, real))
    ck.cov["real_projects"] = len(reals)
    ck.cov["real_projects_wall_s"] = round(time.time() - t0, 1)
    evaluations += 2 * len(reals)
    for f, res, err in reals:
        meta = progs[f]
        feat = meta["features"][0]
        if err:
            ck.violation("real:feature=%s:build" % feat, {"case": {"kind": "real", "src": meta["src"], "features": meta["features"]}, "impl_out": err,
                                                         "clause": "`origami compile --build` project for an accepted source must build"})
            continue
        if res["compiled"] != res["interpreted"]:
            LINE = re.compile(r"(\.php|\.zy)(:\d+(:\d+)?| on line \d+)")
            if res["compiled"]["exit"] == res["interpreted"]["exit"] and LINE.sub(r"\1:<line>", res["compiled"]["out"]) == LINE.sub(r"\1:<line>", res["interpreted"]["out"]):
                ck.violation("e2e:positions:printed-line-number", {"case": {"kind": "real", "src": meta["src"], "features": meta["features"]}, "impl_out": res,
                                                                   "clause": "the built binary and `origami file.php` differ only in a printed source line number"})
                continue
            what = "output" if res["compiled"]["out"] != res["interpreted"]["out"] else "exit-status"
            ck.violation("real:feature=%s:%s" % (feat, what), {"case": {"kind": "real", "src": meta["src"], "features": meta["features"]}, "impl_out": res,
                                                              "clause": "the built binary and `origami file.php` differ in %s" % what})

    ck.samples = [{"features": m["features"], "src": m["src"]} for m in list(progs.values())[:2] if m["src"]]
    distinct = len(set((m["src"] or p) for p, m in progs.items()))
    ck.finish(level="proof", evaluations=evaluations, distinct_nontrivial=distinct,
              rule="programs: one per feature block (%d features: expressions, control flow, functions, closures, classes, interfaces, exceptions, exit paths), seeded combinations of 3-6 blocks, and the corpus files of tests/basic + tests/obj (quick) / tests + examples (thorough) compiled in place; "
                   "all compiled by the real command into one Go package and built once; structural comparison on every program; Emit on the zero value of every node type; end-to-end on every program that does not mention time/random/io; "
                   "non-trivial = distinct program" % len(FEATURES),
              traces=traces)
