"""C14 part 1: protobuf wire codec (std/protowire). See checks/C14.py."""
import json
import os
import sys

sys.path.insert(0, os.path.dirname(os.path.abspath(__file__)))
from vcheck import coq_list, coq_z
from C14_common import cbytes, cn, cnums, eval_balanced, exh_inputs, exh_eval

NAME = "wire"
HEADER = ("From Coq Require Import List NArith ZArith Uint63.\nFrom V.C14 Require Import Hex Exh WireModel WireSpec WireRun.\n"
          "Import ListNotations.\nOpen Scope N_scope.\n")

ERR = {"maxdepth": 1, "tag": 2, "varint": 3, "fixed64": 4, "fixed32": 5, "length": 6, "end": 7,
       "endgroup": 8, "other": 9}
REF = {"ok": 0, "maxdepth": 1, "bad": 2}
U64 = [0, 1, 2, 127, 128, 255, 256, 16383, 16384, 2 ** 21 - 1, 2 ** 21, 2 ** 31 - 1, 2 ** 31, 2 ** 32 - 1,
       2 ** 32, 2 ** 53, 2 ** 53 + 1, 2 ** 56 - 1, 2 ** 56, 2 ** 63 - 1, 2 ** 63, 2 ** 64 - 1]
NUMS = [1, 2, 3, 4, 5, 15, 16, 2047, 2048, 19000, 2 ** 29 - 1, 2 ** 29, 2 ** 31 - 1]


# ---------------------------------------------------------------- python encoder (third implementation)
def varint(v):
    out = bytearray()
    while True:
        if v < 128:
            out.append(v)
            return bytes(out)
        out.append((v & 0x7f) | 0x80)
        v >>= 7


def tag(num, wt):
    return varint(num * 8 + wt)


def enc_field(f):
    t = f["t"]
    n = f["n"]
    if t == "varint":
        return tag(n, 0) + varint(f["v"])
    if t == "fixed64":
        return tag(n, 1) + f["v"].to_bytes(8, "little")
    if t == "fixed32":
        return tag(n, 5) + f["v"].to_bytes(4, "little")
    if t == "bytes":
        return tag(n, 2) + varint(len(f["v"])) + f["v"]
    if t == "msg":
        p = enc_fields(f["v"])
        return tag(n, 2) + varint(len(p)) + p
    if t == "packed":
        if f["et"] == 0:
            p = b"".join(varint(x) for x in f["v"])
        elif f["et"] == 5:
            p = b"".join(x.to_bytes(4, "little") for x in f["v"])
        else:
            p = b"".join(x.to_bytes(8, "little") for x in f["v"])
        return tag(n, 2) + varint(len(p)) + p
    if t == "group":
        return tag(n, 3) + enc_fields(f["v"]) + tag(n, 4)
    raise ValueError(t)


def enc_fields(fs):
    return b"".join(enc_field(f) for f in fs)


def nest(fs):
    m = 0
    for f in fs:
        if f["t"] in ("msg", "group"):
            m = max(m, 1 + nest(f["v"]))
    return m


def tree_from_json(fs):
    out = []
    for f in fs:
        f = dict(f)
        if f["t"] == "bytes" and isinstance(f["v"], str):
            f["v"] = bytes.fromhex(f["v"])
        elif f["t"] in ("msg", "group"):
            f["v"] = tree_from_json(f["v"])
        out.append(f)
    return out


# ---------------------------------------------------------------- generators
def gen_opts(rng):
    pool = rng.sample(NUMS[:9], rng.randint(2, 6))
    k = rng.randint(0, len(pool) // 2)
    msg = pool[:k + 1] if rng.random() < 0.85 else []
    rest = pool[k + 1:]
    packed = {}
    for n in rest[:rng.randint(0, 2)]:
        packed[n] = rng.choice([0, 5, 1])
    mx = rng.choice([0, -3, 1, 2, 3, 4, 5, 8, 16, 63, 64, 65, 70])
    return {"msg": msg, "packed": packed, "max": mx}


def gen_fields(rng, o, depth_left, width):
    fs = []
    for _ in range(rng.randint(0, width)):
        kinds = ["varint", "fixed64", "fixed32", "bytes"]
        if o["packed"]:
            kinds.append("packed")
        if depth_left > 0:
            kinds += ["group", "group"]
            if o["msg"]:
                kinds += ["msg", "msg"]
        t = rng.choice(kinds)
        free = [n for n in NUMS if n not in o["msg"] and n not in o["packed"]]
        if t == "varint":
            fs.append({"t": t, "n": rng.choice(NUMS), "v": rng.choice(U64)})
        elif t == "fixed64":
            fs.append({"t": t, "n": rng.choice(NUMS), "v": rng.choice(U64)})
        elif t == "fixed32":
            fs.append({"t": t, "n": rng.choice(NUMS), "v": rng.choice([x for x in U64 if x < 2 ** 32])})
        elif t == "bytes":
            ln = rng.choice([0, 1, 2, 3, 127, 128, 300]) if rng.random() < 0.3 else rng.randint(0, 6)
            fs.append({"t": t, "n": rng.choice(free), "v": bytes(rng.randrange(256) for _ in range(ln))})
        elif t == "packed":
            n = rng.choice(sorted(o["packed"]))
            et = o["packed"][n]
            pool = U64 if et != 5 else [x for x in U64 if x < 2 ** 32]
            fs.append({"t": t, "n": n, "et": et, "v": [rng.choice(pool) for _ in range(rng.randint(0, 4))]})
        elif t == "msg":
            fs.append({"t": t, "n": rng.choice(o["msg"]), "v": gen_fields(rng, o, depth_left - 1, max(1, width - 1))})
        else:
            fs.append({"t": t, "n": rng.choice(NUMS), "v": gen_fields(rng, o, depth_left - 1, max(1, width - 1))})
    return fs


def gen_script_fields(rng, depth_left, width):
    """trees Protowire::serialize can express: varint / fixed / string / nested message / group / packed varints"""
    fs = []
    for _ in range(rng.randint(0, width)):
        kinds = ["varint", "fixed64", "fixed32", "bytes", "packed"]
        if depth_left > 0:
            kinds += ["msg", "group"]
        t = rng.choice(kinds)
        n = rng.choice(NUMS[:10])
        if t in ("varint", "fixed64"):
            fs.append({"t": t, "n": n, "v": rng.choice(U64)})
        elif t == "fixed32":
            fs.append({"t": t, "n": n, "v": rng.choice([x for x in U64 if x < 2 ** 32])})
        elif t == "bytes":
            fs.append({"t": t, "n": n, "v": bytes(rng.choice(b"abcxyz019 _-.,;:{}[]") for _ in range(rng.randint(0, 9)))})
        elif t == "packed":
            fs.append({"t": t, "n": n, "et": 0, "v": [rng.choice([x for x in U64 if x < 2 ** 63]) for _ in range(rng.randint(0, 4))]})
        else:
            fs.append({"t": t, "n": n, "v": gen_script_fields(rng, depth_left - 1, max(1, width - 1))})
    return fs


def with_w(fs):
    """the field JSON the engine prints (adds the wire type)"""
    W = {"varint": 0, "fixed64": 1, "fixed32": 5, "bytes": 2, "msg": 2, "packed64": 2, "packed32": 2, "group": 3}
    out = []
    for f in fs:
        g = dict(f, w=W[f["t"]])
        if f["t"] in ("msg", "group"):
            g["v"] = with_w(f["v"])
        out.append(g)
    return out


def cplans(fs):
    """Coq term (list plan) for a script-level tree (engine JSON form)"""
    out = []
    for f in fs:
        t, n = f["t"], f["n"]
        if t in ("varint", "fixed64", "fixed32"):
            out.append("PlScalar %d %d %s" % (n, {"varint": 0, "fixed64": 1, "fixed32": 5}[t], cn(f["v"])))
        elif t == "bytes":
            out.append("PlString %d %s" % (n, cbytes(bytes.fromhex(f["v"]))))
        elif t == "packed64":
            out.append("PlPacked %d %s" % (n, cnums(f["v"])))
        elif t == "msg":
            out.append("PlMessage %d %s" % (n, cplans(f["v"])))
        else:
            out.append("PlGroup %d %s" % (n, cplans(f["v"])))
    return "[" + ";".join(out) + "]"


def script_tree_json(fs):
    out = []
    for f in fs:
        t = f["t"]
        if t in ("varint", "fixed64", "fixed32"):
            out.append({"n": f["n"], "t": t, "v": str(f["v"])})
        elif t == "bytes":
            out.append({"n": f["n"], "t": t, "v": f["v"].hex()})
        elif t == "packed":
            out.append({"n": f["n"], "t": "packed64", "v": [str(x) for x in f["v"]]})
        else:
            out.append({"n": f["n"], "t": t, "v": script_tree_json(f["v"])})
    return out


def sized_message(n):
    """fields (number 2 strings, number 3 varints) whose canonical encoding is exactly n bytes"""
    for pad in range(0, 4):
        rest = n - 2 * pad
        for m in range(max(0, rest - 5), rest):
            if 1 + len(varint(m)) + m == rest:
                return [{"t": "bytes", "n": 2, "v": b"a" * m}] + [{"t": "varint", "n": 3, "v": 1}] * pad
    raise ValueError(n)


def boundary_trees(sizes):
    """every length-delimited construct Protowire::serialize emits, with a payload of exactly the given
    sizes (around the varint length boundaries): string, nested message, message in message, packed
    varints, message inside a group"""
    out = []
    for n in sizes:
        out.append(("string", n, [{"t": "bytes", "n": 2, "v": b"b" * n}]))
        out.append(("message", n, [{"t": "msg", "n": 1, "v": sized_message(n)}]))
        inner = [{"t": "msg", "n": 1, "v": sized_message(n - 3 if n > 130 else n - 2)}]
        if len(enc_fields(inner)) == n:
            out.append(("message-in-message", n, [{"t": "msg", "n": 1, "v": inner}]))
        out.append(("packed", n, [{"t": "packed", "n": 4, "et": 0, "v": [1] * n}]))
        out.append(("message-in-group", n, [{"t": "group", "n": 5, "v": [{"t": "msg", "n": 1, "v": sized_message(n)}]},
                                            {"t": "varint", "n": 3, "v": 9}]))
    return out


# script-level paths not reachable through the method objects alone: Protowire::parse into an annotated
# class (parse_method.go readFieldAnnotations / SetProperty), and the raw result read as PHP objects
WIRE_SCRIPTS = [
    ("parse-into-class",
     "<?php\nuse Protowire\\Annotation\\Field;\nclass C14W {\n  #[Field(number: 1, type: 0)]\n  public $id;\n  #[Field(number: 2, type: 2)]\n"
     "  public $name;\n  #[Field(number: 3, type: 5)]\n  public $f;\n}\n$o = new C14W();\n$o->id = 300;\n$o->name = 'ab';\n$o->f = 7;\n"
     "$b = Protowire::serialize($o);\n$p = Protowire::parse($b, 'C14W');\necho bin2hex($b), '|', gettype($p), '|', $p->id, '|', $p->name, '|', $p->f;\n",
     "08ac02120261621d07000000|class|300|ab|7"),
    ("raw-result-objects",
     "<?php\n$r = Protowire::parse(Protowire::encodeTag(1, 0) . Protowire::encodeVarint(150) . Protowire::encodeTag(2, 2) . "
     "Protowire::encodeBytes('xy'));\necho count($r), '|', $r[0]->number, '|', $r[0]->wire_type, '|', $r[0]->value, '|', $r[1]->value;\n",
     "2|1|0|150|xy"),
]


def gen_chain(rng, o, depth):
    """a deep, narrow tree: depth nested messages/groups (used for the depth limit, up to 70)"""
    fs = [{"t": "varint", "n": 1, "v": rng.choice(U64)}]
    for _ in range(depth):
        if o["msg"] and rng.random() < 0.5:
            fs = [{"t": "msg", "n": rng.choice(o["msg"]), "v": fs}]
        else:
            fs = [{"t": "group", "n": rng.choice(NUMS), "v": fs}]
        if rng.random() < 0.3:
            fs.append({"t": "varint", "n": 2, "v": 7})
    return fs


def gen_siblings(rng, o, depth):
    """closed groups FIRST, then (as a later sibling) the deeper branch, at every level: a depth
    counter that is not restored exactly after a closed group shows up only on such trees"""
    fs = []
    for _ in range(rng.randint(1, 3)):
        k = rng.random()
        if k < 0.4:
            inner = [{"t": "varint", "n": 3, "v": rng.choice(U64)}]
        elif k < 0.7:
            inner = [{"t": "group", "n": rng.choice(NUMS[:6]), "v": []}]
        else:
            inner = []
        fs.append({"t": "group", "n": rng.choice(NUMS[:6]), "v": inner})
    if depth > 0:
        sub = gen_siblings(rng, o, depth - 1)
        if o["msg"] and rng.random() < 0.6:
            fs.append({"t": "msg", "n": rng.choice(o["msg"]), "v": sub})
        else:
            fs.append({"t": "group", "n": rng.choice(NUMS[:6]), "v": sub})
    else:
        fs.append({"t": "varint", "n": 3, "v": 7})
    if rng.random() < 0.3:
        fs.append({"t": "group", "n": rng.choice(NUMS[:6]), "v": []})
    return fs


def mutate(rng, b):
    b = bytearray(b)
    k = rng.choice(["trunc", "flip", "overlong", "endgroup", "insert", "lenbump", "dup", "wt"])
    if k == "trunc" and b:
        del b[rng.randrange(len(b)):]
    elif k == "flip" and b:
        b[rng.randrange(len(b))] ^= 1 << rng.randrange(8)
    elif k == "overlong" and b:
        # turn a terminal varint byte into an overlong form: x -> x|0x80, 0x00 (same value)
        i = rng.randrange(len(b))
        if b[i] < 128:
            extra = rng.choice([1, 2, 9, 10])
            b[i] |= 0x80
            b[i + 1:i + 1] = bytes([0x80] * (extra - 1) + [0x00])
    elif k == "endgroup":
        i = rng.randrange(len(b) + 1)
        b[i:i] = tag(rng.choice(NUMS[:6]), 4)
    elif k == "insert":
        i = rng.randrange(len(b) + 1)
        b[i:i] = bytes([rng.randrange(256)])
    elif k == "lenbump" and b:
        i = rng.randrange(len(b))
        b[i] = (b[i] + rng.choice([1, 2, 120])) & 0xff
    elif k == "dup" and b:
        i = rng.randrange(len(b))
        j = rng.randrange(i, len(b) + 1)
        b[j:j] = b[i:j]
    elif k == "wt" and b:
        i = rng.randrange(len(b))
        b[i] = (b[i] & 0xf8) | rng.randrange(8)
    return bytes(b), k


# ---------------------------------------------------------------- Coq printers
def cfield_gen(f):
    t = f["t"]
    if t == "varint":
        return "FVarint %d %s" % (f["n"], cn(f["v"]))
    if t == "fixed64":
        return "FFixed64 %d %s" % (f["n"], cn(f["v"]))
    if t == "fixed32":
        return "FFixed32 %d %s" % (f["n"], cn(f["v"]))
    if t == "bytes":
        return "FBytes %d %s" % (f["n"], cbytes(f["v"]))
    if t == "msg":
        return "FMsg %d %s" % (f["n"], cfields_gen(f["v"]))
    if t == "packed":
        return "FPacked %d %d %s" % (f["n"], f["et"], cnums(f["v"]))
    return "FGroup %d %s" % (f["n"], cfields_gen(f["v"]))


def cfields_gen(fs):
    return "[" + ";".join(cfield_gen(f) for f in fs) + "]"


def cfield_obs(f, packed):
    t = f["t"]
    n = f["n"]
    if t == "varint":
        return "FVarint %d %s" % (n, cn(f["v"]))
    if t == "fixed64":
        return "FFixed64 %d %s" % (n, cn(f["v"]))
    if t == "fixed32":
        return "FFixed32 %d %s" % (n, cn(f["v"]))
    if t == "bytes":
        return "FBytes %d %s" % (n, cbytes(bytes.fromhex(f["v"])))
    if t == "msg":
        return "FMsg %d %s" % (n, cfields_obs(f["v"], packed))
    if t == "group":
        return "FGroup %d %s" % (n, cfields_obs(f["v"], packed))
    if t == "packed32":
        return "FPacked %d 5 %s" % (n, cnums(f["v"]))
    if t == "packed64":
        # []uint64 is what Go returns for varint and for fixed64 elements; the element type is
        # the configured one (not observable from the value)
        et = packed.get(n, packed.get(str(n), 0))
        return "FPacked %d %d %s" % (n, et if et != 5 else 0, cnums(f["v"]))
    return "FVarint 0 0 (* unknown %s *)" % t


def cfields_obs(fs, packed):
    return "[" + ";".join(cfield_obs(f, packed) for f in fs) + "]"


def le(v, n):
    return int(v).to_bytes(n, "little")


def code_field(f, packed):
    t = f["t"]
    n = le(f["n"], 4)
    if t == "varint":
        return b"\x01" + n + le(f["v"], 8)
    if t == "fixed64":
        return b"\x02" + n + le(f["v"], 8)
    if t == "fixed32":
        return b"\x03" + n + le(f["v"], 8)
    if t == "bytes":
        p = bytes.fromhex(f["v"])
        return b"\x04" + n + le(len(p), 2) + p
    if t in ("msg", "group"):
        return (b"\x05" if t == "msg" else b"\x07") + n + le(len(f["v"]), 2) + b"".join(code_field(g, packed) for g in f["v"])
    if t == "packed32":
        return b"\x06" + n + b"\x05" + le(len(f["v"]), 2) + b"".join(le(x, 8) for x in f["v"])
    if t == "packed64":
        et = packed.get(f["n"], 0)
        return b"\x06" + n + bytes([et if et != 5 else 0]) + le(len(f["v"]), 2) + b"".join(le(x, 8) for x in f["v"])
    return b"\xfe"


def code_obs(o, packed):
    if "fields" in o:
        return b"\x00" + le(len(o["fields"]), 2) + b"".join(code_field(f, packed) for f in o["fields"])
    if "err" in o:
        return bytes([ERR.get(o["err"], 99)])
    return b"\xfd"


def coq_wcase(c, o):
    packed = c.get("packed") or {}
    if "fields" in o:
        obs = "(WOk %s)" % cfields_obs(o["fields"], {int(k): v for k, v in packed.items()})
    else:
        obs = "(WErr %d)" % ERR.get(o.get("err"), 99)
    tree = "None"
    if c.get("_tree") is not None:
        tree = "(Some %s)" % cfields_gen(c["_tree"])
    pel = ["(%d,%d)" % (int(k), v) for k, v in sorted(packed.items(), key=lambda kv: int(kv[0]))]
    pk = sorted([int(k) for k in packed] + list(c.get("packno") or []))
    return ("{| w_msg := %s; w_packed := %s; w_pelem := %s; w_max := %s; w_data := %s; w_obs := %s; "
            "w_ref := %d; w_tree := %s |}") % (
        cnums(c.get("msg") or []), cnums(pk), coq_list(pel), coq_z(c.get("max", 0)),
        cbytes(bytes.fromhex(c["hex"])), obs, REF.get(o.get("ref"), 9), tree)


def mk_parse(b, o=None, tree=None, packno=None, origin=""):
    c = {"k": "wire.parse", "hex": bytes(b).hex()}
    if o:
        if o.get("msg"):
            c["msg"] = list(o["msg"])
        if o.get("packed"):
            c["packed"] = {str(k): v for k, v in o["packed"].items()}
        c["max"] = o.get("max", 0)
    if packno:
        c["packno"] = packno
    if tree is not None:
        c["_tree"] = tree
    c["_origin"] = origin
    return c


def strip(c):
    return {k: v for k, v in c.items() if not k.startswith("_")}


CLAUSES = {1: "model<>impl (= impl outside the wire grammar, accepts_iff_wellformed)",
           2: "acceptance differs from the google-protowire reference walker",
           3: "decode(encode tree) <> tree", 4: "generator bytes <> Spec encoder bytes",
           5: "accepted tree deeper than MaxDepth", 6: "too-deep encodable tree not answered with ErrMaxDepth"}


def run(ck, binary, run_impl, replay):
    rng = ck.rng
    quick = ck.tier == "quick"
    cases = []
    prims = []
    if replay is not None:
        if replay["case"].get("k") == "wire.prim":
            prims = [replay["case"]]
        else:
            cases = [replay["case"]]
            if "tree" in replay:
                cases[0]["_tree"] = tree_from_json(replay["tree"])
            cases[0].setdefault("_origin", "replay")
    else:
        # (a) every 1-byte and 2-byte input under two option sets: compact transport (Exh.v), see below
        o1 = {"msg": [1, 3], "packed": {2: 0, 4: 5}, "max": 2}
        # 3-byte inputs: tag x (length-delimited | group | varint) x 2 bytes, with options (exhaustive on the
        # tag byte's low 3 bits and field numbers 1..4)
        step = 1 if not quick else 7
        for t in range(8, 40):
            for a in range(0, 256, step):
                for b in ((0, 1, 2, 8, 12, 0x80, 0xff, (t & 0xf8) | 4) if not quick else (0, 1, 8, 0x80, (t & 0xf8) | 4)):
                    cases.append(mk_parse([t, a, b], o1, origin="exh3"))
        # (b) trees -> canonical encoding (round trip), and mutants of them
        ntree = 800 if quick else 20000
        for i in range(ntree):
            o = gen_opts(rng)
            eff = 64 if o["max"] <= 0 else o["max"]
            if rng.random() < 0.25:
                # depth-limit probes: chains around the limit, up to 70 levels
                d = max(0, min(70, eff - 1 + rng.choice([-2, -1, 0, 0, 1, 1, 2, 5])))
                tree = gen_chain(rng, o, d)
            else:
                tree = gen_fields(rng, o, rng.randint(0, min(4, max(0, eff - 1))), 4)
            b = enc_fields(tree)
            if len(b) > 4096:
                continue
            cases.append(mk_parse(b, o, tree=tree, origin="tree"))
            if i % 3 == 0:
                # the same bytes without any hint: every length-delimited field is raw bytes (also the
                # reference for the script-level "no options after a call with options" sequences)
                cases.append(mk_parse(b, None, origin="noopts"))
            for _ in range(2 if quick else 4):
                mb, kind = mutate(rng, b)
                if rng.random() < 0.3:
                    mb, kind2 = mutate(rng, mb)
                    kind += "+" + kind2
                cases.append(mk_parse(mb[:4096], o, origin="mut:" + kind))
        # (b2) groups and nested messages as siblings at several levels, the deep branch after closed
        #      groups, under EVERY max_depth from 1 to nesting+3
        for i in range(40 if quick else 600):
            o = {"msg": rng.sample([1, 2, 15], rng.randint(1, 2)), "packed": {}, "max": 0}
            tree = gen_siblings(rng, o, rng.randint(0, 5) if i % 4 else rng.randint(6, 12))
            b = enc_fields(tree)
            for mx in range(1, nest(tree) + 4):
                cases.append(mk_parse(b, dict(o, max=mx), tree=tree, origin="siblings"))
        # (b3) payload sizes around the varint length boundaries, for every length-delimited construct
        for kind, n, tr in boundary_trees([127, 128, 129, 16383, 16384, 16385]):
            cases.append(mk_parse(enc_fields(tr), {"msg": [1], "packed": {4: 0}, "max": 0}, tree=tr, origin="boundary"))
        # (b4) packed payloads of every length 0..17 for each element type (a length that is not a multiple
        #      of the element width is malformed), at top level, inside a message and inside a group
        for et in (0, 5, 1):
            po = {"msg": [1], "packed": {4: et}, "max": 0}
            for ln in range(0, 18):
                payload = bytes(rng.randrange(128) for _ in range(ln))
                f = tag(4, 2) + varint(ln) + payload
                cases.append(mk_parse(f, po, origin="packedlen"))
                cases.append(mk_parse(tag(1, 2) + varint(len(f)) + f + tag(3, 0) + b"\x07", po, origin="packedlen"))
                cases.append(mk_parse(tag(9, 3) + f + tag(9, 4), po, origin="packedlen"))
        # (c) packed field without configured element type, unsupported element type
        cases.append(mk_parse(bytes.fromhex("1a03010203"), None, packno=[3], origin="cfg"))
        cases.append(mk_parse(bytes.fromhex("1a03010203"), {"msg": [], "packed": {3: 2}, "max": 0}, origin="cfg"))
        cases.append(mk_parse(bytes.fromhex("1a00"), {"msg": [], "packed": {3: 7}, "max": 0}, origin="cfg"))
        # (d) hostile lengths
        for hx in ("0affffffffffffffffff01", "0a80808080808080808001", "0affffffff0f", "0a7f", "0bffffffffffffffffff01"):
            cases.append(mk_parse(bytes.fromhex(hx), None, origin="hostile"))
            cases.append(mk_parse(bytes.fromhex(hx), {"msg": [1], "packed": {}, "max": 3}, origin="hostile"))
        # primitive encoders through the script-visible methods
        for v in U64:
            for op in ("varint", "fixed32", "fixed64"):
                prims.append({"k": "wire.prim", "op": op, "v": str(v), "extra": {"as": "int" if v < 2 ** 63 else "str"}})
                if v < 2 ** 63:
                    prims.append({"k": "wire.prim", "op": op, "v": str(v), "extra": {"as": "str"}})
        for n in NUMS + [0, 2 ** 31 - 2]:
            for w in range(8):
                prims.append({"k": "wire.prim", "op": "tag", "v": str(n), "w": w, "extra": {"as": "int"}})
        for ln in (0, 1, 2, 127, 128, 129, 300, 16383, 16384):
            prims.append({"k": "wire.prim", "op": "bytes", "hex": bytes(rng.randrange(256) for _ in range(ln)).hex()})

    exh = []
    exh_sets = []
    if replay is None:
        exh_sets = [("default", None), ("opts", {"msg": [1, 3], "packed": {2: 0, 4: 5}, "max": 2})]
        for nm, eo in exh_sets:
            for b in exh_inputs():
                exh.append(mk_parse(b, eo, origin="exh12:" + nm))
    ck.log("wire: %d parse cases, %d prim cases, %d exhaustive short inputs" % (len(cases), len(prims), len(exh)))
    outs = run_impl(ck, binary, [strip(c) for c in cases] + prims + [strip(c) for c in exh])
    ck.log("wire: implementation ran")
    o_exh = outs[len(cases) + len(prims):]
    outs = outs[:len(cases) + len(prims)]
    if len(o_exh) != len(exh):
        ck.broken.append("harness-run:wire-exh")
        return {"evaluations": len(outs), "nontrivial": 0, "traces": 0, "rule": "wire: harness crashed"}
    nper = len(exh_inputs())
    fns, codes_list = [], []
    for si, (nm, eo) in enumerate(exh_sets):
        sub_c = exh[si * nper:(si + 1) * nper]
        sub_o = o_exh[si * nper:(si + 1) * nper]
        packed = (eo or {}).get("packed", {})
        codes = []
        for c, o in zip(sub_c, sub_o):
            if o.get("panic") or o.get("hang") or o.get("died"):
                ck.violation("wire:parse:crash:exh", {"part": NAME, "case": strip(c), "impl_out": o,
                                                      "clause": "decoder total: never crashes / hangs"})
            # acceptance against the reference walker (no Coq needed)
            if ("fields" in o) != (o.get("ref") == "ok"):
                ck.violation("wire:parse:clauses=2:exh:%s" % ("ok" if "fields" in o else o.get("err")),
                             {"part": NAME, "case": strip(c), "impl_out": o, "clause": CLAUSES[2]})
            codes.append(code_obs(o, packed))
        codes_list.append(codes)
        if eo is None:
            fns.append("(wire_exh [] [] [] 0%Z)")
        else:
            fns.append("(wire_exh %s %s %s %s%%Z)" % (cnums(eo["msg"]), cnums(sorted(eo["packed"])),
                                                     coq_list("(%d,%d)" % kv for kv in sorted(eo["packed"].items())),
                                                     coq_z(eo["max"])))
    if exh_sets:
        fails = exh_eval(ck, "wire_exh", HEADER, fns, codes_list)
        for si in range(len(exh_sets)):
            for idx in fails[si][:5]:
                c, o = exh[si * nper + idx], o_exh[si * nper + idx]
                ck.violation("wire:parse:clauses=1:exh:%s" % ("ok" if "fields" in o else o.get("err")),
                             {"part": NAME, "case": strip(c), "impl_out": o, "clause": CLAUSES[1]})
    ck.log("wire: exhaustive short inputs evaluated")
    o_cases, o_prims = outs[:len(cases)], outs[len(cases):]
    if len(outs) != len(cases) + len(prims):
        ck.broken.append("harness-run:wire")
        return {"evaluations": len(outs), "nontrivial": 0, "traces": 0, "rule": "wire: harness crashed"}

    terms, idx = [], []
    for i, (c, o) in enumerate(zip(cases, o_cases)):
        if o.get("panic") or o.get("hang") or o.get("died") or o.get("harness_error"):
            kind = "panic" if o.get("panic") else ("hang" if o.get("hang") else ("died" if o.get("died") else "harness"))
            ck.violation("wire:parse:%s:%s" % (kind, c["_origin"].split(":")[0]),
                         {"part": NAME, "case": strip(c), "impl_out": o, "clause": "decoder total: never crashes / hangs"})
            continue
        terms.append(coq_wcase(c, o))
        idx.append(i)
    bad = eval_balanced(ck, "wire", HEADER, terms, "check_wire")
    ck.log("wire: coq evaluated")
    for j, cls in sorted(bad.items(), key=lambda kv: len(cases[idx[kv[0]]]["hex"])):
        c, o = cases[idx[j]], o_cases[idx[j]]
        key = "wire:parse:clauses=%s:%s:%s" % ("".join(map(str, cls)), c["_origin"].split(":")[0],
                                               "ok" if "fields" in o else o.get("err"))
        rp = {"part": NAME, "case": strip(c), "impl_out": o, "clause": [CLAUSES.get(x, x) for x in cls]}
        if c.get("_tree") is not None:
            rp["tree"] = json.loads(json.dumps(c["_tree"], default=lambda b: b.hex()))
        if cls == [4]:
            ck.broken.append("harness:wire-generator-encoder")
        ck.violation(key, rp)

    pterms = []
    OPS = {"varint": 0, "tag": 1, "fixed32": 2, "fixed64": 3, "bytes": 4}
    for c, o in zip(prims, o_prims):
        out = "None" if "out" not in o else "(Some %s)" % cbytes(bytes.fromhex(o["out"]))
        pterms.append("{| p_op := %d; p_v := %s; p_w := %d; p_payload := %s; p_out := %s; p_ref := %s |}" % (
            OPS[c["op"]], c.get("v", "0"), c.get("w", 0), cbytes(bytes.fromhex(c.get("hex", ""))), out,
            cbytes(bytes.fromhex(o.get("ref", "")))))
    pbad = ck.eval_cases("wireprim", HEADER, pterms, "check_prim", shard=3000) if pterms else {}
    for j, cls in sorted(pbad.items()):
        c, o = prims[j], o_prims[j]
        ck.violation("wire:prim:%s:clauses=%s:%s" % (c["op"], "".join(map(str, cls)), c.get("extra", {}).get("as", "")),
                     {"part": NAME, "case": c, "impl_out": o,
                      "clause": "1 model<>impl, 2 google reference<>impl, 3 decoder does not read the output back"})

    # ---- script level: Protowire::parse (method object) against ParseRawFields on the same inputs,
    #      Protowire::serialize of annotated classes against the canonical encoding
    nscript = 0
    if replay is None:
        sample = [i for i, c in enumerate(cases) if c["_origin"].startswith(("tree", "mut", "cfg", "hostile"))]
        rng.shuffle(sample)
        sample = sample[:(400 if quick else 6000)]
        # history independence: a call WITH hints immediately followed by a call on the same bytes with NO
        # options argument (or an empty array); the second must equal ParseRawFields without hints
        pairs = [i for i, c in enumerate(cases[:-1]) if c["_origin"] == "tree" and cases[i + 1]["_origin"] == "noopts"]
        rng.shuffle(pairs)
        for n, i in enumerate(pairs[:(150 if quick else 2000)]):
            sample += [i, i + 1]
        pcases = []
        for n, i in enumerate(sample):
            pc = dict(strip(cases[i]), k="wire.parse.script")
            if cases[i]["_origin"] == "noopts" and n % 4 == 1:
                pc["extra"] = {"empty_opts": "1"}
            pcases.append(pc)
        scases = []
        for _ in range(150 if quick else 3000):
            tr = gen_script_fields(rng, rng.randint(0, 4), 4)
            scases.append({"k": "wire.script", "tree": script_tree_json(tr), "_bytes": enc_fields(tr).hex()})
        # length boundaries of every length-delimited construct, byte for byte and parsed back
        sizes = [126, 127, 128, 129, 130, 16383, 16384, 16385] + ([2097151, 2097152, 2097153] if not quick else [])
        bo = {"msg": [1], "packed": {4: 0}, "max": 0}
        for kind, n, tr in boundary_trees(sizes):
            if n > 20000 and kind == "packed":
                continue
            b = enc_fields(tr)
            scases.append({"k": "wire.script", "tree": script_tree_json(tr), "_bytes": b.hex(), "_kind": "%s:%d" % (kind, n)})
            pcases.append(dict(strip(mk_parse(b, bo)), k="wire.parse.script", _want=script_tree_json(tr)))
        wsc = [{"k": "script", "extra": {"src": src}} for _, src, _ in WIRE_SCRIPTS]
        wouts = run_impl(ck, binary, wsc)
        for (name, src, want), o in zip(WIRE_SCRIPTS, wouts):
            if o.get("outcome") != "ok" or o.get("out") != want:
                ck.violation("wire:script:" + name, {"part": NAME, "case": {"k": "script", "extra": {"src": src}}, "impl_out": o,
                                                     "expected": want, "clause": "script-level Protowire call differs from the expected output"})
        souts = run_impl(ck, binary, [strip(c) for c in pcases] + [strip(c) for c in scases])
        if len(souts) != len(pcases) + len(scases):
            ck.broken.append("harness-run:wire-script")
        else:
            for pc, so in zip(pcases[len(sample):], souts[len(sample):len(pcases)]):
                got = json.dumps(so.get("fields"), sort_keys=True)
                want = json.dumps(with_w(pc["_want"]), sort_keys=True)
                if got != want:
                    ck.violation("wire:parse-method:boundary", {"part": NAME, "case": strip(pc), "impl_out": str(so)[:400],
                                                                "clause": "Protowire::parse of a length-boundary encoding <> the tree"})
            for i, pc, so in zip(sample, pcases, souts[:len(pcases)]):
                go = o_cases[i]
                same = ("fields" in go and so.get("fields") == go["fields"]) or ("err" in go and so.get("throw") is True)
                if so.get("panic") or so.get("died") or so.get("hang"):
                    ck.violation("wire:parse-method:crash", {"part": NAME, "case": pc, "impl_out": so, "clause": "decoder total"})
                elif not same:
                    ck.violation("wire:parse-method:differs-from-ParseRawFields", {"part": NAME, "case": pc, "impl_out": so,
                                                                                   "go_level": go, "clause": "Protowire::parse result <> ParseRawFields result"})
            for c, so in zip(scases, souts[len(pcases):]):
                if so.get("out") != c["_bytes"]:
                    ck.violation("wire:serialize-method" + (":boundary:" + c["_kind"].split(":")[0] if c.get("_kind") else ""), {"part": NAME, "case": strip(c), "impl_out": {k: v for k, v in so.items() if k != "src"},
                                                           "expected": c["_bytes"], "clause": "Protowire::serialize output <> canonical encoding of the tree"})
            # the model of serialize_method.go's encoder (WireModel.enc_plans) on the same plans
            plterms, plidx = [], []
            for j, (c, so) in enumerate(zip(scases, souts[len(pcases):])):
                if len(c["_bytes"]) > 60000:
                    continue
                out = "None" if "out" not in so else "(Some %s)" % cbytes(bytes.fromhex(so["out"]))
                plterms.append("{| pl_plans := %s; pl_out := %s |}" % (cplans(c["tree"]), out))
                plidx.append(j)
            for j, cls in sorted(eval_balanced(ck, "wireser", HEADER, plterms, "check_plans").items()):
                c = scases[plidx[j]]
                ck.broken.append("correspondence:C14.wire-serialize")
                ck.violation("wire:serialize-method:model", {"part": NAME, "case": strip(c), "clause": "model enc_plans <> Protowire::serialize"})
            nscript = len(pcases) + len(scases)
        ck.log("wire: script-level parse / serialize compared")
    ck.cov["wire_script_level_cases"] = nscript

    # measured distribution
    origins = {}
    outcomes = {}
    for c, o in zip(cases, o_cases):
        k = c["_origin"].split(":")[0]
        origins[k] = origins.get(k, 0) + 1
        oc = "ok" if "fields" in o else o.get("err", "?")
        outcomes[oc] = outcomes.get(oc, 0) + 1
    trees = [c for c in cases if c.get("_tree") is not None]
    depths = {}
    for c in trees:
        d = nest(c["_tree"])
        b = "0" if d == 0 else ("1-3" if d <= 3 else ("4-15" if d <= 15 else ("16-63" if d <= 63 else "64-70")))
        depths[b] = depths.get(b, 0) + 1
    distinct = len(set((c["hex"], json.dumps(strip(c).get("msg")), json.dumps(strip(c).get("packed")), c.get("max"))
                       for c in cases))
    nontriv = len(set(c["hex"] for c in cases if len(c["hex"]) >= 6))
    ck.cov["wire_origin_distribution"] = origins
    ck.cov["wire_outcome_distribution"] = outcomes
    ck.cov["wire_tree_nesting_distribution"] = depths
    ck.cov["wire_prim_cases"] = len(prims)
    ck.cov["wire_distinct_cases"] = distinct
    if trees:
        ck.samples.append({"wire_tree_case": strip(trees[len(trees) // 2])})
    ck.cov["wire_exhaustive_short_inputs"] = len(exh)
    return {"evaluations": len(cases) + len(prims) + len(exh), "nontrivial": nontriv,
            "traces": len(terms) + len(pterms) + len(exh),
            "rule": "wire: all 1- and 2-byte inputs, a 3-byte grid, seeded field trees (options x nesting up to 70) "
                    "canonically encoded, 2-4 grammar-aware mutants of each (truncate, bit flip, overlong varint, stray "
                    "end-group, insert, length bump, duplicate slice, wire-type change); non-trivial = distinct input of "
                    ">= 3 bytes"}
