"""C18 — token spans and error locations.
Proof: coq/Lexer (byte-level model of Tokenize / TokenizeTemplate / HandleSpecialToken / matchLongestToken /
Preprocessor.Process, shared with C01) + coq/C18 (Spec, theorems: spans inside the source, ordered, disjoint,
line = newlines before the span, text = source slice).
Tie: byte strings (corpus files, their prefixes and mutants with injected CRLF / multi-byte characters /
heredocs / interpolation / inline HTML, generated lexeme sequences, all 1- and 2-byte sources over an alphabet)
are lexed by the REAL lexer in both modes; (1) the model's token stream must equal the real one wherever the
model is defined, and (2-5) the Spec predicates are evaluated on the REAL tokens for every input, modelled or
not.  Error-location clause: generated programs with one planted fault at a known line are parsed / run by the
real parser and interpreter and the reported line compared (search, not proof)."""
import glob
import json
import os
import shutil
import subprocess
import threading

import lextable
import vcheck

HEADER = ("From Coq Require Import List Arith NArith Bool String.\nImport ListNotations.\n"
          "From V.Lexer Require Import Model Hex.\nFrom V.C18 Require Import Spec Run.\nOpen Scope string_scope.\n")


def run_lex(binary, cases, nproc=8, extra=None):
    """cases: list of dicts with hex/mode (+parse/run). order preserved."""
    if not cases:
        return []
    size = (len(cases) + nproc - 1) // nproc
    chunks = [cases[i:i + size] for i in range(0, len(cases), size)]
    results = [None] * len(chunks)

    def work(i):
        inp = "\n".join(json.dumps(c) for c in chunks[i]) + "\n"
        p = subprocess.Popen([binary], stdin=subprocess.PIPE, stdout=subprocess.PIPE, stderr=subprocess.DEVNULL, text=True)
        try:
            so, _ = p.communicate(inp, timeout=900)
        except subprocess.TimeoutExpired:
            p.kill()
            so, _ = p.communicate()
        outs = []
        for l in so.splitlines():
            if l.startswith("{"):
                try:
                    outs.append(json.loads(l))
                except ValueError:
                    pass
        # a worker that died (fatal error) returns fewer lines: pad, the caller reports it
        while len(outs) < len(chunks[i]):
            outs.append({"dead": True})
        results[i] = outs
    ths = [threading.Thread(target=work, args=(i,)) for i in range(len(chunks))]
    for t in ths:
        t.start()
    for t in ths:
        t.join()
    return [o for r in results for o in r]


def coq_case(c, o):
    if o.get("lexpanic") or o.get("dead") or o.get("toks") is None:
        real = "RPanic"
    else:
        real = "(RToks [%s])" % "; ".join('(%d%%N, %d%%N, %d%%N, %d%%N, "%s")' % (t[0], t[1], t[2], t[3], t[4]) for t in o["toks"])
    return '{| template := %s; src := "%s"; real := %s |}' % ("true" if c["mode"] == "template" else "false", c["hex"], real)


# ---------------------------------------------------------------- generators
LEXEMES = [b"$a", b"$b1", b"$_x", b"foo", b"Bar\\Baz", b"\\Foo", b"\\App\\Test", b"if", b"else", b"function", b"return",
           b"echo", b"class", b"new", b"null", b"true", b"false", b"bool", b"array", b"int", b"string", b"$this", b"self",
           b"0", b"7", b"42", b"-3", b"1.5", b"0x1F", b"0b101", b"017", b"1e5", b"2.5e-3", b"1..5", b"12abc",
           b"'s'", b'"d"', b"'it\\'s'", b'"a\\"b"', b"`cmd`", b"'multi\nline'", b'"tab\\t"', b"b'x'", b"b'\\n'", b"''", b'""',
           b"+", b"-", b"*", b"/", b"%", b"=", b"==", b"===", b"!=", b"!==", b"<", b">", b"<=", b">=", b"<=>", b"&&", b"||",
           b"!", b"&", b"|", b"^", b"~", b"<<", b">>", b"++", b"--", b"->", b"=>", b"?:", b"?", b":", b"::", b"@", b"#",
           b"$", b",", b";", b"(", b")", b"{", b"}", b"[", b"]", b"??", b"??=", b"**", b"**=", b"+=", b"-=", b".=", b".",
           b"...", b"..", b"\\", b"?->", b"_",
           b"// c", b"// c\n", b"// c\r\n", b"/* m */", b"/* m\nn */", b"/* open", b"# x", b"'open", b'"open', b"`open"]
SEPS = [b" ", b" ", b" ", b"", b"", b"\t", b"\n", b"\n", b"\r\n", b"\n\n", b" \n ", b"\xe3\x80\x80", b"\r"]
SPECIAL = [b"<<<EOT\nbody $x\nEOT\n", b"<<<'N'\nraw\nN\n", b'"v=$a"', b'"{$a->b} x"', b'"@{x}"', b"'a$b'", b"\xe4\xb8\xad\xe6\x96\x87",
           b'"\xe4\xb8\xad"', b"\xff", b'"\xff"', b"\xe3\x80", b"caf\xc3\xa9", b"<div>", b"?>", b"<?php", b"$.SERVER"]


def gen_snippet(rng, n, special_p=0.0):
    out = b""
    for _ in range(n):
        if rng.random() < special_p:
            out += rng.choice(SPECIAL)
        else:
            out += rng.choice(LEXEMES)
        out += rng.choice(SEPS)
    return out


def corpus_files():
    files = sorted(glob.glob(os.path.join(vcheck.REPO, "tests", "**", "*.php"), recursive=True) +
                   glob.glob(os.path.join(vcheck.REPO, "tests", "**", "*.zy"), recursive=True) +
                   glob.glob(os.path.join(vcheck.REPO, "examples", "**", "*.php"), recursive=True) +
                   glob.glob(os.path.join(vcheck.REPO, "examples", "**", "*.zy"), recursive=True))
    return files


def mutate(rng, data):
    """inject CRLF / multi-byte / heredoc / interpolation / HTML / truncation at seeded positions"""
    k = rng.randrange(8)
    pos = rng.randrange(len(data) + 1) if data else 0
    if k == 0:
        return data.replace(b"\n", b"\r\n")
    if k == 1:
        return data[:pos] + rng.choice([b"\xe4\xb8\xad", b"\xc3\xa9", b"\xe3\x80\x80", b"\xf0\x9f\x98\x80", b"\xff"]) + data[pos:]
    if k == 2:
        return data[:pos] + b"\n$h = <<<EOT\nline $v\nEOT;\n" + data[pos:]
    if k == 3:
        return data[:pos] + b' "x {$o->p} $q" ' + data[pos:]
    if k == 4:
        return data[:pos] + b"?><b>html</b><?php " + data[pos:]
    if k == 5:
        return data[:pos]
    if k == 6:
        return data[:pos] + b"// note\r\n" + data[pos:]
    return data[:pos] + rng.choice(LEXEMES) + data[pos:]


# planted-fault programs for the error-location clause: (source, expected 1-based line, kind)
FAULTS = {
    "parse-ternary": ("$x = $y ? 1;", "parse"),
    "parse-ternary-eof": ("$x = $y ? 1", "parse"),          # nothing after the fault: the diagnostic must not fall back to 1:1
    "parse-paren": ("$x = (1 + 2;", "parse"),
    "parse-param": ("function f( {", "parse"),
    "throw": ("throw new Exception('boom');", "run"),
    "undefined-fn": ("undefined_function_xyz(1);", "run"),
    "div-zero": ("$q = 1 / 0;", "run"),
    "null-method": ("$o = null; $o->foo();", "run"),
    # the fault on the 2nd / 3rd physical line of a multi-line construct: the line of the construct's faulty part
    # (the missing ':' is detected at the ')' on the following line: either line names the construct)
    "parse-multiline-call": ("$r = strlen(\n  'abc',\n  $y ? 1\n);", "parse", 2, 1),
    "throw-multiline-array": ("$r = [\n  1,\n  undefined_function_xyz(2),\n  3];", "run", 2),
    "parse-class-default": ("class K%d {\n  public $p = (1 + ;\n}", "parse", 1),
    "undefined-class": ("$o = new UndefinedClassXyz();", "run"),
    "undefined-class-static": ("UndefinedClassXyz::f();", "run"),
    "undefined-class-const": ("echo UndefinedClassXyz::C;", "run"),
    "undefined-method": ("$o = new Exception('x');\n$o->nopeMethod();", "run", 1),
    # reported at the parameter that rejects the value (PHP reports the declaration line too)
    "type-error-arg": ("function t%d(int $n) { return $n; }\n$k = 1;\nt%d('abc');", "run", 0),
    "parse-unclosed-brace-eof": ("function u%d() {\n  $l = 1;\n", "parse", 0, 2),
    "throw-match-arm": ("$r = match (1) {\n  0 => 1,\n  1 => undefined_function_xyz(3),\n};", "run", 2),
    "throw-after-heredoc": ("$r = [<<<EOT\nline\nEOT\n, undefined_function_xyz(4)];", "run", 3),
    # a fault inside an interpolated expression of a multi-line literal: the diagnostic names the literal's first line or
    # the exact line of the expression, never another line of the literal (offsets are a list of allowed lines here)
    "interp-heredoc-line2": ("$o%d = null;\n$s = <<<EOT\nline one\nline {$o%d->foo()} two\nthree\nEOT;", "run", [1, 3]),
    "interp-heredoc-line3": ("$o%d = null;\n$s = <<<EOT\n\nline two\n  x {$o%d->foo()}\nEOT;", "run", [1, 4]),
    "interp-heredoc-line1": ("$o%d = null;\n$s = <<<EOT\nline {$o%d->foo()} one\ntwo\nEOT;", "run", [1, 2]),
    "interp-string-line2": ("$o%d = null;\n$s = \"line one\nline {$o%d->foo()} two\nthree\";", "run", [1, 2]),
    "interp-heredoc-undefined-fn": ("$s = <<<EOT\na\nb\nc {$t[undefined_function_xyz(5)]}\nEOT;", "run", [0, 3]),
    # a fluent chain written over several lines: the failing link is located on its own line
    "chain-null-link": ("class Ch%d { function a() { return $this; } function b() { return null; } }\n$c%d = new Ch%d();\n$r = $c%d\n  ->a()\n  ->b()\n  ->c();", "run", 5),
    "chain-undefined-link": ("class Cu%d { function a() { return $this; } }\n$c%d = new Cu%d();\n$r = $c%d\n  ->a()\n  ->a()\n  ->nopeLink()\n  ->a();", "run", 5),
    "chain-null-property": ("class Cp%d { public $p = null; function a() { return $this; } }\n$c%d = new Cp%d();\n$r = $c%d\n  ->a()\n  ->p\n  ->q();", "run", 5),
    "chain-in-args": ("class Cq%d { function a() { return $this; } function b() { return null; } }\n$c%d = new Cq%d();\n$r = strlen(\n  'x' . $c%d->a()\n    ->b()\n    ->c()\n);", "run", 5),
    "throw-in-fn": ("function g%d() {\n  $l = 1;\n  throw new Exception('in fn');\n}\ng%d();", "run", 2),
}


def line_ok(p, got):
    if p.get("lines"):
        return got in p["lines"]
    return p["line"] <= got <= p["line"] + p.get("tol", 0)


def fault_programs(rng, n):
    progs = []
    kinds = sorted(FAULTS)
    for i in range(n):
        nb = rng.randrange(0, 7)
        eol = rng.choice(["\n", "\n", "\r\n"])
        lines = []
        for k in range(nb):
            lines.append(rng.choice(["$v%d = %d;" % (k, k), "// comment %d" % k, "/* block %d */" % k, "",
                                     "$s%d = 'text';" % k, "$t%d = \"multi\nline\";" % k, "/* two\n lines */"]))
        before = eol.join(lines) + (eol if lines else "")
        kind = kinds[i % len(kinds)]
        spec = FAULTS[kind]
        fault, phase = spec[0], spec[1]
        inner = spec[2] if len(spec) > 2 else 0          # the faulty part is `inner` lines below the construct's first line
        allowed = None
        if isinstance(inner, list):                       # a set of allowed lines instead of one
            allowed, inner = inner, inner[0]
        tol = spec[3] if len(spec) > 3 else 0            # lines after it that still belong to the construct
        fault = fault.replace("%d", str(i))
        mode = "plain"
        head = ""
        r = rng.random()
        if r < 0.3:
            mode = "template"
            head = rng.choice(["<?php" + eol, "<html>" + eol + "<?php" + eol, "<?php "])
        elif r < 0.4:
            head = "#!/usr/bin/env zy\n" + rng.choice(["<?php" + eol, "<?php "])      # plain mode with a #! line
        elif r < 0.5:
            mode = "template"                                                        # a .php file with a #! line (ParseFile)
            head = "#!/usr/bin/env php\n" + rng.choice(["<?php" + eol, "<?php "])
        if mode == "template" and rng.random() < 0.6:
            # PHP alternative syntax before the fault, with line breaks inside the rewritten parts (fix 3e8473a)
            before += rng.choice(["if ($v0)\n\n:\n$alt = 1;\nelse\n:\n$alt = 2;\nendif;", "if ($v0): $alt = 1; endif;",
                                  "while (false)\n:\n$alt = 1;\nendwhile;",
                                  # blocks closed inside their own <?php ... ?> island: with ';', with a trailing comment that ends in
                                  # the end keyword, with blank lines before '?>', several blocks, HTML in between
                                  "if ($v0): ?>\nA\n<?php endif; ?>\n<?php",
                                  "if ($v0): ?>\nA\n<?php\n  endif; // closes the if, no else before this endif\n\n?>\n<p>x</p>\n<?php",
                                  "foreach ([1] as $q): ?>\nB\n<?php endforeach;\n\n\n?>\n<?php",
                                  "while (false): ?>\nC\n<?php endwhile; // endwhile\n?>\n<?php",
                                  "if ($v0): ?>\nA\n<?php else: ?>\nB\n<?php endif;\n\n?>\n<ul>\n<?php foreach ([1, 2] as $q): ?>\n<li></li>\n<?php endforeach; // endforeach\n\n?>\n</ul>\n<?php"]) + eol
        twice = False
        # (not for faults inside string interpolation: on the unchanged tree an error raised there is not caught by an
        # enclosing try/catch at all - reported to the coordinator as a C05-class defect - so there is no "caught first time")
        if phase == "run" and "function " not in fault and "class " not in fault and not kind.startswith("interp-") and rng.random() < 0.4:
            # the same fault twice: first inside a try block whose catch swallows it, then uncaught further down; the
            # diagnostic must name the SECOND site (nothing about the first failure may stick to the class / function name)
            twice = True
            before += "try {" + eol + fault + eol + "} catch (Exception $caught) {" + eol + "  $seen = 1;" + eol + "}" + eol
            before += eol.join("$g%d = %d;" % (k, k) for k in range(rng.randrange(0, 4))) + eol
        after = "" if kind.endswith("-eof") else eol + eol.join("$w%d = %d;" % (k, k) for k in range(rng.randrange(0, 4)))
        src = head + before + fault + after
        line = (head + before).count("\n") + 1 + inner
        if twice:
            kind += ":twice"
        progs.append({"src": src, "line": line, "tol": tol, "kind": kind, "phase": phase,
                      "lines": [line - inner + a for a in allowed] if allowed else None, "eol": "crlf" if eol == "\r\n" else "lf",
                      "mode": mode})
    return progs


# ---- multi-file planted faults (error-location clause): the faulty construct lives in a function / method /
# closure of ONE file and is reached from ANOTHER file (include / require); the uncaught diagnostic, and
# getFile()/getLine() of the exception when it is caught, must name the file and line of the faulty construct.
MF_FAULTS = {
    "throw": "throw new Exception('boom');",
    "undefined-fn": "undefined_function_xyz(1);",
    "div-zero": "$q = 1 / $zero;",
    "null-method": "$o = null; $o->foo();",
}
MF_SHAPES = ["fn", "method", "static", "closure", "nested", "arrow", "rethrow", "callback-to-caller"]


def _pad(rng, n, tag):
    out = []
    for k in range(n):
        out.append(rng.choice(["$%s%d = %d;" % (tag, k, k), "// comment %d" % k, "/* block %d */" % k, "",
                               "$%ss%d = 'text';" % (tag, k), "/* two\n lines */", "$%st%d = \"multi\nline\";" % (tag, k)]))
    return out


def multifile_fault_programs(rng, n):
    progs = []
    kinds = sorted(MF_FAULTS)
    for i in range(n):
        kind = kinds[i % len(kinds)]
        shape = MF_SHAPES[(i // len(kinds)) % len(MF_SHAPES)]
        inc = rng.choice(["require", "include", "require_once", "include_once"])
        fault = MF_FAULTS[kind]
        # the file holding the fault: lines before the definition, lines inside the body before the fault
        top = _pad(rng, rng.randrange(0, 5), "p")
        inner = ["  " + x for x in _pad(rng, rng.randrange(0, 4), "q") if "\n" not in x]
        body = ["  $zero = 0;"] + inner
        L = ["<?php"] + top

        def mark(lines):
            # 1-based line on which the fault statement will start when appended next
            return "\n".join(lines).count("\n") + 2

        call = ""
        if shape in ("fn", "rethrow", "arrow", "callback-to-caller"):
            L += ["function faulty($a) {"] + body
            line = mark(L)
            L += ["  " + fault, "  return 1;", "}"]
            call = "faulty(1);"
        elif shape == "nested":
            L += ["function outer_fn($a) {", "  $r = 1;", "  return inner_fn($a) + $r;", "}", "function inner_fn($a) {"] + body
            line = mark(L)
            L += ["  " + fault, "  return 1;", "}"]
            call = "outer_fn(1);"
        elif shape == "method":
            L += ["class Faulty {", "  public $p = 1;", "  function m($a) {"] + ["  " + x for x in body]
            line = mark(L)
            L += ["    " + fault, "    return 1;", "  }", "}"]
            call = "$obj = new Faulty(); $obj->m(1);"
        elif shape == "static":
            L += ["class Faulty {", "  static function s($a) {"] + ["  " + x for x in body]
            line = mark(L)
            L += ["    " + fault, "    return 1;", "  }", "}"]
            call = "Faulty::s(1);"
        elif shape == "closure":
            L += ["function make_closure() {", "  return function ($a) {"] + ["  " + x for x in body]
            line = mark(L)
            L += ["    " + fault, "    return 1;", "  };", "}"]
            call = "$cl = make_closure(); $cl(1);"
        L += _pad(rng, rng.randrange(0, 3), "w")
        fault_src = "\n".join(L) + "\n"

        # the other file: reaches the fault
        C = ["<?php"] + _pad(rng, rng.randrange(0, 4), "m")
        if shape == "rethrow":
            call = "try {\n  faulty(1);\n} catch (Exception $e) {\n  $seen = 1;\n  throw $e;\n}"
        elif shape == "arrow":
            call = "$g = fn($x) => faulty($x);\n$g(1);"
        direction = rng.choice(["fault-in-included", "fault-in-including"])
        if shape == "callback-to-caller":
            # main defines faulty(); the included file defines relay() which calls it; main calls relay()
            direction = "fault-in-including"
            files = {"main.php": fault_src + inc + " 'lib.php';\nrelay(2);\n",
                     "lib.php": "\n".join(C + ["function relay($k) {", "  $t = $k;", "  return faulty($t);", "}"]) + "\n"}
            expect = "main.php"
        elif direction == "fault-in-included":
            files = {"main.php": "\n".join(C + [inc + " 'lib.php';"] + _pad(rng, rng.randrange(0, 3), "n") + [call, "$after = 1;"]) + "\n",
                     "lib.php": fault_src}
            expect = "lib.php"
        else:
            # the definitions are in main, the included file's top-level code performs the call
            files = {"main.php": fault_src + "$before = 1;\n" + inc + " 'lib.php';\n$after = 1;\n",
                     "lib.php": "\n".join(C + [call]) + "\n"}
            expect = "main.php"
        progs.append({"files": files, "file": expect, "line": line, "kind": kind, "shape": shape, "direction": direction, "inc": inc})
    return progs


def run_multifile(binary, progs, bdir):
    """real subprocesses: (a) the uncaught diagnostic `... in <file>:<line>:<col>` on stderr, (b) a wrapper that catches
    the exception at the top of main and prints basename(getFile()):getLine()"""
    import re
    import tempfile
    outs = []
    root = tempfile.mkdtemp(prefix="mf", dir=bdir)
    for i, p in enumerate(progs):
        d = os.path.join(root, "p%d" % i)
        os.makedirs(d)
        for name, src in p["files"].items():
            open(os.path.join(d, name), "w").write(src)
        o = {}
        try:
            r = subprocess.run([binary, "main.php"], cwd=d, stdout=subprocess.PIPE, stderr=subprocess.PIPE, text=True, timeout=30,
                               stdin=subprocess.DEVNULL)
            o["code"] = r.returncode
            m = re.search(r" in (\S+?):(\d+):(\d+)", r.stderr)
            if m:
                o["file"], o["rline"] = os.path.basename(m.group(1)), int(m.group(2))
            o["stderr"] = r.stderr[:300]
        except subprocess.TimeoutExpired:
            o["code"] = -1
            o["stderr"] = "timeout"
        # (b) caught at the outermost level of a driver script
        open(os.path.join(d, "driver.php"), "w").write(
            "<?php\ntry {\n  require 'main.php';\n} catch (Exception $caught) {\n"
            "  echo 'AT=', basename($caught->getFile()), ':', $caught->getLine(), \"\\n\";\n}\n")
        try:
            r = subprocess.run([binary, "driver.php"], cwd=d, stdout=subprocess.PIPE, stderr=subprocess.PIPE, text=True, timeout=30,
                               stdin=subprocess.DEVNULL)
            m = re.search(r"AT=(\S+):(\d+)", r.stdout)
            if m:
                o["cfile"], o["cline"] = m.group(1), int(m.group(2))
            else:
                o["caught_out"] = (r.stdout + r.stderr)[:300]
        except subprocess.TimeoutExpired:
            o["caught_out"] = "timeout"
        outs.append(o)
    return outs


def run_printed(binary, progs, bdir, nthreads=8):
    """the property's observable for single-file faults: the text `... in <file>:<line>:<col>` that the origami binary
    prints (parser_print.go / ShowControl), for a plain-mode (.zy) or template-mode (.php) file, and for a parse
    fault in an INCLUDED file (which must be named, not the including one)"""
    import re
    import tempfile
    import threading
    root = tempfile.mkdtemp(prefix="pr", dir=bdir)
    outs = [None] * len(progs)

    def work(lo):
        for i in range(lo, len(progs), nthreads):
            p = progs[i]
            d = os.path.join(root, "p%d" % i)
            os.makedirs(d)
            name = "prog.php" if p["mode"] == "template" else "prog.zy"
            open(os.path.join(d, name), "wb").write(p["src"].encode())
            entry = name
            if p.get("included"):
                entry = "main.php"
                open(os.path.join(d, entry), "w").write("<?php\n$m = 1;\n\n%s '%s';\n$after = 1;\n" % (p["included"], name))
            o = {"expect_file": name}
            try:
                r = subprocess.run([binary, entry], cwd=d, stdout=subprocess.PIPE, stderr=subprocess.PIPE, timeout=30,
                                   stdin=subprocess.DEVNULL)
                err = r.stderr.decode("utf-8", "replace")
                o["code"] = r.returncode
                m = re.search(r" in (\S+?):(\d+):(\d+)", err)
                if m:
                    o["file"], o["line"], o["col"] = os.path.basename(m.group(1)), int(m.group(2)), int(m.group(3))
                o["stderr"] = err[:300]
            except subprocess.TimeoutExpired:
                o["code"] = -1
                o["stderr"] = "timeout"
            outs[i] = o
    ths = [threading.Thread(target=work, args=(k,)) for k in range(nthreads)]
    for t in ths:
        t.start()
    for t in ths:
        t.join()
    shutil.rmtree(root, ignore_errors=True)
    return outs


def main(ck):
    rng = ck.rng
    ck.trusted += [
        "harness/cmd/lex (Go: token dump, table dump by running token.TokenDefinitions / lexer.IsDelimiter) and checks/C18.py",
        "model answers Unsup (tie skipped, Spec oracle still applied to the real tokens) for heredoc/nowdoc, #! line, <!DOCTYPE, bytes >= 0x80 outside strings/comments, strings that processStringInterpolation rewrites ($, @, invalid UTF-8)",
        "columns (Token.Pos) are not modelled",
    ]
    binary, out = ck.go_build("lex")
    if binary is None:
        ck.broken.append("harness-build")
        ck.finish(evaluations=0, distinct_nontrivial=0, rule="harness did not build")
    tbl, changed = lextable.regenerate(ck, binary)
    ck.log("token table regenerated (%d definitions, changed=%s)" % (len(tbl["defs"]), changed))
    ck.prove(deps=["Lexer", "gen"])
    ck.log("proofs checked")

    quick = ck.tier == "quick"
    cases = []
    if ck.replay:
        rp = json.load(open(ck.replay))
        if "case" in rp and "hex" in rp["case"]:
            cases = [rp["case"]]
    else:
        # exhaustive small sources
        alpha = sorted(set(b"$a1 \n\r\t'\"`/*-+.=<>?:\\;(){}[]#@!_b0xe&|") | {0xe3, 0x80, 0xff, 0xc3, 0xa9})
        for m in ("plain", "template"):
            for a in range(256):
                cases.append({"hex": "%02x" % a, "mode": m, "origin": "exh1"})
        for a in alpha:
            for b in alpha:
                cases.append({"hex": "%02x%02x" % (a, b), "mode": "plain", "origin": "exh2"})
        for a in alpha:
            for b in alpha:
                cases.append({"hex": "3c3f70687020%02x%02x" % (a, b), "mode": "template", "origin": "exh2"})
        # generated lexeme sequences
        for _ in range(1500 if quick else 20000):
            s = gen_snippet(rng, rng.randrange(1, 14), special_p=0.04)
            m = "plain"
            if rng.random() < 0.3:
                m = "template"
                s = rng.choice([b"<?php ", b"<html>\n<?php ", b"<?php\n"]) + s + rng.choice([b"", b" ?>", b"?>\n<p>x</p>", b"?><?php $z"])
            elif rng.random() < 0.08:
                # a #! line: the rest is lexed in template mode, offsets and lines relative to the whole source
                s = rng.choice([b"#!/usr/bin/env zy\n", b"#!x\n", b"#!\n", b"#! no newline"]) + rng.choice([b"<?php ", b"<p>\n<?php\n", b""]) + s
            cases.append({"hex": s.hex(), "mode": m, "origin": "gen"})
        # leading bytes that a lexer entry point may skip or treat specially (BOM, #! line, blank space, text before the
        # open tag): spans and text are always checked against the ORIGINAL bytes handed to the entry point, in both modes
        LEAD = [b"\xef\xbb\xbf", b"\xef\xbb\xbf\n", b"\xef\xbb\xbf#!/usr/bin/env zy\n", b"\xef\xbb\xbf ", b"\n\n", b"  \t", b"\r\n",
                b"\xef\xbb", b"\xfe\xff", b"\xe3\x80\x80", b"\x00", b"#!/x\n\xef\xbb\xbf", b"<p>\xef\xbb\xbf</p>\n"]
        for k in range(260 if quick else 4000):
            body = gen_snippet(rng, rng.randrange(1, 8), special_p=0.02)
            lead = LEAD[k % len(LEAD)]
            cases.append({"hex": (lead + body).hex(), "mode": "plain", "origin": "lead"})
            cases.append({"hex": (lead + rng.choice([b"<?php ", b"<?php\n", b"<b>x</b><?php "]) + body).hex(), "mode": "template", "origin": "lead"})
        # very long lines (flat array / argument list / concatenation, a long string followed by more tokens): tokens at byte
        # columns far beyond 4096, 8192, 65536 on lines 1..4, so that every low bit of the line number is exercised
        # (the Spec's line predicate counts newlines per token: inputs are kept near the sizes that matter; the many-token
        # shape stays below 5 KB, the few-token shapes go to 9 KB; longer literals overflow coqc's stack)
        shapes = [(b"$x = [" + b"1, " * 1450 + b"2];", (0, 2)),                       # 1 450 tokens, columns up to 4 360
                  (b"$s = '" + b"ab" * 4300 + b"' . $t . 'u';", (0, 1, 2)),           # tokens at columns 8 600+
                  (b"$s = '" + b"ab" * 2100 + b"' . f('" + b"cd" * 2200 + b"', $t);", (0, 1))]    # columns 4 200+ and 8 600+
        for body, lines_ in shapes:
            for nl in lines_ if quick else range(5):
                pre = b"$p = 1;\n" * nl
                cases.append({"hex": (pre + body + b"\n$q = 2;").hex(), "mode": "plain", "origin": "longline"})
                cases.append({"hex": (b"<?php\n" + pre + body + b"\n$q = 2; ?>").hex(), "mode": "template", "origin": "longline"})
        # every keyword / literal constant of the regenerated token table in other spellings (upper case, capitalised,
        # alternating): the token text must be the source slice whatever the word lexes as
        K = tbl["consts"]
        words = sorted(set(bytes.fromhex(hx) for ty, hx in tbl["defs"]
                           if (K["KEYWORD_START"] < ty < K["KEYWORD_END"] or K["VALUE_START"] < ty < K["VALUE_END"])
                           and bytes.fromhex(hx).isalpha()))
        ck.cov["keywords_case_varied"] = len(words)
        for wi, w in enumerate(words):
            alt = bytes(ch - 32 if k % 2 == 0 else ch for k, ch in enumerate(w.lower()))
            for sp in (w.upper(), w[:1].upper() + w[1:], alt):
                if sp == w:
                    continue
                ctxs = [sp, sp + b" ($a) { }", b"$x = " + sp + b";", b"f(" + sp + b", 1)\n" + sp + b" $y"]
                for ci, ctx in enumerate(ctxs if not quick else [ctxs[0], ctxs[1 + (wi + len(sp)) % 3]]):
                    cases.append({"hex": ctx.hex(), "mode": "plain", "origin": "kwcase"})
                    cases.append({"hex": (b"<?php " + ctx).hex(), "mode": "template", "origin": "kwcase"})
        # corpus files, their prefixes and mutants
        files = corpus_files()
        ck.cov["corpus_files_total"] = len(files)
        pick = files if not quick else rng.sample(files, min(45, len(files)))
        used = 0
        for f in pick:
            data = open(f, "rb").read()
            if len(data) > (1000 if quick else 6000):
                data = data[:(1000 if quick else 6000)]
            m = "template" if f.endswith(".php") else "plain"
            used += 1
            cases.append({"hex": data.hex(), "mode": m, "origin": "corpus"})
            for _ in range(3 if quick else 10):
                cases.append({"hex": mutate(rng, data).hex(), "mode": m, "origin": "mutant"})
            # the script part of a .php file also in plain mode (after the open tag)
            if m == "template" and data.startswith(b"<?php"):
                cases.append({"hex": data[5:].hex(), "mode": "plain", "origin": "corpus"})
        ck.cov["corpus_files_used"] = used

    outs = run_lex(binary, [{"hex": c["hex"], "mode": c["mode"]} for c in cases])
    ck.log("real lexer ran on %d inputs" % len(cases))
    terms = [coq_case(c, o) for c, o in zip(cases, outs)]
    # shard by size so that the long corpus inputs are spread over workers
    order = sorted(range(len(cases)), key=lambda i: -len(cases[i]["hex"]))
    nshard = 16 if quick else 128      # smaller shards in the thorough tier: a coqc with a multi-megabyte case file needs GBs
    shards = [[] for _ in range(nshard)]
    for k, i in enumerate(order):
        shards[k % nshard].append(i)
    perm = [i for sh in shards for i in sh]
    bad_perm = ck.eval_cases("cases", HEADER, [terms[i] for i in perm], "check_case",
                             shard=max(1, (len(perm) + nshard - 1) // nshard))
    bad = {perm[j]: cls for j, cls in bad_perm.items()}
    ck.log("model/spec evaluated")

    names = {1: "model lexer != real lexer", 2: "span outside the source", 3: "spans unordered / overlapping",
             4: "line != newlines before the span", 5: "token text != source slice", 6: "real lexer panicked"}
    unsup = 0
    fail_by_clause = {}
    for i, cls in sorted(bad.items(), key=lambda kv: len(cases[kv[0]]["hex"])):
        c, o = cases[i], outs[i]
        if 9 in cls:
            unsup += 1
        cls = [x for x in cls if x != 9]
        if not cls:
            continue
        for x in cls:
            fail_by_clause[x] = fail_by_clause.get(x, 0) + 1
        rep = {"case": {"hex": c["hex"], "mode": c["mode"], "origin": c.get("origin"),
                        "text": bytes.fromhex(c["hex"]).decode("latin-1")[:300]},
               "impl_out": o, "clause": [names[x] for x in cls]}
        if len(ck.cov.setdefault("failing_samples", [])) < 25:
            ck.cov["failing_samples"].append([c["mode"], c["hex"][:120], cls])
        spec = [x for x in cls if x != 1]
        if spec:
            ck.violation("spec:%s:%s" % (c["mode"], "".join(map(str, spec))), rep)
        else:
            ck.broken.append("correspondence:C18.tokens")
            ck.violation("tie:%s" % c["mode"], rep)

    # ---- error-location clause (search): planted faults
    nfault = 0
    floc = {}
    if not ck.replay:
        progs = fault_programs(rng, 400 if quick else 4000)
        fouts = run_lex(binary, [{"hex": p["src"].encode().hex(), "mode": p["mode"], "parse": True, "run": True,
                                  "budget_ms": 30000} for p in progs])
        for p, o in zip(progs, fouts):
            nfault += 1
            floc[p["kind"]] = floc.get(p["kind"], 0) + 1
            key = "errloc:%s:%s:%s" % (p["kind"], p["mode"], p["eol"])
            if p["phase"] == "parse":
                if o.get("parse") != "error":
                    ck.violation(key + ":no-diagnostic", {"case": p, "impl_out": o, "clause": "a parse error was expected"})
                elif not line_ok(p, o.get("pline") or 0):
                    ck.violation(key, {"case": p, "impl_out": o,
                                       "clause": "parse diagnostic on line %s, fault on line %d" % (o.get("pline"), p["line"])})
            else:
                if o.get("parse") != "ok" or o.get("run") != "throw":
                    ck.violation(key + ":no-throw", {"case": p, "impl_out": o, "clause": "an uncaught runtime error was expected"})
                elif not line_ok(p, o.get("rline") or 0):
                    ck.violation(key, {"case": p, "impl_out": o,
                                       "clause": "runtime error reported on line %s, fault on line %d" % (o.get("rline"), p["line"])})
    ck.cov["planted_fault_programs"] = nfault
    ck.cov["planted_fault_kinds_checked"] = floc

    # ---- error-location clause, the PRINTED diagnostic of the origami binary for single-file faults and for parse faults
    # in an included file
    nprinted = 0
    obin = None
    if not ck.replay:
        obin, _o = ck.build_origami()
        if obin is None:
            ck.broken.append("origami-build")
        else:
            sub = [dict(p) for p in progs[:(96 if quick else 1200)]]
            for k, p in enumerate(sub):
                if p["phase"] == "parse" and p["mode"] == "template" and k % 2 == 0:
                    p["included"] = rng.choice(["require", "include", "require_once", "include_once"])
            pouts = run_printed(obin, sub, ck.bdir)
            for p, o in zip(sub, pouts):
                nprinted += 1
                key = "errloc-printed:%s:%s:%s%s" % (p["kind"], p["mode"], p["eol"], ":included" if p.get("included") else "")
                if o.get("code") in (0, -1) or "line" not in o:
                    ck.violation(key + ":no-diagnostic", {"case": p, "impl_out": o,
                                                          "clause": "a printed `in <file>:<line>:<col>` diagnostic and a non-zero exit were expected"})
                elif o["file"] != o["expect_file"] or not line_ok(p, o["line"]):
                    ck.violation(key, {"case": p, "impl_out": o,
                                       "clause": "printed diagnostic names %s:%s, the faulty construct is at %s:%d" % (
                                           o.get("file"), o.get("line"), o["expect_file"], p["line"])})
    ck.cov["printed_diagnostics_checked"] = nprinted

    # ---- error-location clause, multi-file: the fault is in a function / method / closure of another file
    nmf = 0
    mfdist = {}
    if not ck.replay:
        if obin is None:
            pass
        else:
            mprogs = multifile_fault_programs(rng, 128 if quick else 1024)
            mouts = run_multifile(obin, mprogs, ck.bdir)
            for p, o in zip(mprogs, mouts):
                nmf += 1
                k = "%s/%s" % (p["shape"], p["direction"])
                mfdist[k] = mfdist.get(k, 0) + 1
                key = "errloc-multifile:%s:%s:%s" % (p["kind"], p["shape"], p["direction"])
                if o.get("code") in (0, -1) or "rline" not in o:
                    ck.violation(key + ":no-diagnostic", {"case": p, "impl_out": o,
                                                          "clause": "an uncaught error with a file:line diagnostic and a non-zero exit was expected"})
                elif o["file"] != p["file"] or o["rline"] != p["line"]:
                    ck.violation(key, {"case": p, "impl_out": o,
                                       "clause": "uncaught error reported at %s:%s, the faulty construct is at %s:%d" % (
                                           o.get("file"), o.get("rline"), p["file"], p["line"])})
                if "cline" in o and (o["cfile"] != p["file"] or o["cline"] != p["line"]):
                    ck.violation(key + ":getLine", {"case": p, "impl_out": o,
                                                    "clause": "getFile():getLine() of the caught exception = %s:%s, the faulty construct is at %s:%d" % (
                                                        o.get("cfile"), o.get("cline"), p["file"], p["line"])})
    ck.cov["multifile_fault_programs"] = nmf
    ck.cov["multifile_fault_shapes"] = mfdist

    # ---- measured coverage
    origins = {}
    for c in cases:
        origins[c.get("origin", "?")] = origins.get(c.get("origin", "?"), 0) + 1
    distinct = len(set((c["hex"], c["mode"]) for c in cases))
    nontriv = len(set((c["hex"], c["mode"]) for c, o in zip(cases, outs) if o.get("toks") and len(o["toks"]) >= 2))
    ntok = sum(len(o.get("toks") or []) for o in outs)
    ck.samples = [bytes.fromhex(c["hex"]).decode("latin-1")[:80] for c in cases[600:603] + cases[-3:]]
    ck.cov["input_origins"] = origins
    ck.cov["distinct_inputs"] = distinct
    ck.cov["real_tokens_checked_against_spec"] = ntok
    ck.cov["model_unsupported_inputs"] = unsup
    ck.cov["failures_by_clause"] = {names[k]: v for k, v in fail_by_clause.items()}
    ck.cov["token_table_definitions"] = len(tbl["defs"])
    ck.finish(level="proof", evaluations=len(cases) + nfault + nmf, distinct_nontrivial=nontriv,
              rule="byte strings: every 1-byte source (both modes), every 2-byte source over a 44-byte alphabet (plain, and after "
                   "'<?php ' in template mode), seeded lexeme sequences with random separators (CRLF, full-width space, comments), "
                   "a seeded sample of corpus files (first 1000 bytes quick / 6000 thorough) with mutants (CRLF conversion, multi-byte / heredoc / "
                   "interpolation / inline HTML injection, truncation); non-trivial = distinct input with at least two top-level tokens",
              traces=len(cases) - unsup)
