"""C17 — values cross the Go boundary unchanged in both directions.
Proof: coq/C17 (model of convertToGoValue / convertToScriptValue / Call of ReflectFunction and
ReflectMethod, and of the scalar part of utils.ConvertFromIndex[T]).
Tie: Go functions of every signature of arity 0..3 over the 14 supported kinds are built with
reflect.MakeFunc, registered through vm.RegisterFunction and called through the real call node;
methods of a registered struct through vm.RegisterReflectClass; ConvertFromIndex[T] for every T.
The Go side records the dynamic kind and payload of what it received; the Coq model (tie) and the
Coq spec (oracle) are evaluated on the observations."""
import itertools
import json
import re
import struct
import subprocess
import vcheck
from vcheck import coq_string, coq_list, coq_z

HEADER = "From V.C17 Require Import Model Spec Run.\nOpen Scope Z_scope.\nOpen Scope string_scope.\n"
KINDS = ["string", "bool", "int", "int8", "int16", "int32", "int64", "uint", "uint8", "uint16", "uint32", "uint64",
         "float32", "float64"]
CK = {"string": "KString", "bool": "KBool", "int": "KInt", "int8": "KInt8", "int16": "KInt16", "int32": "KInt32",
      "int64": "KInt64", "uint": "KUint", "uint8": "KUint8", "uint16": "KUint16", "uint32": "KUint32",
      "uint64": "KUint64", "float32": "KFloat32", "float64": "KFloat64", "slice": "KOther", "map": "KOther",
      "struct": "KOther", "ptr": "KOther", "iface": "KOther", "error": "KOther",
      "Name": "(KNamed KString)", "Flag": "(KNamed KBool)", "Celsius": "(KNamed KFloat64)", "Level": "(KNamed KInt)",
      "Small": "(KNamed KInt8)", "Ratio": "(KNamed KFloat32)"}
NAMED = {"Name": "string", "Flag": "bool", "Celsius": "float64", "Level": "int", "Small": "int8", "Ratio": "float32",
         # defined types WITH methods (String(), Error(), MarshalText()), and two from the standard library
         "DurS": "int64", "MonthS": "int", "TempS": "float64", "NameS": "string", "FlagS": "bool", "ErrS": "string",
         "CodeE": "int", "TextM": "int", "SmallS": "uint8", "Duration": "int64", "Month": "int"}
GOTYPE = dict((("main." + n), n) for n in NAMED)       # reflect type string -> our name
GOTYPE.update({"time.Duration": "Duration", "time.Month": "Month"})
for _n, _b in NAMED.items():
    CK.setdefault(_n, "(KNamed %s)" % CK[_b])
UNSUPPORTED = ["slice", "map", "struct", "ptr", "iface"]
BOUNDS = {"int": (-2 ** 63, 2 ** 63 - 1), "int64": (-2 ** 63, 2 ** 63 - 1), "int8": (-128, 127), "int16": (-32768, 32767),
          "int32": (-2 ** 31, 2 ** 31 - 1), "uint": (0, 2 ** 64 - 1), "uint64": (0, 2 ** 64 - 1), "uint8": (0, 255),
          "uint16": (0, 65535), "uint32": (0, 2 ** 32 - 1)}
METHODS = {"I64": (["int64"], "int64"), "I32": (["int32"], "int32"), "I8": (["int8"], "int8"), "U8": (["uint8"], "uint8"),
           "U64": (["uint64"], "uint64"), "Int": (["int"], "int"), "F32": (["float32"], "float32"),
           "F64": (["float64"], "float64"), "Str": (["string"], "string"), "B": (["bool"], "bool"),
           "Mix": (["int", "float64", "string"], "string"), "None": ([], ""),
           "IS": (["int", "string"], "string"), "SI": (["string", "int"], "int"), "II": (["int", "int"], "int"),
           "SS": (["string", "string"], "bool"), "FF": (["float64", "float64"], "float64"), "BI": (["bool", "int"], "bool"),
           "RetDur": (["int64"], "DurS"), "RetMonth": (["int"], "Month"), "RetNameS": (["string"], "NameS"),
           "RetTempS": (["float64"], "TempS"), "TakeDur": (["DurS"], "int64"),
           "SIF": (["string", "int", "float64"], "int"), "III": (["int", "int", "int"], "int"), "I8U8": (["int8", "uint8"], "int8")}


BIG = "x" * 65536
KFIELDS = ["string", "int", "int64", "float64", "bool", "int8"]      # the public fields of the engine's struct K


def fbits(x):
    return str(struct.unpack("<Q", struct.pack("<d", x))[0])


def I(n): return {"k": "int", "i": str(n)}
def F(x): return {"k": "float", "bits": fbits(x)}
def S(s): return {"k": "str", "s": s}
def B(b): return {"k": "bool", "b": b}
N = {"k": "null"}
A = {"k": "arr"}


def coq_float_bits(bits):
    x = struct.unpack("<d", struct.pack("<Q", int(bits)))[0]
    if x != x:
        return "nan"
    if x == float("inf"):
        return "infinity"
    if x == float("-inf"):
        return "neg_infinity"
    if x == 0:
        return "neg_zero" if int(bits) >> 63 else "zero"
    h = x.hex()
    if h.startswith("-"):
        return "(- %s)%%float" % h[1:]
    return "(%s)%%float" % h


def coq_text(s):
    if s == BIG:
        return "big_x"
    if s.startswith("hex:"):
        return coq_hex(s[4:])
    return coq_string(s.encode("utf-8").decode("latin-1"))


def coq_hex(h):
    return "(bytes_str %s)" % coq_list("%d%%nat" % b for b in bytes.fromhex(h))


def text_of(d):
    """string payload of a V / P object (hex form for invalid UTF-8)"""
    if d.get("hex"):
        return "hex:" + d["hex"]
    return d.get("s") or ""


def coq_sval(v):
    k = v["k"]
    if k == "null":
        return "SNull"
    if k == "bool":
        return "(SBool %s)" % ("true" if v.get("b") else "false")
    if k == "int":
        return "(SInt %s)" % coq_z(int(v["i"]))
    if k == "float":
        return "(SFloat %s)" % coq_float_bits(v["bits"])
    if k == "str":
        return "(SStr %s)" % coq_text(text_of(v))
    if k == "arr":
        return "SOther"
    return None


def coq_gval(kind, p, tname=None):
    """Go value of dynamic TYPE (a predeclared kind name, or one of the harness's defined types) with
    payload p; tname = reflect's type string when observed (main.Name for a defined type)"""
    if tname in GOTYPE:
        kind = GOTYPE[tname]
    t = CK.get(kind, "KOther")
    base = NAMED.get(kind, kind)
    if base == "string":
        return "(GStr %s %s)" % (t, coq_text(text_of(p)))
    if base == "bool":
        return "(GBool %s %s)" % (t, "true" if p.get("b") else "false")
    if base in BOUNDS:
        return "(GNum %s %s)" % (t, coq_z(int(p.get("i") or "0")))
    if base in ("float32", "float64"):
        return "(GFlt %s %s)" % (t, coq_float_bits(p.get("bits") or "0"))
    return "GOth"


def coq_oracle(o):
    pf = coq_list("(%s, %s)" % (coq_text(s), "None" if b == "" else "(Some %s)" % coq_float_bits(b)) for s, b in o["pf"])
    ff = coq_list("(%s, %s)" % (coq_float_bits(b), coq_text(s)) for b, s in o["ff"])
    fg = coq_list("(%s, %s)" % (coq_float_bits(b), coq_text(s)) for b, s in o.get("fg") or [])
    f32 = coq_list("(%s, %s)" % (coq_float_bits(a), coq_float_bits(b)) for a, b in o["f32"])
    return "{| o_pf := %s; o_ff := %s; o_fg := %s; o_f32 := %s |}" % (pf, ff, fg, f32)


def coq_res(o):
    if o["out"] == "val":
        v = o["v"]
        if v["k"] == "other":
            return "RText"
        return "(RVal %s)" % coq_sval(v)
    if o["out"] == "nil":
        return "RNil"
    if o["out"] == "throw":
        return "RThrow"
    return "RPanic"


def script_lit(v):
    k = v["k"]
    if k == "null":
        return "null"
    if k == "bool":
        return "true" if v["b"] else "false"
    if k == "int":
        return v["i"] if int(v["i"]) > -2 ** 63 else None
    if k == "float":
        x = struct.unpack("<d", struct.pack("<Q", int(v["bits"])))[0]
        if x != x or abs(x) == float("inf") or (x == 0 and int(v["bits"]) >> 63) or abs(x) >= 1e15 or (x != 0 and abs(x) < 1e-4):
            return None
        t = repr(x)
        return t if "e" not in t else None
    if k == "str":
        s = v.get("s", "")
        return "'%s'" % s if not any(ch in s for ch in "'\\$\n{") and not v.get("hex") else None
    return None


def sval_of_payload(kind, p):
    """the script value a Go result of this kind/payload is expected to come back as"""
    base = NAMED.get(kind, kind)
    if base == "string":
        return S(p.get("s") or "")
    if base == "bool":
        return B(bool(p.get("b")))
    if base in BOUNDS:
        return I(int(p["i"]))
    x = struct.unpack("<d", struct.pack("<Q", int(p["bits"])))[0]
    return F(x)


def coq_case(c, o):
    if c["k"] == "sfunc":
        retv = "(Some %s)" % coq_gval(c["ret"], c["retv"])
        got = coq_list(coq_gval(g["kind"], g["p"], g.get("type")) for g in (o.get("got") or []))
        res = {"same": "(RVal %s)" % coq_sval(c["expect_v"]), "different": "(RVal SOther)", "throw": "RThrow"}.get(o["out"], "RPanic")
        return "CCall %s %s %s %s %s %s" % (coq_list(CK[p] for p in c["params"]), coq_list(coq_sval(a) for a in c["args"]),
                                            retv, coq_oracle(o["orc"]), got, res)
    if c["k"] == "ctor":
        got = coq_list(coq_gval(g["kind"], g["p"], g.get("type")) for g in (o.get("got") or []))
        return "CCtor %s %s %s %s %s" % (coq_list(CK[p] for p in (KFIELDS if c.get("m") == "K6" else KFIELDS[:5])), coq_list(coq_sval(a) for a in c["args"]), coq_oracle(o["orc"]), got, coq_res(o))
    if c["k"] == "generic":
        if o["out"] == "go":
            ob = "(GGo %s)" % coq_gval(o["gv"]["kind"], o["gv"]["p"], o["gv"].get("type"))
        elif o["out"] == "throw":
            ob = "GThrow"
        else:
            ob = "GPanic"
        return "CGen %s %s %s %s" % (CK[c["t"]], coq_sval(c["v"]), coq_oracle(o["orc"]), ob)
    if c["k"] == "method":
        params, ret = METHODS[c["m"]]
    else:
        params, ret = c["params"], c["ret"]
    retv = "None" if not ret else "(Some %s)" % coq_gval(ret, c.get("retv") or {})
    got = coq_list(coq_gval(g["kind"], g["p"], g.get("type")) for g in (o.get("got") or []))
    return "CCall %s %s %s %s %s %s" % (coq_list(CK[p] for p in params), coq_list(coq_sval(a) for a in c["args"]),
                                        retv, coq_oracle(o["orc"]), got, coq_res(o))


def run_impl(binary, cases):
    inp = "\n".join(json.dumps(c) for c in cases) + "\n"
    p = subprocess.run([binary], input=inp, stdout=subprocess.PIPE, stderr=subprocess.PIPE, text=True, timeout=900)
    outs = [json.loads(l) for l in p.stdout.splitlines() if l.strip()]
    return outs, p.returncode, p.stderr


BIG = "x" * 65536


def arg_pool(kind, rng):
    if kind in NAMED:
        return arg_pool(NAMED[kind], rng)
    return arg_pool0(kind, rng)


def arg_pool0(kind, rng):
    """script values aimed at a parameter of this kind: matching boundary values, values just
    outside the range, and values of other kinds"""
    if kind == "string":
        return [S(""), S("a"), S("日本"), {"k": "str", "s": "", "hex": "fffe41"}, S("1.5"), I(7), F(1.5), B(True), N, A]
    if kind == "bool":
        return [B(True), B(False), I(0), I(-1), S(""), S("x"), N, F(0.0), A]
    if kind in BOUNDS:
        lo, hi = BOUNDS[kind]
        vals = [0, 1, -1, lo, hi, lo - 1, hi + 1, 2 ** 63 - 1, -2 ** 63]
        out = [I(v) for v in vals if -2 ** 63 <= v <= 2 ** 63 - 1]
        return out + [F(1.5), F(-0.0), F(3e9), S("12"), B(True), N, A]
    if kind == "float32":
        return [F(0.0), F(-0.0), F(1.5), F(0.1), F(3.4028234663852886e38), F(3.5e38), F(1e308), F(1e-46), F(float("inf")),
                F(float("nan")), I(16777217), S("2.5"), S("x"), N, B(True), A]
    if kind == "float64":
        return [F(0.0), F(-0.0), F(1.5), F(5e-324), F(1.7976931348623157e308), F(float("-inf")), F(float("nan")),
                I(2 ** 53 + 1), I(-3), S("2.5"), S("x"), N, B(False), A]
    return [A, I(1)]


def ret_pool(kind):
    if kind in NAMED:
        return ret_pool(NAMED[kind])
    if kind == "":
        return [None]
    if kind == "string":
        return [{"s": ""}, {"hex": "c328"}, {"s": "héllo"}]
    if kind == "bool":
        return [{"b": True}, {"b": False}]
    if kind in BOUNDS:
        lo, hi = BOUNDS[kind]
        return [{"i": str(v)} for v in sorted(set([0, lo, hi, min(hi, 2 ** 63 - 1), min(hi, 2 ** 63)]))]
    if kind == "float32":
        return [{"bits": fbits(1.5)}, {"bits": fbits(3.4028234663852886e38)}, {"bits": fbits(float("nan"))}]
    if kind == "float64":
        return [{"bits": fbits(-0.0)}, {"bits": fbits(5e-324)}, {"bits": fbits(float("inf"))}]
    return [None]


def gen_cases(ck):
    rng = ck.rng
    quick = ck.tier == "quick"
    cases = []
    # arity 0 and 1: every kind x every pool value x every result kind/value
    for ret in [""] + KINDS + ["slice"]:
        for rv in ret_pool(ret):
            cases.append({"k": "func", "params": [], "ret": ret, "retv": rv, "args": []})
    for p in KINDS + ["slice"]:
        for a in arg_pool(p, rng):
            for ret in ["", "int64", "uint64", "float32", "string"]:
                cases.append({"k": "func", "params": [p], "ret": ret, "retv": ret_pool(ret)[-1], "args": [a]})
    # arity 2 and 3: every signature, arguments sampled from the pools (matching-biased)
    for n in (2, 3):
        for sig in itertools.product(KINDS, repeat=n):
            reps = 1 if (quick and n == 3) else 2
            for _ in range(reps):
                args = []
                for p in sig:
                    pool = arg_pool(p, rng)
                    args.append(pool[rng.randrange(len(pool))] if rng.random() < 0.35 else pool[rng.randrange(min(5, len(pool)))])
                ret = rng.choice([""] + KINDS)
                cases.append({"k": "func", "params": list(sig), "ret": ret, "retv": rng.choice(ret_pool(ret)), "args": args})
    # POSITION matrix: for every signature of arity 2 and 3 over {int, float64, string, bool} and every
    # result kind among them, for every argument position ONE argument that is not of the parameter's
    # script sort (needs conversion or must be rejected) while all the other arguments are exactly of
    # their parameter's sort (distinct values, so that a mixed-up or zeroed argument shows)
    core = ["int", "float64", "string", "bool"]
    exact = {"int": [I(3), I(5), I(7)], "float64": [F(2.5), F(-0.75), F(8.25)], "string": [S("x"), S("yy"), S("zzz")], "bool": [B(True), B(True), B(False)]}
    sort_of = {"int": "int", "float64": "float", "string": "str", "bool": "bool"}
    off_pool = [I(2), F(2.9), S("abc"), S("12"), B(True), N, A]
    for n in (2, 3):
        for sig in itertools.product(core, repeat=n):
            for pos in range(n):
                for off in off_pool:
                    if off["k"] == sort_of[sig[pos]]:
                        continue
                    args = [off if i == pos else exact[p][i] for i, p in enumerate(sig)]
                    for ret in core:
                        if quick and n == 3 and ret != sig[0] and rng.random() < 0.5:
                            continue
                        cases.append({"k": "func", "params": list(sig), "ret": ret, "retv": ret_pool(ret)[-1], "args": args})
            for ret in core:      # and all arguments exact
                cases.append({"k": "func", "params": list(sig), "ret": ret, "retv": ret_pool(ret)[-1], "args": [exact[p][i] for i, p in enumerate(sig)]})
    # DEFINED types (type Name string, Flag bool, Celsius float64, Level int, Small int8, Ratio float32):
    # same kinds, different types — reflect.Call needs the exact type
    for p in NAMED:
        for a in arg_pool(p, rng):
            for ret in ["", p, "int"]:
                cases.append({"k": "func", "params": [p], "ret": ret, "retv": ret_pool(ret)[-1], "args": [a]})
    for sig in itertools.product(list(NAMED) + ["int", "string"], repeat=2):
        args = [rng.choice(arg_pool(p, rng)[:5]) for p in sig]
        cases.append({"k": "func", "params": list(sig), "ret": rng.choice(list(NAMED)), "retv": None, "args": args})
    # too few and too many arguments: a missing argument is a null slot, surplus arguments are ignored
    for p in KINDS:
        cases.append({"k": "func", "params": [p], "ret": "", "retv": None, "args": []})
        cases.append({"k": "func", "params": [p, "int"], "ret": "", "retv": None, "args": [arg_pool(p, rng)[0]]})
        cases.append({"k": "func", "params": [p], "ret": "", "retv": None, "args": [arg_pool(p, rng)[0], I(9), S("extra")]})
    cases.append({"k": "func", "params": [], "ret": "int", "retv": {"i": "1"}, "args": [I(1), I(2)]})
    # the call written as SCRIPT text `c17_ok(f(<literals>) === <literal>);` (lexer, parser, call node,
    # strict identity of type and value on the script side)
    for p in KINDS + list(NAMED):
        for a in arg_pool(p, rng):
            la = script_lit(a)
            if la is None:
                continue
            for ret in ("int", "string", "bool", "float64", "int8", "uint16", "float32", "Name", "Level"):
                rv = ret_pool(ret)[-1] if ret != "float64" else {"bits": fbits(2.5)}
                if ret == "float32":
                    rv = {"bits": fbits(1.5)}
                ev = sval_of_payload(ret, rv)
                le = script_lit(ev)
                if le is None or rng.random() < 0.5:
                    continue
                cases.append({"k": "sfunc", "params": [p], "ret": ret, "retv": rv, "args": [a], "lits": [la], "expect": le, "expect_v": ev})
    # arguments with a HISTORY: the variable held v1, then v2 was assigned; the Go function must receive
    # v2 (0.0 / -0.0, 1 / 1.0, '1' / 1, true / 1, null / 0 ... : equal under ==, different values)
    def hlit(v):
        if v["k"] == "float" and int(v["bits"]) == 1 << 63:
            return "-0.0"
        return script_lit(v)
    hist = [F(0.0), F(-0.0), I(0), I(1), F(1.0), S("1"), S("0"), S(""), B(True), B(False), N, F(0.5), I(-1), F(-1.0)]
    for p in ("float64", "float32", "int", "string", "bool", "int8", "uint8", "Celsius"):
        for v1 in hist:
            for v2 in hist:
                if v1 == v2 or hlit(v1) is None or hlit(v2) is None:
                    continue
                zeros = v1 in (F(0.0), F(-0.0)) and v2 in (F(0.0), F(-0.0))
                if quick and not zeros and (hist.index(v1) + hist.index(v2) + len(p)) % 3:
                    continue        # quick tier: a third of the pairs (the signed zeros always)
                for route, pre, lit in (("lit", "$x = %s; $x = %s;\n" % (hlit(v1), hlit(v2)), "$x"),
                                        ("var", "$m = %s; $x = %s; $x = $m;\n" % (hlit(v2), hlit(v1)), "$x")):
                    cases.append({"k": "sfunc", "params": [p], "ret": "int", "retv": {"i": "7"}, "args": [v2], "lits": [lit], "expect": "7",
                                  "expect_v": I(7), "pre": pre, "hist": route})
    # unsupported parameter / result kinds (struct, map, slice, pointer, interface): a catchable error /
    # some text, never a crash; mixed with supported parameters (the error must come before the call)
    for u in UNSUPPORTED:
        for a in (A, I(1), S("x"), N):
            cases.append({"k": "func", "params": [u], "ret": "", "retv": None, "args": [a]})
            cases.append({"k": "func", "params": ["int", u], "ret": "int", "retv": {"i": "1"}, "args": [I(1), a]})
            cases.append({"k": "func", "params": [u, "string"], "ret": "", "retv": None, "args": [a, S("s")]})
        cases.append({"k": "func", "params": [], "ret": u, "retv": None, "args": []})
    cases.append({"k": "func", "params": [], "ret": "error", "retv": None, "args": []})
    # several results: only the first one is converted (a second `error` result is ignored: not documented)
    for ret in ("int", "string", "int8", "float32", "uint64"):
        for ret2 in ("error", "int", "string"):
            for rv in ret_pool(ret)[:2]:
                cases.append({"k": "func", "params": ["int"], "ret": ret, "ret2": ret2, "retv": rv, "args": [I(3)]})
    # a 64 KiB string through a string parameter and back
    cases.append({"k": "func", "params": ["string"], "ret": "string", "retv": {"s": BIG}, "args": [S(BIG)]})
    # struct methods
    for m, (params, ret) in METHODS.items():
        pools = [arg_pool(p, rng) for p in params]
        for combo in itertools.product(*pools) if len(params) <= 1 else [tuple(rng.choice(pl) for pl in pools) for _ in range(40)]:
            for rv in ret_pool(ret)[:2]:
                cases.append({"k": "method", "m": m, "args": list(combo), "retv": rv})
    # position matrix on the METHOD path: each multi-parameter method, each position holding the one
    # off-sort argument (others exact), and the all-exact call
    exact_m = dict(exact, int8=[I(3), I(5), I(7)], uint8=[I(3), I(5), I(7)])
    sort_m = dict(sort_of, int8="int", uint8="int")
    for m, (params, ret) in METHODS.items():
        if len(params) < 2:
            continue
        rv = ret_pool(ret)[-1]
        cases.append({"k": "method", "m": m, "args": [exact_m[p][i] for i, p in enumerate(params)], "retv": rv})
        for pos in range(len(params)):
            for off in off_pool + [I(300), I(-200)]:
                if off["k"] == sort_m[params[pos]] and params[pos] not in ("int8", "uint8"):
                    continue
                cases.append({"k": "method", "m": m, "args": [off if i == pos else exact_m[p][i] for i, p in enumerate(params)], "retv": rv})
    # the reflected CONSTRUCTOR new C17K(..): 0..6 arguments; all of their field's sort; each position in
    # turn holding a value of every other sort / a boundary value; the unsettable int8 field
    kexact = [S("s"), I(5), I(2 ** 62), F(1.5), B(True)]
    for n in range(0, 6):
        cases.append({"k": "ctor", "args": kexact[:n]})
    cpool = [N, B(True), B(False), I(0), I(-7), I(2 ** 63 - 1), I(-2 ** 63), F(0.0), F(-0.0), F(2.9), F(-2.9), F(1e19), F(float("nan")), F(float("inf")),
             S(""), S("abc"), S("12"), S("1.5"), S("日本"), A]
    for pos in range(5):
        for v in cpool:
            cases.append({"k": "ctor", "args": [v if i == pos else kexact[i] for i in range(5)]})
            cases.append({"k": "ctor", "args": [v if i == pos else kexact[i] for i in range(pos + 1)]})
    for v in (I(1), I(300), N, S("x")):
        cases.append({"k": "ctor", "args": kexact + [v]})            # surplus arguments are ignored
        cases.append({"k": "ctor", "args": kexact + [v, I(9)]})
        cases.append({"k": "ctor", "m": "K6", "args": kexact + [v]})  # the int8 field cannot be set
    for n in range(0, 6):
        cases.append({"k": "ctor", "m": "K6", "args": kexact[:n]})   # ... not even with null (missing)
    for _ in range(200 if quick else 5000):
        cases.append({"k": "ctor", "args": [rng.choice(cpool) for _ in range(rng.randint(0, 7))]})
    # generic converter: every T x every scalar pool value
    gvals = [I(0), I(1), I(-1), I(127), I(128), I(-129), I(255), I(256), I(65535), I(65536), I(2 ** 31 - 1), I(2 ** 31), I(-2 ** 31 - 1),
             I(2 ** 32), I(2 ** 63 - 1), I(-2 ** 63), I(2 ** 53 + 1), F(0.0), F(-0.0), F(1.5), F(-1.5), F(255.9), F(256.0), F(-0.5), F(3e9), F(1e19),
             F(1.8446744073709552e19), F(9.223372036854775808e18), F(-9.3e18), F(1e308), F(3.4028234663852886e38), F(3.5e38),
             F(float("inf")), F(float("nan")), B(True), B(False), S(""), S("abc"), S("12"), N, A]
    for t in KINDS:
        for v in gvals:
            cases.append({"k": "generic", "t": t, "v": v})
    if not quick:
        for _ in range(20000):
            t = rng.choice(KINDS)
            c = rng.random()
            v = I(rng.randint(-2 ** 63, 2 ** 63 - 1)) if c < 0.4 else (F(struct.unpack("<d", struct.pack("<Q", rng.getrandbits(64)))[0]) if c < 0.8 else I(rng.randint(-70000, 70000)))
            cases.append({"k": "generic", "t": t, "v": v})
    return cases


def check_conc(ck, conc, couts, cerr, suffix, stats):
    if len(couts) != len(conc):
        ck.log("concurrent section%s: %d results for %d cases\n%s" % (suffix, len(couts), len(conc), cerr[-2000:]))
        ck.broken.append("harness-run-concurrent" + suffix)
        return
    for c, o in zip(conc, couts):
        stats[c["mode"] + suffix] = {k: o.get(k, 0) for k in ("calls", "want", "bad", "failed")}
        replay = {"case": c, "impl": o}
        if o.get("out") != "conc":
            ck.violation("conc:%s%s:did-not-complete" % (c["mode"], suffix), replay)
        elif o.get("bad", 0) or o.get("failed", 0):
            # the Go function received a tuple no caller passed
            ck.violation("conc:%s%s:arguments-mixed" % (c["mode"], suffix), replay)
        elif o.get("calls") != o.get("want"):
            ck.violation("conc:%s%s:call-count" % (c["mode"], suffix), replay)


def main(ck):
    ck.trusted += [
        "reflect.Call requires each argument's dynamic type to be the parameter type (modelled: Crash otherwise); reflect.Value.Convert / OverflowInt / OverflowUint as documented",
        "Go library functions taken as parameters of the model (theorems quantify over them): strconv.ParseFloat, strconv.FormatFloat 'g' 14, fmt %g, float64->float32 conversion; measured per case by calling the library directly",
        "amd64 float64->int64 conversion rule (V.C03.Model.f2i)",
        "concurrent section: 8 goroutines / 8 spawned coroutines calling ONE registered function and ONE method of a registered struct with caller-tagged arguments, checked on the Go side, and the same under the race detector; a test, not a proof — it sees an interleaving defect only when the scheduler produces the interleaving (the seeded shared-buffer change mixes thousands of calls per run)",
        "harness/cmd/c17 (reflect.MakeFunc-built functions of every signature, struct T, ConvertFromIndex instantiations) and checks/C17.py",
        "struct/slice/map/pointer/interface parameters are one kind KOther (reported as unsupported); of several results only the first is converted (a second `error` result is dropped — docs/go-integration.md does not describe the reflective registration at all, so this is recorded as behaviour, not judged); not modelled: ConvertFromIndex for arrays, class instances and string->bool, properties of reflected classes",
    ]
    ok = ck.prove(deps=["C03"])
    binary, out = ck.go_build("c17")
    if binary is None:
        ck.broken.append("harness-build")
        ck.finish(evaluations=0, distinct_nontrivial=0, rule="harness did not build")
    if ck.replay:
        rp = json.load(open(ck.replay))
        cases = [rp["case"]] if "case" in rp else []
    else:
        cases = gen_cases(ck)
    outs, rc, err = run_impl(binary, cases)
    if len(outs) != len(cases):
        ck.log("harness returned %d results for %d cases rc=%d\n%s" % (len(outs), len(cases), rc, err[-2000:]))
        ck.broken.append("harness-run")
        ck.finish(evaluations=len(outs), distinct_nontrivial=0, rule="harness crashed")
    # ---- concurrent callers of one registered function / method (no Coq term: the Go side checks that
    # the arguments of every call come from one caller; the model's `call` is a function of its own
    # arguments only, so any mixture is a departure from it)
    conc_stats = {}
    if not ck.replay or (cases and cases[0].get("k") == "conc"):
        quick = ck.tier == "quick"
        conc = [{"k": "conc", "mode": m, "workers": 8, "iters": 4000 if quick else 40000} for m in ("go", "gomethod", "spawn", "spawnmethod")]
        if ck.replay:
            conc, cases, outs = cases, [], []
        couts, crc, cerr = run_impl(binary, conc)
        check_conc(ck, conc, couts, cerr, "", conc_stats)
        rbin, rout = ck.go_build("c17", race=True)
        if rbin is None:
            ck.broken.append("harness-build-race")
        else:
            rconc = [dict(c, iters=300 if quick else 3000, workers=4) for c in conc]
            routs, rrc, rerr = run_impl(rbin, rconc)
            check_conc(ck, rconc, routs, rerr, ":race", conc_stats)
            if "WARNING: DATA RACE" in rerr:
                mine = [b for b in rerr.split("==================") if "DATA RACE" in b and re.search(r"runtime/reflect_\w+\.go|utils/", b)]
                conc_stats["race_reports"] = rerr.count("WARNING: DATA RACE")
                conc_stats["race_reports_in_reflect_code"] = len(mine)
                if mine:
                    ck.violation("conc:data-race:reflect", {"case": rconc[0], "report": mine[0][:3000], "kind": "race detector"})
                else:
                    ck.notes.append("race detector reported %d race(s) outside the reflect/convert code during the concurrent section (not C17's subject)" % rerr.count("WARNING: DATA RACE"))
    ck.cov["concurrent"] = conc_stats
    terms = [coq_case(c, o) for c, o in zip(cases, outs)]
    bad = ck.eval_cases("cases", HEADER, terms, "check_case", shard=max(300, len(terms) // 15 + 1)) if terms else {}
    names = {1: "tie", 2: "value-changed", 3: "unrepresentable-not-reported", 4: "panic"}
    order = sorted(bad.items(), key=lambda kv: len(json.dumps(cases[kv[0]])))
    for j, cls in order:
        c, o = cases[j], outs[j]
        if c["k"] == "sfunc":
            base = "script:(%s)->%s:args=%s" % (",".join(c["params"]), c["ret"], "-".join(a["k"] for a in c["args"]))
        elif c["k"] == "generic":
            base = "generic:%s<-%s" % (c["t"], c["v"]["k"])
        elif c["k"] == "method":
            base = "method:%s:args=%s" % (c["m"], "-".join(a["k"] for a in c["args"]) or "none")
        elif c["k"] == "ctor":
            base = "ctor:args=%s" % ("-".join(a["k"] for a in c["args"]) or "none")
        else:
            base = "func:(%s)->%s:args=%s" % (",".join(c["params"]), c["ret"] or "void", "-".join(a["k"] for a in c["args"]) or "none")
        if len(json.dumps(c)) > 4000:
            c = dict(c, note="64 KiB string case (payload elided)", args=[], retv=None)
        for cl in cls:
            replay = {"case": c, "impl": {k: v for k, v in o.items() if k != "orc"} if len(json.dumps(o)) < 4000 else {"out": o["out"]},
                      "clause": names.get(cl, str(cl))}
            if cl == 1:
                if "correspondence:C17" not in ck.broken:
                    ck.broken.append("correspondence:C17")
                ck.violation("tie:" + base, replay)
            else:
                ck.violation(base + ":" + names.get(cl, str(cl)), replay)

    sigs = set()
    nontriv = set()
    for c in cases:
        if c["k"] in ("func", "sfunc"):
            sigs.add((tuple(c["params"]), c["ret"]))
            if c["params"]:
                nontriv.add(json.dumps(c, sort_keys=True)[:300])
        elif c["k"] == "generic":
            nontriv.add(json.dumps(c, sort_keys=True))
    ck.cov["distinct_signatures"] = len(sigs)
    ck.cov["case_kinds"] = {k: sum(1 for c in cases if c["k"] == k) for k in ("func", "method", "generic")}
    ck.cov["outcomes"] = {k: sum(1 for o in outs if o["out"] == k) for k in ("val", "nil", "throw", "panic", "go")}
    ck.samples = [cases[40], cases[len(cases) // 2], cases[-1]]
    ck.finish(level="proof", evaluations=len(cases), distinct_nontrivial=len(nontriv),
              rule="reflective path: every parameter kind (14 supported + an unsupported slice) x a per-kind pool (min, max, min-1, max+1 of the kind, 0, +-1, int64 limits, +-0.0, subnormal, float32 max / just above / 1e308, inf, NaN, empty, multi-byte, invalid UTF-8 and 64 KiB strings, values of every other script kind, null, array) x 5 result kinds at arity 1; every signature of arity 2 and 3 over the 14 kinds (196 + 2744) with pool-sampled arguments and a random result kind; POSITION matrix: every signature of arity 2 and 3 over {int, float64, string, bool} x result kind among them x every argument position holding one argument of another script sort (int, fractional float, non-numeric and numeric string, bool, null, array) while all other arguments are exactly of their parameter's sort; every result kind x boundary results at arity 0; 21 methods of a registered struct (nine with two or three parameters, with the position matrix); 17 defined types (six without methods, nine with String() / Error() / MarshalText(), time.Duration, time.Month) as parameters and results; the reflected constructor new T(args) on two structs (0-7 arguments, each position holding each of 20 values, surplus arguments, random tuples); arguments with a history ($x = v1; $x = v2; f($x)) for 14 values x 8 parameter kinds; CONCURRENT: 8 workers x 4 000 calls each of one registered function and of one struct method, from goroutines and from spawned script coroutines, arguments tagged per caller and checked in Go, repeated under -race (4 x 300); generic path: ConvertFromIndex[T] for all 14 T x 41 scalar/boundary values (thorough: + 20 000 random ints/floats); non-trivial = distinct call with at least one parameter, or distinct generic conversion",
              traces=len(terms))
