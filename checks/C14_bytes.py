"""C14 part 2: base64 / hex / URL byte codecs and the hash functions (std/php). See checks/C14.py."""
import os
import sys

sys.path.insert(0, os.path.dirname(os.path.abspath(__file__)))
from C14_common import cbytes, eval_balanced, exh_inputs, exh_eval

NAME = "bytes"
HEADER = ("From Coq Require Import List NArith ZArith Uint63.\nFrom V.C14 Require Import Hex Exh BytesModel BytesSpec BytesRun.\n"
          "Import ListNotations.\nOpen Scope N_scope.\n")

FNS = ["base64_encode", "base64_decode", "bin2hex", "urlencode", "urldecode", "rawurlencode", "rawurldecode"]
ENCODERS = {"base64_encode", "bin2hex", "urlencode", "rawurlencode"}
DECODER_OF = {"base64_decode": "base64_encode", "urldecode": "urlencode", "rawurldecode": "rawurlencode"}
CLAUSES = {1: "model<>impl", 2: "Go reference library<>impl", 3: "encoder output is not a text of the format",
           4: "decoder does not give the encoded string back", 5: "reference decoder does not read the output back"}


# python encoders, only to build mostly-valid decoder inputs
def py_encode(fn, b):
    import base64
    import urllib.parse
    if fn == "base64_encode":
        return base64.b64encode(b)
    if fn == "urlencode":
        return urllib.parse.quote_plus(b, safe="~").encode()
    if fn == "rawurlencode":
        return urllib.parse.quote(b, safe="~").encode()
    return b.hex().encode()


def rand_bytes(rng, n):
    mode = rng.random()
    if mode < 0.4:
        return bytes(rng.randrange(256) for _ in range(n))
    if mode < 0.6:
        pool = b" +%&=/?#~-_.:@$,;\\\"'<>\r\n\t\x00\x7f\x80\xff"
        return bytes(rng.choice(pool) for _ in range(n))
    if mode < 0.8:
        return bytes(rng.choice(b"abcXYZ019 +%") for _ in range(n))
    return "".join(rng.choice(["é", "漢", "😀", "a", " ", " "]) for _ in range(n)).encode()[:max(n, 1) * 4]


def mutate(rng, b, fn):
    b = bytearray(b)
    k = rng.choice(["trunc", "flip", "insert", "pct", "pad", "nl", "del"])
    if k == "trunc" and b:
        del b[rng.randrange(len(b)):]
    elif k == "flip" and b:
        b[rng.randrange(len(b))] ^= 1 << rng.randrange(8)
    elif k == "insert":
        b.insert(rng.randrange(len(b) + 1), rng.choice(b"=%+ \r\n-_~!A/") if rng.random() < 0.7 else rng.randrange(256))
    elif k == "pct":
        i = rng.randrange(len(b) + 1)
        b[i:i] = rng.choice([b"%", b"%4", b"%zz", b"%4g", b"%41", b"%e4", b"%E4%b8%AD", b"%%"])
    elif k == "pad":
        b += rng.choice([b"=", b"==", b"===", b"=A", b"A=", b"\n", b"=\n=", b"\r\n"])
    elif k == "nl" and b:
        i = rng.randrange(len(b) + 1)
        b[i:i] = rng.choice([b"\n", b"\r\n", b"\r"])
    elif k == "del" and b:
        del b[rng.randrange(len(b))]
    return bytes(b), k


def bout(o, key="out", kindkey="kind"):
    if key in o:
        return "(OStr %s)" % cbytes(bytes.fromhex(o[key]))
    if o.get(kindkey) == "false":
        return "OFalse"
    return "OOther"


def ref_out(fn, c, o):
    r = o.get("ref")
    if r == "false":
        if fn in ("urldecode", "rawurldecode"):
            return "(OStr %s)" % cbytes(bytes.fromhex(c["hex"]))     # documented fallback: input unchanged
        return "OFalse"
    if r is None:
        return "OOther"
    return "(OStr %s)" % cbytes(bytes.fromhex(r))


def code(o):
    if "out" in o:
        return b"\x01" + bytes.fromhex(o["out"])
    if o.get("kind") == "false":
        return b"\x00"
    return b"\x02"


def run(ck, binary, run_impl, replay):
    rng = ck.rng
    quick = ck.tier == "quick"
    # every 1- and 2-byte input: the three decoders on every run, the four encoders too in the thorough tier
    # (the quick tier gives the encoders every byte value in fixed contexts, boundary lengths and seeded strings)
    EXH_FNS = [f for f in FNS if f not in ENCODERS] if quick else list(FNS)
    cases = []
    hashes = []
    exh = []
    if replay is not None:
        c = replay["case"]
        if c.get("f") in ("md5", "hash"):
            hashes = [c]
        else:
            cases = [dict(c, _orig=bytes.fromhex(replay["orig"]) if replay.get("orig") else None, _origin="replay")]
    else:
        n = 260 if quick else 6000
        for i in range(n):
            ln = rng.choice([0, 1, 2, 3, 4, 5, 6, 7, 8, 9, 15, 16, 17, 57, 63, 64, 65, 255, 256, 1000, 4096]) \
                if rng.random() < 0.5 else rng.randint(0, 40)
            if quick and ln > 300 and rng.random() < 0.8:
                ln = rng.randint(0, 300)
            s = rand_bytes(rng, ln)[:4096]
            for fn in sorted(ENCODERS):
                cases.append({"k": "bytes", "f": fn, "hex": s.hex(), "_orig": None, "_origin": "enc"})
            for dfn, efn in DECODER_OF.items():
                e = py_encode(efn, s)
                cases.append({"k": "bytes", "f": dfn, "hex": e.hex(), "_orig": s, "_origin": "dec-valid"})
                m, kind = mutate(rng, e, dfn)
                cases.append({"k": "bytes", "f": dfn, "hex": m[:4096].hex(), "_orig": None, "_origin": "dec-mut:" + kind})
                if rng.random() < 0.3:
                    r = rand_bytes(rng, min(ln, 64))
                    cases.append({"k": "bytes", "f": dfn, "hex": r.hex(), "_orig": None, "_origin": "dec-raw"})
        # buffer / chunk boundaries, every run: lengths around powers of two up to 4 KiB through every
        # encoder, and the decoders on the valid encodings of those strings
        for ln in (1023, 1024, 1025, 2048, 2049, 4096):
            s = bytes((i * 37 + ln) & 0xff for i in range(ln))
            for fn in sorted(ENCODERS):
                cases.append({"k": "bytes", "f": fn, "hex": s.hex(), "_orig": None, "_origin": "enc-boundary"})
            for dfn, efn in DECODER_OF.items():
                e = py_encode(efn, s)
                cases.append({"k": "bytes", "f": dfn, "hex": e.hex(), "_orig": s, "_origin": "dec-boundary"})
        # all 256 single bytes inside a longer context for the escapers / decoders
        for b in range(256):
            s = b"a" + bytes([b]) + b"z"
            for fn in FNS:
                cases.append({"k": "bytes", "f": fn, "hex": s.hex(), "_orig": None, "_origin": "ctx"})
            for x in (b"%" + bytes([b]) + b"0", b"%4" + bytes([b]), b"QUJ" + bytes([b]), b"QQ=" + bytes([b])):
                for fn in ("urldecode", "rawurldecode", "base64_decode"):
                    cases.append({"k": "bytes", "f": fn, "hex": x.hex(), "_orig": None, "_origin": "ctx"})
        for fn in EXH_FNS:
            for b in exh_inputs():
                exh.append({"k": "bytes", "f": fn, "hex": b.hex()})
        # hashes: harness-only comparison with crypto/* (no model: pure delegation)
        for i in range(40 if quick else 400):
            s = rand_bytes(rng, rng.choice([0, 1, 55, 56, 63, 64, 65, 119, 120, 1000]) if i % 2 else rng.randint(0, 80))
            hashes.append({"k": "bytes", "f": "md5", "hex": s.hex()})
            # every algorithm name hash() accepts (std/php/hash.go), and names it must refuse
            for algo in ("md5", "sha1", "sha-1", "sha256", "sha-256", "sha2_256", "sha512", "sha-512", "sha2_512",
                         "sha3-256", "sha3-512"):
                hashes.append({"k": "bytes", "f": "hash", "hex": s.hex(), "extra": {"algo": algo}})
            if i < 6:
                # names of PHP's hash_algos() that hash.go does not implement, and non-names: refusal required
                for algo in ("xxh3", "xxh32", "xxh64", "xxh128", "crc32", "crc32b", "crc32c", "md4", "md2", "sha224", "sha384",
                             "sha512/256", "sha3-224", "sha3-384", "ripemd160", "whirlpool", "adler32", "fnv132", "joaat", "murmur3a",
                             "no-such-algo", "", "MD5", "sha256 "):
                    hashes.append({"k": "bytes", "f": "hash", "hex": s.hex(), "extra": {"algo": algo, "expect": "throw"}})

    def strip(c):
        return {k: v for k, v in c.items() if not k.startswith("_")}

    ck.log("bytes: %d cases, %d hash cases, %d exhaustive short inputs" % (len(cases), len(hashes), len(exh)))
    outs = run_impl(ck, binary, [strip(c) for c in cases] + hashes + exh)
    if len(outs) != len(cases) + len(hashes) + len(exh):
        ck.broken.append("harness-run:bytes")
        return {"evaluations": len(outs), "nontrivial": 0, "traces": 0, "rule": "bytes: harness crashed"}
    o_cases = outs[:len(cases)]
    o_hash = outs[len(cases):len(cases) + len(hashes)]
    o_exh = outs[len(cases) + len(hashes):]
    ck.log("bytes: implementation ran")

    def crashed(o):
        return o.get("panic") or o.get("hang") or o.get("died") or o.get("err") or o.get("harness_error")

    # ---- verbose cases
    terms, idx = [], []
    for i, (c, o) in enumerate(zip(cases, o_cases)):
        fn = c["f"]
        if crashed(o):
            ck.violation("bytes:%s:crash" % fn, {"part": NAME, "case": strip(c), "impl_out": o,
                                                 "clause": "total: never crashes / hangs / throws"})
            continue
        if fn in ENCODERS and o.get("refback") is not True:
            ck.violation("bytes:%s:clauses=5" % fn, {"part": NAME, "case": strip(c), "impl_out": o, "clause": CLAUSES[5]})
        orig = "None" if c.get("_orig") is None else "(Some %s)" % cbytes(c["_orig"])
        terms.append("{| b_fn := %d; b_in := %s; b_out := %s; b_ref := %s; b_orig := %s |}" % (
            FNS.index(fn), cbytes(bytes.fromhex(c["hex"])), bout(o), ref_out(fn, c, o), orig))
        idx.append(i)
    bad = eval_balanced(ck, "bytes", HEADER, terms, "check_bytes")
    for j, cls in sorted(bad.items(), key=lambda kv: len(cases[idx[kv[0]]]["hex"])):
        c, o = cases[idx[j]], o_cases[idx[j]]
        key = "bytes:%s:clauses=%s" % (c["f"], "".join(map(str, cls)))
        rp = {"part": NAME, "case": strip(c), "impl_out": o, "clause": [CLAUSES[x] for x in cls]}
        if c.get("_orig") is not None:
            rp["orig"] = c["_orig"].hex()
        ck.violation(key, rp)
    ck.log("bytes: coq evaluated")

    # ---- exhaustive 1- and 2-byte inputs, all seven functions
    if exh:
        nper = len(exh_inputs())
        codes_list = []
        for k, fn in enumerate(EXH_FNS):
            sub_c = exh[k * nper:(k + 1) * nper]
            sub_o = o_exh[k * nper:(k + 1) * nper]
            codes = []
            for c, o in zip(sub_c, sub_o):
                if crashed(o):
                    ck.violation("bytes:%s:crash" % fn, {"part": NAME, "case": c, "impl_out": o,
                                                         "clause": "total: never crashes / hangs / throws"})
                if fn in ENCODERS and o.get("refback") is not True:
                    ck.violation("bytes:%s:clauses=5" % fn, {"part": NAME, "case": c, "impl_out": o, "clause": CLAUSES[5]})
                # reference library on the same input
                r = o.get("ref")
                same = (r == o.get("out")) or (r == "false" and (o.get("kind") == "false" or
                                                                 (fn in ("urldecode", "rawurldecode") and o.get("out") == c["hex"])))
                if not same:
                    ck.violation("bytes:%s:clauses=2" % fn, {"part": NAME, "case": c, "impl_out": o, "clause": CLAUSES[2]})
                codes.append(code(o))
            codes_list.append(codes)
        fails = exh_eval(ck, "bytes_exh", HEADER, ["(bytes_exh %d)" % FNS.index(fn) for fn in EXH_FNS], codes_list)
        for k, fn in enumerate(EXH_FNS):
            for i in fails[k][:5]:
                ck.violation("bytes:%s:clauses=1" % fn, {"part": NAME, "case": exh[k * nper + i], "impl_out": o_exh[k * nper + i],
                                                         "clause": CLAUSES[1]})
        ck.log("bytes: exhaustive short inputs evaluated")

    # ---- hashes
    for c, o in zip(hashes, o_hash):
        if c.get("extra", {}).get("expect") == "throw":
            if not str(o.get("err", "")).startswith("throw"):
                ck.violation("hash:hash:unknown-algorithm-accepted", {"part": NAME, "case": c, "impl_out": o,
                                                                     "clause": "an algorithm name that is not implemented must be refused"})
            continue
        if crashed(o) or o.get("out") != o.get("ref"):
            algo = c.get("extra", {}).get("algo", "md5") if c["f"] == "hash" else "md5"
            ck.violation("hash:%s:%s" % (c["f"], algo), {"part": NAME, "case": c, "impl_out": o,
                                                         "clause": "digest differs from crypto/* reference"})

    origins = {}
    for c in cases:
        k = c["f"] + ":" + c["_origin"].split(":")[0]
        origins[k] = origins.get(k, 0) + 1
    lens = {}
    for c in cases:
        n = len(c["hex"]) // 2
        b = "0-2" if n <= 2 else ("3-16" if n <= 16 else ("17-256" if n <= 256 else "257-4096"))
        lens[b] = lens.get(b, 0) + 1
    ck.cov["bytes_case_distribution"] = origins
    ck.cov["bytes_input_length_distribution"] = lens
    ck.cov["bytes_exhaustive_short_inputs"] = len(exh)
    ck.cov["hash_cases_harness_only"] = len(hashes)
    if cases:
        ck.samples.append({"bytes_case": strip(cases[len(cases) // 2])})
    nontriv = len(set((c["f"], c["hex"]) for c in cases if len(c["hex"]) >= 6))
    return {"evaluations": len(cases) + len(exh) + len(hashes), "nontrivial": nontriv,
            "traces": len(terms) + len(exh),
            "rule": "bytes: for each of 7 functions all 1- and 2-byte inputs; seeded strings over all 256 byte values "
                    "(random, URL-special, ASCII, multi-byte UTF-8; lengths 0..4096) through the encoders; decoders on "
                    "valid encodings, one mutant each (truncate, bit flip, insert, broken %-escape, padding, newline, delete) and "
                    "raw strings; every byte value in 5 fixed contexts; non-trivial = distinct (function, input) of >= 3 bytes; "
                    "md5/hash compared with crypto/* in the harness only"}
