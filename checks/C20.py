"""C20 — sequential programs are deterministic, enumerate in insertion order, and leave nothing
behind for the next VM.

Proof: coq/C20 (OrderedMap refinement; oracle independence of the map-ranging sites; frame theorem
for process-level state).
Tie / search (harness/cmd/c20, harness/cmd/c20walk, the built interpreter):
  om      op sequences on the real data.OrderedMap                     vs model and spec
  find    repeated GetClass on a real VM with colliding class names    vs find_ci, determinism
  classes generated class hierarchies: `new C` enumeration, ReflectionClass::getMethods,
          runtime.ReflectClass listings, repeated in fresh VMs         vs instantiate / get_methods
  script  op sequences on string-keyed arrays / objects at script level vs the alist spec
  probes  generated programs of labelled probe lines, repeated in fresh VMs and fresh processes
  corpus  deterministic files of /repo/tests and /repo/examples, repeated in fresh processes
  pairs   (A;B) vs (B) in separate child processes                     vs the state-cell table
  sites   go/types inventory of range-over-map statements in runtime/, node/, data/
"""
import itertools
import json
import os
import re
import subprocess
import time

import vcheck
from vcheck import coq_string, coq_list, coq_z, coq_bool, coq_option

HEADER = ("From Coq Require Import List String ZArith.\nImport ListNotations.\n"
          "From V.C20 Require Import Model Spec Abs Run.\nOpen Scope string_scope.\nOpen Scope Z_scope.\n")

# ---------------------------------------------------------------------------- helpers


def run_engine(binary, cases, timeout=900, cwd=None):
    inp = "\n".join(json.dumps(c) for c in cases) + "\n"
    p = subprocess.run([binary], input=inp, stdout=subprocess.PIPE, stderr=subprocess.PIPE, text=True,
                       timeout=timeout, cwd=cwd)
    outs = []
    for l in p.stdout.splitlines():
        l = l.strip()
        if l.startswith("{"):
            try:
                outs.append(json.loads(l))
            except ValueError:
                pass
    return outs, p.returncode, p.stderr


def cs(s):
    return coq_string(s)


def coq_slist(l):
    return coq_list(cs(x) for x in l)


# ---------------------------------------------------------------------------- (1) OrderedMap
OM_KEYS = ["a", "b", "c", "A", ""]


def om_pool():
    pool = []
    for k in ("a", "b"):
        pool.append(["set", k, 1])
        pool.append(["del", k])
        pool.append(["get", k])
    pool.append(["set", "a", 2])
    pool.append(["getz", "b"])
    pool.append(["range", -1])
    pool.append(["range", 0])
    pool.append(["len"])
    pool.append(["idx", 0])
    pool.append(["idx", 1])
    return pool


def om_rand_op(rng):
    k = rng.choice(["set", "set", "set", "set", "del", "del", "get", "getz", "range", "len", "idx"])
    if k == "set":
        return [k, rng.choice(OM_KEYS), rng.randint(-3, 9)]
    if k in ("del", "get", "getz"):
        return [k, rng.choice(OM_KEYS)]
    if k == "range":
        return [k, rng.choice([-1, -1, 0, 1, 2, 5])]
    if k == "idx":
        return [k, rng.randint(-2, 6)]
    return [k]


def coq_om_op(o):
    k = o[0]
    if k == "set":
        return "OSet %s %s" % (cs(o[1]), coq_z(o[2]))
    if k == "get":
        return "OGet %s" % cs(o[1])
    if k == "getz":
        return "OGetZ %s" % cs(o[1])
    if k == "del":
        return "ODelete %s" % cs(o[1])
    if k == "range":
        return "ORange %s" % ("None" if o[1] < 0 else "(Some %d%%nat)" % o[1])
    if k == "len":
        return "OLen"
    if k == "idx":
        return "OIdx %s" % coq_z(o[1])
    raise ValueError(k)


def coq_kv(p):
    return "(%s, %s)" % (cs(p[0]), coq_z(p[1]))


def coq_om_res(r):
    if "u" in r:
        return "RUnit"
    if "v" in r:
        return "RVal %s" % coq_option(None if r["v"] is None else coq_z(r["v"]))
    if "l" in r:
        return "RList %s" % coq_list(coq_kv(p) for p in r["l"])
    if "n" in r:
        return "RLen %d%%nat" % r["n"]
    if "i" in r:
        return "RIdx %s" % coq_option(None if r["i"] is None else coq_kv(r["i"]))
    raise ValueError(r)


# ---------------------------------------------------------------------------- (2a) class lookup
NAME_POOL = ["Foo", "FOO", "foo", "fOO", "Bar", "BAR", "bar", "Baz", "Qux_1", "QUX_1", "N\\Foo", "n\\foo", "Zed"]
LOOKUP_EXTRA = ["FoO", "bAR", "baz", "BAZ", "qux_1", "N\\FOO", "nope", "zed", "ZED"]


# ---------------------------------------------------------------------------- (2b) generated classes
PROP_NAMES = ["x", "y", "z", "w", "a", "b", "id", "name", "p1", "p2", "k", "v"]
METH_NAMES = ["run", "get", "set", "alpha", "beta", "gamma", "m1", "m2", "zeta", "apply", "Bx", "aY"]


def gen_hierarchy(rng, depth):
    """list of classes, most-derived first; each = {name, props:[(n, default|None)], methods:[..], ctor:bool}"""
    levels = []
    for d in range(depth):
        np = rng.randint(1, 7)
        props = [(n, (rng.randint(0, 9) if rng.random() < 0.8 else None)) for n in rng.sample(PROP_NAMES, np)]
        nm = rng.randint(0, 6)
        meths = rng.sample(METH_NAMES, nm)
        levels.append({"name": "K%d" % d, "props": props, "methods": meths, "ctor": rng.random() < 0.4})
    return levels


def php_hierarchy(levels, news=3):
    """source: classes declared base-first; probes print one labelled line each"""
    src = ["<?php"]
    n = len(levels)
    for i in range(n - 1, -1, -1):
        c = levels[i]
        ext = (" extends %s" % levels[i + 1]["name"]) if i + 1 < n else ""
        body = []
        for (p, d) in c["props"]:
            body.append("public $%s%s;" % (p, "" if d is None else " = %d" % d))
        if c["ctor"]:
            body.append("function __construct() {}")
        for m in c["methods"]:
            body.append("function %s() {}" % m)
        src.append("class %s%s { %s }" % (c["name"], ext, " ".join(body)))
    for i in range(n):
        c = levels[i]
        for _ in range(news):
            src.append("$o = new %s(); $ks = []; foreach ($o as $k => $v) { $ks[] = $k; } echo \"I:%d\\t\", json_encode($ks), \"\\n\";" % (c["name"], i))
        src.append("echo \"M:%d\\t\", json_encode((new ReflectionClass('%s'))->getMethods()), \"\\n\";" % (i, c["name"]))
        src.append("echo \"M:%d\\t\", json_encode((new ReflectionClass('%s'))->getMethods()), \"\\n\";" % (i, c["name"]))
    return "\n".join(src) + "\n"


def coq_clevel(c):
    return "{| c_index := %s; c_props := %s |}" % (
        coq_slist([p for p, _ in c["props"]]),
        coq_list("(%s, %s)" % (cs(p), coq_option(None if d is None else coq_z(d))) for p, d in c["props"]))


def parse_lines(out):
    """labelled probe lines  LABEL \\t payload"""
    res = {}
    for line in out.split("\n"):
        if "\t" in line:
            lab, payload = line.split("\t", 1)
            res.setdefault(lab, []).append(payload)
    return res


# ---------------------------------------------------------------------------- script-level stores
def gen_script_ops(rng, kind):
    n = rng.randint(1, 12)
    ops = []
    for _ in range(n):
        if kind == "array" and rng.random() < 0.3:
            ops.append(["del", rng.choice(["a", "b", "c", "k1"])])
        else:
            ops.append(["set", rng.choice(["a", "b", "c", "k1", "Zz"]), rng.randint(0, 9)])
    return ops


def php_script_ops(kind, ops, label):
    s = ["$s = [];" if kind == "array" else "$s = new stdClass();"]
    for o in ops:
        if kind == "array":
            s.append("$s['%s'] = %d;" % (o[1], o[2]) if o[0] == "set" else "unset($s['%s']);" % o[1])
        else:
            s.append("$s->%s = %d;" % (o[1], o[2]))
    s.append("$r = []; foreach ($s as $k => $v) { $r[] = [$k, $v]; } echo \"%s\\t\", json_encode($r), \"\\n\";" % label)
    return " ".join(s)


# ---------------------------------------------------------------------------- probes (search)
# each probe: label -> php expression template over $A (string-keyed array), $L (list), $O (object)
PROBES = [
    ("foreach_assoc", "$r=[]; foreach ($A as $k=>$v) { $r[]=$k; } echo json_encode($r);"),
    ("array_keys", "echo json_encode(array_keys($A));"),
    ("json_encode_obj", "echo json_encode($O);"),
    ("foreach_obj", "$r=[]; foreach ($O as $k=>$v) { $r[]=$k; } echo json_encode($r);"),
    ("echo_obj_cast", "echo json_encode((array)$O);"),
    ("implode", "echo implode(',', $L);"),
    ("sort_list", "$t=$L; sort($t); echo json_encode($t);"),
    ("count", "echo count($A), count($L);"),
    ("in_array", "echo in_array(3, $L) ? 'y':'n';"),
    ("array_reverse", "echo json_encode(array_reverse($L));"),
    ("array_map_list", "echo json_encode(array_map(function($x){ return $x+1; }, $L));"),
    ("str_funcs", "echo strtoupper('abc'), strlen('hello'), substr('hello',1,3), str_repeat('ab',2);"),
    ("sprintf", "echo sprintf('%05d|%s|%.2f', 42, 'x', 1.5);"),
    ("closure", "$f = function($x) use ($L) { return $x + count($L); }; echo $f(1);"),
    ("static_call", "echo C20S::twice(4);"),
    ("exception", "try { throw new Exception('e1'); } catch (Exception $e) { echo get_class($e), ':', $e->getMessage(); }"),
    ("serialize_list", "echo serialize($L);"),
    ("clone_obj", "$c = clone $O; $c->zz = 1; echo json_encode($O);"),
    ("instanceof", "echo ($P instanceof C20P) ? 'y':'n';"),
    ("get_class", "echo get_class($P);"),
    ("declared_obj", "$r=[]; foreach ($P as $k=>$v) { $r[]=$k; } echo json_encode($r);"),
    ("declared_json", "echo json_encode($P);"),
    ("declared_echo", "echo str_replace(\"\\n\", ' ', (string)json_encode(get_class_vars_c20($P)));"),
    ("reflect_methods", "echo json_encode((new ReflectionClass('C20P'))->getMethods());"),
    ("class_ci", "$q = new c20p(); echo get_class($q);"),
    # std functions over string-keyed arrays (several range over Go maps)
    ("json_decode_assoc", "echo json_encode(array_keys(json_decode($J, true)));"),
    ("json_decode_obj", "echo json_encode(json_decode($J));"),
    ("array_values", "echo json_encode(array_values($A));"),
    ("array_flip", "echo json_encode(array_keys(array_flip($A)));"),
    ("array_merge", "echo json_encode(array_keys(array_merge($A, ['zz'=>1])));"),
    ("array_filter", "echo json_encode(array_keys(array_filter($A)));"),
    ("array_unique", "echo json_encode(array_keys(array_unique($A)));"),
    ("array_slice", "echo json_encode(array_slice($A, 1, 2));"),
    ("array_replace", "echo json_encode(array_keys(array_replace($A, ['zz'=>1])));"),
    ("array_intersect", "echo json_encode(array_keys(array_intersect($A, [1,2,3])));"),
    ("iterator_to_array", "echo json_encode(array_keys(iterator_to_array(new ArrayIterator($A))));"),
    ("array_map_assoc", "echo json_encode(array_map(function($x){ return $x; }, $A));"),
    ("array_search", "echo json_encode(array_search(2, $A));"),
    ("array_key_first", "echo json_encode(array_key_first($A));"),
    ("array_combine", "echo json_encode(array_keys(array_combine(array_keys($A), array_values($L5))));"),
    ("http_build_query", "echo http_build_query($A);"),
    ("ksort", "$t=$A; ksort($t); echo json_encode(array_keys($t));"),
    ("array_walk", "$r=[]; array_walk($A, function($v,$k) use (&$r) { $r[]=$k; }, null); echo json_encode($r);"),
    ("str_replace_arr", "echo str_replace(array_keys($A), array_values($L5), 'k1 k2 k3 k4 k5');"),
    ("strtr_arr", "echo strtr('k1 k2 k3', ['k1'=>'k2','k2'=>'k3','k3'=>'k1']);"),
    ("min_max", "echo min($L), max($L);"),
    # audit follow-up: the remaining std/php functions that ranged over Go maps, object identity, destructuring
    ("array_merge_recursive", "echo json_encode(array_keys(array_merge_recursive($A, ['zz'=>1])));"),
    ("array_replace_recursive", "echo json_encode(array_keys(array_replace_recursive($A, ['zz'=>1])));"),
    ("array_merge_recursive_nested", "echo json_encode(array_merge_recursive(['n'=>$A], ['n'=>['zz'=>1]]));"),
    ("array_replace_recursive_nested", "echo json_encode(array_replace_recursive(['n'=>$A], ['n'=>['zz'=>1]]));"),
    ("array_flip_list", "echo json_encode(array_keys(array_flip($LK)));"),
    ("list_destructure_row", "foreach ([$A] as [$d1, $d2, $d3]) { echo json_encode([$d1, $d2, $d3]); }"),
    ("spl_object_id", "$o1 = new stdClass(); $o2 = new stdClass(); echo spl_object_id($o1), ':', spl_object_id($o2), ':', spl_object_id($o1);"),
    ("spl_object_hash", "echo spl_object_hash($P), ':', spl_object_hash($O);"),
    ("spl_object_id_this", "echo spl_object_id($P) === $P->myid() ? 'same' : 'differs';"),
    ("spl_object_storage", "$st = new SplObjectStorage(); $st->attach($P); $st->attach($O); echo count($st), ':', $st->contains($P) ? 'y' : 'n';"),
    ("reflection_attribute", "foreach ((new ReflectionClass('C20Ctl'))->getAttributes() as $at) { echo json_encode($at->newInstance()); }"),
]
PRELUDE = """<?php
class C20S { public static function twice($x) { return 2*$x; } }
class C20P { public $pa = 1; public $pb = 2; public $pc = 3; public $pd = 4; public $pe = 5; public $pf = 6; public $pg = 7; public $ph = 8; public $pi = 9; public $pj = 10; public $pk = 11; public $pl = 12;
  function ma() {} function mb() {} function mc() {} function md() {} function me() {} function mf() {} function mg() {} function mh() {} function mi() {} function mj() {} function myid() { return spl_object_id($this); } }
#[Attribute]
class C20Route { public $r1; public $r2; public $r3; public $r4; public $r5; public $r6; public $r7; public $r8; public $r9; public $r10;
  function __construct($a = 1, $b = 2) { $this->r1 = $a; $this->r2 = $b; $this->r3 = 3; $this->r4 = 4; $this->r5 = 5; $this->r6 = 6; $this->r7 = 7; $this->r8 = 8; $this->r9 = 9; $this->r10 = 10; } }
#[C20Route(7, 9)]
class C20Ctl {}
function get_class_vars_c20($o) { $r = []; foreach ($o as $k => $v) { $r[$k] = $v; } return $r; }
"""


def gen_probe_program(rng, nprobes, pool=None):
    keys = ["k%d" % i for i in range(1, 13)]
    rng.shuffle(keys)
    nk = 12     # a Go map with more than 8 entries spans several buckets: thousands of iteration orders (map_order_entropy)
    vals = [rng.randint(0, 4) for _ in range(nk)]
    A = "[" + ", ".join("'%s'=>%d" % (k, v) for k, v in zip(keys[:nk], vals)) + "]"
    L = "[" + ", ".join(str(rng.randint(0, 9)) for _ in range(rng.randint(3, 7))) + "]"
    J = "'{" + ",".join('"%s":%d' % (k, v) for k, v in zip(keys[:nk], vals)) + "}'"
    src = [PRELUDE, "$A = %s; $L = %s; $L5 = [1,2,3,4,5,6,7,8,9,10,11,12]; $L5 = array_slice($L5, 0, %d); $J = %s; $LK = %s;" % (A, L, nk, J, "[" + ", ".join("'%s'" % k for k in keys[:nk]) + "]"),
           "$O = new stdClass(); " + " ".join("$O->%s = %d;" % (k, v) for k, v in zip(keys[:nk], vals)),
           "$P = new C20P();"]
    pool = pool or PROBES
    chosen = rng.sample(pool, min(nprobes, len(pool)))
    for lab, code in chosen:
        # each probe in its own try: a probe that throws must not hide the ones after it
        src.append("echo \"%s\\t\"; try { %s } catch (\\Throwable $pe) { echo 'THROWN:', get_class($pe); } echo \"\\n\";" % (lab, code))
    ks, vs = keys[:nk], vals
    first = {}
    for k, v in zip(ks, vs):
        first.setdefault(v, k)
    # what insertion order demands of the enumeration probes (json text)
    expect = {
        "foreach_assoc": json.dumps(ks, separators=(",", ":")),
        "array_keys": json.dumps(ks, separators=(",", ":")),
        "foreach_obj": json.dumps(ks, separators=(",", ":")),
        "array_values": json.dumps(vs, separators=(",", ":")),
        "array_merge": json.dumps(ks + ["zz"], separators=(",", ":")),
        "array_replace": json.dumps(ks + ["zz"], separators=(",", ":")),
        "array_filter": json.dumps([k for k, v in zip(ks, vs) if v != 0], separators=(",", ":")),
        "array_unique": json.dumps([k for k, v in zip(ks, vs) if first[v] == k], separators=(",", ":")),
        "iterator_to_array": json.dumps(ks, separators=(",", ":")),
        "array_slice": json.dumps(vs[1:3], separators=(",", ":")),
        "declared_obj": json.dumps(["p" + c for c in "abcdefghijkl"], separators=(",", ":")),
        "reflect_methods": json.dumps(["m" + c for c in "abcdefghij"] + ["myid"], separators=(",", ":")),
        "array_merge_recursive": json.dumps(ks + ["zz"], separators=(",", ":")),
        "array_replace_recursive": json.dumps(ks + ["zz"], separators=(",", ":")),
        "array_merge_recursive_nested": json.dumps({"n": dict(list(zip(ks, vs)) + [("zz", 1)])}, separators=(",", ":")),
        "array_replace_recursive_nested": json.dumps({"n": dict(list(zip(ks, vs)) + [("zz", 1)])}, separators=(",", ":")),
        "array_flip_list": json.dumps(ks, separators=(",", ":")),
        "list_destructure_row": json.dumps(vs[:3], separators=(",", ":")),
        "spl_object_id_this": "same",
        "reflection_attribute": json.dumps(dict([("r1", 7), ("r2", 9)] + [("r%d" % i, i) for i in range(3, 11)]), separators=(",", ":")),
        "array_walk": None,
    }
    return "\n".join(src) + "\n", [lab for lab, _ in chosen], {k: v for k, v in expect.items() if v is not None}



# ---------------------------------------------------------------------------- site programs
# one program per map-ranging site that the probe template cannot host (a fatal error, the .zy object
# initialiser, html templates rendered through VM.ParseFile, superglobals filled from an HTTP request).
# Each uses >= 10 keys (thousands of Go map orders) and states the order the fixed code must produce.
_NAMES10 = ["kd", "ka", "kj", "kc", "kb", "ki", "kf", "ke", "kh", "kg"]


def site_programs():
    progs = []
    # abstract static methods named in the "must be declared abstract" fatal: sorted (e5592b9)
    progs.append({"kind": "site", "name": "abstract_static_fatal", "how": "proc", "file": "abs.php",
                  "src": "<?php\nclass K20 { " + " ".join("abstract static function %s();" % n for n in _NAMES10) + " }\nnew K20();\n",
                  "expect_in_stderr_or_out": ", ".join("%s()" % n for n in sorted(_NAMES10))})
    # Class { k: v } initialiser: evaluated in sorted key order (33aeee5)
    progs.append({"kind": "site", "name": "init_class_kv", "how": "proc", "file": "ic.zy",
                  "src": "<?php\nclass P20 { " + " ".join("public $%s;" % n for n in _NAMES10) + " }\nfunction t($x) { echo $x, ','; return $x; }\n"
                         "$p = P20 { " + ", ".join("%s: t('%s')" % (n, n) for n in _NAMES10) + " };\necho \"\\n\";\n",
                  "expect_out": ",".join(sorted(_NAMES10)) + ",\n"})
    # html template: attributes in name order (0dbaa06); $.SERVER(obj): insertion order (6bb55c8)
    attrs = " ".join('%s="%d"' % (n, i) for i, n in enumerate(_NAMES10))
    progs.append({"kind": "site", "name": "html_attributes", "how": "view",
                  "src": "<!DOCTYPE html>\n<html>\n<body>\n<div %s>x</div>\n</body>\n</html>\n" % attrs,
                  "expect_contains": "<div " + " ".join('%s="%d"' % (n, _NAMES10.index(n)) for n in sorted(_NAMES10)) + ">x</div>"})
    progs.append({"kind": "site", "name": "js_server_object", "how": "view",
                  "src": "<!DOCTYPE html>\n<html>\n<head>\n<script type=\"text/zy\">\nclass J20 { " + " ".join("public $%s = %d;" % (n, i) for i, n in enumerate(_NAMES10)) + " }\n"
                         "$o = [" + ", ".join("'%s'=>%d" % (n, i) for i, n in enumerate(_NAMES10)) + "];\n$c = new J20();\n</script>\n"
                         "<script>\nvar o = $.SERVER($o);\nvar c = $.SERVER($c);\n</script>\n</head>\n<body></body>\n</html>\n",
                  "expect_contains": "var o = {" + ", ".join('"%s": %d' % (n, i) for i, n in enumerate(_NAMES10)) + "};\nvar c = {" + ", ".join('"%s": %d' % (n, i) for i, n in enumerate(_NAMES10)) + "};"})
    progs.append({"kind": "site", "name": "html_special_attribute_pick", "how": "view",
                  "src": "<!DOCTYPE html>\n<html>\n<head>\n<script type=\"text/zy\">\n$l = [1, 2, 3]; $t = true;\n</script>\n</head>\n<body>\n"
                         "<li %s for=\"$v in $l\">{$v}</li>\n<b %s if=\"$t\">y</b>\n</body>\n</html>\n" % (attrs, attrs),
                  "expect_contains": None})
    # superglobals / request accessors filled from Go maps: key order (bf1e1ff, 04b8973)
    hsrc = ("function h($r, $w) {\n  $o = \"\";\n"
            "  foreach ($_GET as $k => $v) { $o = $o . $k . \",\"; }\n  $o = $o . \"|\";\n"
            "  foreach ($_POST as $k => $v) { $o = $o . $k . \",\"; }\n  $o = $o . \"|\";\n"
            "  foreach ($_SERVER as $k => $v) { if (substr($k, 0, 7) == \"HTTP_X_\") { $o = $o . $k . \",\"; } }\n  $o = $o . \"|\";\n"
            "  foreach ($r->all() as $k => $v) { $o = $o . $k . \",\"; }\n  $w->write($o);\n}\n")
    q = ["q" + n for n in _NAMES10]
    f = ["f" + n for n in _NAMES10]
    progs.append({"kind": "site", "name": "http_superglobals", "how": "http", "src": hsrc,
                  "query": "&".join("%s=1" % n for n in q), "form": "&".join("%s=1" % n for n in f),
                  "headers": [["X-" + n.upper(), "1"] for n in _NAMES10],
                  "expect_out": ",".join(sorted(q)) + ",|" + ",".join(sorted(f + q)) + ",|" + ",".join(sorted("HTTP_X_" + n.upper() for n in _NAMES10)) + ",|"
                                + ",".join(sorted(q) + sorted(f)) + ","})
    return progs

def _site_lists(name, so, se):
    """(keys the site ranges over, preferred order given to it, order observed in the real output) triples"""
    q = ["q" + n for n in _NAMES10]
    f = ["f" + n for n in _NAMES10]
    if name == "abstract_static_fatal":
        m = re.search(r"abstract methods? (.*?) and must", so + se)
        return [(_NAMES10, [], [x.strip()[:-2] for x in m.group(1).split(",")] if m else [])]
    if name == "init_class_kv":
        return [(_NAMES10, [], [x for x in so.strip().split(",") if x])]
    if name == "html_attributes":
        m = re.search(r"<div (.*?)>x</div>", so)
        return [(_NAMES10, [], re.findall(r"(\w+)=", m.group(1)) if m else [])]
    if name == "js_server_object":
        res = []
        for var in ("o", "c"):
            m = re.search(r"var %s = \{(.*?)\};" % var, so)
            res.append((_NAMES10, _NAMES10, re.findall(r'"(\w+)":', m.group(1)) if m else []))
        return res
    if name == "http_superglobals":
        parts = so.split("|")
        if len(parts) < 3:
            return [(q, [], [])]
        return [(q, [], [x for x in parts[0].split(",") if x]),
                (f + q, [], [x for x in parts[1].split(",") if x]),
                (["HTTP_X_" + n.upper() for n in _NAMES10], [], [x for x in parts[2].split(",") if x])]
    return []


# ---------------------------------------------------------------------------- (3) A;B pairs
# cell table: where each piece of state lives.  PerVM / ProcReset / ProcSticky (Model.v Part 3).
CELLS = {
    "class": "PerVM", "func": "PerVM", "const": "PerVM", "global": "PerVM", "static_prop": "PerVM",
    "static_var": "PerVM", "include_once": "PerVM", "exception_handler": "PerVM", "interface": "PerVM",
    "userOutputEmitted": "ProcReset", "ob_level": "ProcReset",   # ob stack: flushed and popped by FlushAllBuffersFn at script end (/repo 7b31d88)
    # package-level caches that runtime.NewVM / php.Load now reset (see the fixed: lines of KNOWN_FINDINGS)
    "ini": "ProcReset", "GLOBALS": "ProcReset", "_GET": "ProcReset", "_POST": "ProcReset",
    "_SERVER": "ProcReset", "_ENV": "ProcReset", "_SESSION": "ProcReset", "_COOKIE": "ProcReset",
    "_REQUEST": "ProcReset", "argv": "ProcReset", "spl_autoload": "ProcReset", "object_ids": "ProcReset",
    "error_reporting": "ProcReset", "shutdown_list": "PerVM", "error_handler": "PerVM",
    "header_callbacks": "ProcReset", "time_limit": "ProcReset",
    "putenv": "ProcSticky",
}
# (label, php A, cell written, php B, cell read)
POLLUTERS = [
    ("class", "class C20K { function f() { return 1; } }", "class"),
    ("func", "function c20f() { return 1; }", "func"),
    ("const", "define('C20X', 5);", "const"),
    ("global", "$g = 5; function c20g() { global $g; $g = 6; } c20g();", "global"),
    ("static_prop", "class S20 { public static $s = 0; } S20::$s = 5;", "static_prop"),
    ("static_var", "function cnt20() { static $n = 0; return ++$n; } cnt20(); cnt20();", "static_var"),
    ("include_once", "include_once '%INC%';", "include_once"),
    ("exception_handler", "set_exception_handler(function($e) { echo 'H'; });", "exception_handler"),
    ("echo", "echo 'x';", "userOutputEmitted"),
    ("ini_set", "ini_set('precision', '3');", "ini"),
    ("GLOBALS", "$GLOBALS['c20g'] = 5;", "GLOBALS"),
    ("_GET", "$_GET['c20'] = 1;", "_GET"),
    ("_POST", "$_POST['c20'] = 1;", "_POST"),
    ("_SERVER", "$_SERVER['C20'] = 1;", "_SERVER"),
    ("_ENV", "$_ENV['C20'] = 1;", "_ENV"),
    ("_SESSION", "$_SESSION['c20'] = 1;", "_SESSION"),
    ("_COOKIE", "$_COOKIE['c20'] = 1;", "_COOKIE"),
    ("_REQUEST", "$_REQUEST['c20'] = 1;", "_REQUEST"),
    ("ob_start", "ob_start(); echo 'x';", "ob_level"),
    ("putenv", "putenv('C20ENV=1');", "putenv"),
    ("spl_autoload", "spl_autoload_register(function($c) {});", "spl_autoload"),
    ("argv", "$argv[] = 'x';", "argv"),
    ("object_ids", "$o1 = new stdClass(); $o2 = new stdClass(); echo spl_object_id($o1), spl_object_id($o2);", "object_ids"),
    ("var_dump_objects", "$o1 = new stdClass(); $o2 = new stdClass(); var_dump($o1); var_dump($o2);", "object_ids"),
    ("error_reporting", "error_reporting(0);", "error_reporting"),
    ("shutdown", "register_shutdown_function(function() { echo 'SD'; });", "shutdown_list"),
    ("error_handler", "set_error_handler(function($n, $s) { echo 'EH'; return true; });", "error_handler"),
    ("interface", "interface I20 {}", "interface"),
    ("header_cb", "header_register_callback(function() { echo 'HA'; }); echo 'x';", "header_callbacks"),
    ("set_time_limit", "set_time_limit(1);", "time_limit"),
]
OBSERVERS = [
    ("class", "echo class_exists('C20K') ? 'y' : 'n'; class C20K { function f() { return 2; } } echo (new C20K())->f();", "class"),
    ("func", "echo function_exists('c20f') ? 'y' : 'n'; function c20f() { return 2; } echo c20f();", "func"),
    ("const", "echo defined('C20X') ? 'y' : 'n'; define('C20X', 7); echo C20X;", "const"),
    ("global", "echo isset($g) ? 'y' : 'n';", "global"),
    ("static_prop", "class S20 { public static $s = 0; } echo S20::$s;", "static_prop"),
    ("static_var", "function cnt20() { static $n = 0; return ++$n; } echo cnt20();", "static_var"),
    ("include_once", "include_once '%INC%'; echo function_exists('c20inc') ? 'y' : 'n';", "include_once"),
    ("exception_handler", "echo 'x'; throw new Exception('q');", "exception_handler"),
    ("go:userOutputEmitted", "", "userOutputEmitted"),
    ("ini_get", "echo ini_get('precision');", "ini"),
    ("GLOBALS", "echo isset($GLOBALS['c20g']) ? 'y' : 'n';", "GLOBALS"),
    ("_GET", "echo isset($_GET['c20']) ? 'y' : 'n';", "_GET"),
    ("_POST", "echo isset($_POST['c20']) ? 'y' : 'n';", "_POST"),
    ("_SERVER", "echo isset($_SERVER['C20']) ? 'y' : 'n';", "_SERVER"),
    ("_ENV", "echo isset($_ENV['C20']) ? 'y' : 'n';", "_ENV"),
    ("_SESSION", "echo isset($_SESSION['c20']) ? 'y' : 'n';", "_SESSION"),
    ("_COOKIE", "echo isset($_COOKIE['c20']) ? 'y' : 'n';", "_COOKIE"),
    ("_REQUEST", "echo isset($_REQUEST['c20']) ? 'y' : 'n';", ["_REQUEST", "_GET", "_POST", "_COOKIE"]),
    ("ob_level", "echo ob_get_level();", "ob_level"),
    ("getenv", "echo getenv('C20ENV') === false ? 'n' : 'y';", "putenv"),
    ("spl_autoload", "echo count(spl_autoload_functions());", "spl_autoload"),
    ("argv", "echo count($argv);", "argv"),
    ("spl_object_id", "$o = new stdClass(); echo spl_object_id($o), ':', spl_object_hash($o);", "object_ids"),
    ("var_dump", "$o = new stdClass(); var_dump($o);", "object_ids"),
    ("error_reporting", "echo error_reporting();", "error_reporting"),
    ("shutdown", "echo 'b';", "shutdown_list"),
    ("error_handler", "echo @$undefined_c20, 'x';", "error_handler"),
    ("interface", "echo interface_exists('I20') ? 'y' : 'n';", "interface"),
    ("header_cb", "header_register_callback(function() { echo 'HC'; }); echo 'b';", "header_callbacks"),
    ("time_limit", "sleep(1); $i = 0; while ($i < 100000) { $i++; } echo 'done';", "time_limit", "slow"),
]

# ---------------------------------------------------------------------------- corpus
NONDET_SRC = re.compile(
    r"\b(time|microtime|hrtime|date|gmdate|strftime|mktime|strtotime|rand|mt_rand|random_int|random_bytes|"
    r"uniqid|shuffle|array_rand|str_shuffle|getmypid|memory_get_usage|memory_get_peak_usage|sleep|usleep|"
    r"tempnam|tmpfile|sys_get_temp_dir|spawn|curl_init|fsockopen|stream_socket_client|proc_open|"
    r"shell_exec|system|passthru|gethostname|php_uname|lcg_value|"
    r"file_put_contents|mkdir|unlink|rmdir|touch|fwrite|set_time_limit)\s*\(|new\s+\\?(DateTime|DateTimeImmutable|DateTimeZone)|"
    r"\b(pcntl_|posix_)|\bgo\s+(function|fn|\$)|->listen\(|->serve\(|Net\\\\Http|Channel")
TS = re.compile(r"\d{4}-\d{2}-\d{2}[ T]\d{2}:\d{2}:\d{2}")


def corpus_files(repo):
    res, excluded = [], 0
    for root in ("tests", "examples"):
        for dp, dn, fs in os.walk(os.path.join(repo, root)):
            dn.sort()
            for f in sorted(fs):
                if not f.endswith(".php"):
                    continue
                p = os.path.join(dp, f)
                rel = os.path.relpath(p, repo)
                try:
                    txt = open(p, encoding="utf-8", errors="replace").read()
                except OSError:
                    continue
                if NONDET_SRC.search(txt) or "run_tests" in rel or "/net/" in rel or "/signal/" in rel or "/cli/" in rel:
                    excluded += 1
                    continue
                res.append(rel)
    return res, excluded


def run_proc(binary, relpath, repo, timeout=20):
    try:
        p = subprocess.run([binary, relpath], cwd=repo, stdout=subprocess.PIPE, stderr=subprocess.PIPE,
                           timeout=timeout)
        out = p.stdout.decode("utf-8", "replace")
        err = p.stderr.decode("utf-8", "replace")
        return (p.returncode, TS.sub("<ts>", out), TS.sub("<ts>", err))
    except subprocess.TimeoutExpired:
        return ("timeout", "", "")


# ---------------------------------------------------------------------------- site inventory
# classification of the range-over-map statements of runtime/, node/, data/ (key = file:func:expr)
SITE_CLASS = {
    # ---- modelled (Model.v Part 2 + a theorem of Properties.v)
    "runtime/vm.go:VM.findClassCaseInsensitive:vm.classMap": ("modelled", "find_ci; least matching key, order independent (lookup_oracle_independent)"),
    "node/class.go:ClassStatement.GetMethods:c.Methods": ("modelled", "names collected then sort.Strings (methods_listing_oracle_independent)"),
    "runtime/reflect_class.go:ReflectClass.GetMethods:rc.methods": ("modelled", "keys collected then sort.Strings (member_names_oracle_independent)"),
    "runtime/reflect_class.go:ReflectClass.GetPropertyList:rc.properties": ("modelled", "keys collected then sort.Strings (member_names_oracle_independent)"),
    "node/class_abstract_validate.go:abstractStaticMethodNames:methods": ("modelled", "names collected then sort.Strings (sorted_range_oracle_independent); site program abstract_static_fatal"),
    "node/init_class.go:InitClass.GetValue:n.KV": ("modelled", "keys collected, sort.Strings, then evaluated in that order (sorted_range_oracle_independent); site program init_class_kv"),
    "node/html.go:HtmlNode.generateNormalHtml:h.Attributes": ("modelled", "names collected, sort.Strings, then printed (sorted_range_oracle_independent); site program html_attributes"),
    "node/js_server.go:formatObjectValue:v": ("modelled", "keys collected then sort.Strings (sorted_range_oracle_independent)"),
    "node/js_server.go:formatClassOrObjectValue:properties": ("modelled", "insertion order first, the rest collected and sorted (sorted_range_oracle_independent); site program js_server_object"),
    "node/html.go:HtmlNode.generateHtml:h.Attributes": ("modelled", "picks THE for / if attribute: independent of the order when at most one key matches (unique_pick_oracle_independent); the html parser builds at most one AttrForValue and one AttrIfValue per element; site program html_special_attribute_pick"),
    "node/html.go:HtmlTemplateNode.GetValue:h.HtmlNode.Attributes": ("modelled", "same pick on <template> (unique_pick_oracle_independent)"),
    # ---- order-insensitive by inspection
    "runtime/vm.go:VM.AllFuncs:vm.funcMap": ("order-insensitive", "collect then sort.Slice by name"),
    "runtime/vm.go:VM.AllClasses:vm.classMap": ("order-insensitive", "collect then sort.Slice by name"),
    "runtime/vm.go:VM.AllInterfaces:vm.interfaceMap": ("order-insensitive", "collect then sort.Slice by name"),
    "data/value_class.go:ClassValue.GetProperties:instanceProps": ("order-insensitive", "copies a map into a map"),
    "node/binary_eq_strict.go:isStrictEqual:props1": ("order-insensitive", "conjunction over all keys; result is a boolean"),
    "node/lambda.go:LambdaExpression.Call:f.parent": ("order-insensitive", "writes distinct slots by index"),
    "node/lambda.go:LambdaExpression.GetValue:f.parent": ("order-insensitive", "reads distinct slots by index into a map"),
    "runtime/vm.go:bindTemplateVariables:props": ("order-insensitive", "writes distinct variables by name"),
    "runtime/reflect_register.go:VM.RegisterReflectFunctions:functions": ("order-insensitive", "registers distinct names"),
    "runtime/vm_temp.go:TempVM.AddedClasses:vm.addedClasses": ("order-insensitive", "verification/diagnostic listing, not script visible"),
    "parser/class_parser.go:ClassParser.mergeTraitsIntoMaps:cs.StaticMethods": ("order-insensitive", "map into map, distinct keys, insert-if-absent"),
    "parser/class_parser.go:ClassParser.mergeTraits:cs.StaticMethods": ("order-insensitive", "map into map, distinct keys, insert-if-absent"),
    "parser/new_parser.go:NewStructParser.parseAnonymousClass:staticProperties": ("order-insensitive", "stores each static default into a sync.Map by name; the defaults are constant expressions"),
    "parser/scope_manager.go:DefaultScope.GetVariables:s.variables": ("order-insensitive", "writes distinct slice slots by index"),
    "std/cli/cli_runtime.go:CliRuntime.showHelp:commands": ("order-insensitive", "maximum of the name lengths (the listing loop below it now ranges over sorted keys)"),
    "std/loop/hashmap_class.go:HashMap.ContainsValue:h.items": ("order-insensitive", "existential over all values; result is a boolean"),
    "std/loop/list_class.go:ListClass.Clone:m": ("order-insensitive", "List<T> has one type parameter: the map has one entry"),
    "std/protowire/load.go:Load:constants": ("order-insensitive", "defines distinct constants"),
    "std/net/http/request_bind_method.go:RequestBindMethod.Call:h.source.Form": ("order-insensitive", "map into map, then encoding/json (which sorts keys)"),
    "std/php/array/array_intersect.go:ArrayIntersectFunction.Call:props": ("order-insensitive", "builds a set (map) of values"),
    "std/php/core/ini_defaults.go:InitIniDefaults:iniDefaults": ("order-insensitive", "stores distinct keys into a sync.Map"),
    "std/php/core/ini_defaults.go:ApplyIniMap:values": ("order-insensitive", "stores distinct keys into a sync.Map"),
    "std/php/stream/stream_context.go:StreamContext.WrapperOptions:opts": ("order-insensitive", "copies a map into a map"),
    "std/php/tokenizer.go:InitTokenConstants:consts": ("order-insensitive", "defines distinct constants"),
    "std/php/array/array_rand.go:ArrayRandFunction.Call:props": ("order-insensitive", "array_rand: the result is random by contract (excluded from the corpus by NONDET_SRC)"),
    # ---- unmodelled: need a database connection to run at all; not in the scope of C20's anchors
    "std/database/connection_manager.go:ConnectionManager.ListConnections:cm.connections": ("unmodelled", "needs database connections: order of the listed connection names"),
    "std/database/db.go:db.getTableNameFromAnnotation:annotationProps": ("unmodelled", "needs a database: first annotation property whose value is a string"),
    "std/database/db_insert.go:DbInsertMethod.Call:properties": ("unmodelled", "needs a database: map into map"),
    "std/database/db_insert.go:DbInsertMethod.Call:insertData": ("unmodelled", "needs a database: column order of the generated INSERT text (same rows either way)"),
    "std/database/db_update.go:DbUpdateMethod.Call:properties": ("unmodelled", "needs a database: map into map"),
    "std/database/db_update.go:DbUpdateMethod.Call:updateData": ("unmodelled", "needs a database: column order of the generated UPDATE text (same rows either way)"),
    "std/php/pdo/pdo_statement.go:buildFetchResult:row": ("unmodelled", "needs a database: column order of a fetched row object"),
}


# classification of the package-level variables that some function other than init() writes
# (harness/cmd/c20walk, kind "var").  scope: PerVM-keyed | ProcReset | ProcSticky | config | constant;
# `cell` links the variable to a row of CELLS (the polluter/observer pairs exercise it) where a script can reach it.
VAR_CLASS = {
    "data.objectIDs": ("ProcReset", "object_ids", "spl_object_id / var_dump numbering; cleared by runtime.NewVM (ResetObjectIDs)"),
    "data.nextObjectID": ("ProcReset", "object_ids", "same table"),
    "data.userOutputEmitted": ("ProcReset", "userOutputEmitted", "reset by VM.LoadAndRun"),
    "data.WriteOutput": ("config", None, "output sink installed by the embedding Go program (the harness, the HTTP server), not reachable from a script"),
    "node.argvValue": ("ProcReset", "argv", "cleared by ResetSuperglobals (runtime.NewVM)"),
    "node.argcValue": ("ProcReset", "argv", "cleared by ResetSuperglobals"),
    "node.cookieValue": ("ProcReset", "_COOKIE", "cleared by ResetSuperglobals"),
    "node.envValue": ("ProcReset", "_ENV", "cleared by ResetSuperglobals"),
    "node.filesValue": ("ProcReset", "_GET", "$_FILES: cleared by ResetSuperglobals with the others (filled only under HTTP)"),
    "node.getValue": ("ProcReset", "_GET", "cleared by ResetSuperglobals"),
    "node.globalsValue": ("ProcReset", "GLOBALS", "cleared by ResetSuperglobals"),
    "node.postValue": ("ProcReset", "_POST", "cleared by ResetSuperglobals"),
    "node.requestValue": ("ProcReset", "_REQUEST", "cleared by ResetSuperglobals"),
    "node.serverValue": ("ProcReset", "_SERVER", "cleared by ResetSuperglobals"),
    "node.sessionValue": ("ProcReset", "_SESSION", "cleared by ResetSuperglobals"),
    "node.includeOnceCache": ("PerVM-keyed", "include_once", "parsed-file cache shared by the process; whether a file counts as included is decided by the VM's own phpFileCache first (/repo 0127905)"),
    "parser.parserRouter": ("config", None, "token -> statement parser table, extended by Go extensions through AddParse at start-up"),
    "parser.autoload": ("ProcReset", "spl_autoload", "cleared by runtime.NewVM (ResetAutoLoad)"),
    "parser.globalScopeFactory": ("config", None, "set by Go embedding code"),
    "std/php/core.headerCallbacks": ("ProcReset", "header_callbacks", "cleared by php.Load (ResetHeaderCallbacks)"),
    "std/php/core.headerOutputStarted": ("ProcReset", "header_callbacks", "cleared by php.Load"),
    "std/php/core.iniStore": ("ProcReset", "ini", "emptied, then refilled with the defaults, by php.Load (InitIniDefaults)"),
    "std/php/core.obStack": ("ProcReset", "ob_level", "unwound by FlushAllBuffersFn at script end (/repo 7b31d88)"),
    "std/php/core.phptInputBody": ("ProcReset", None, "php://input body for the phpt runner: set from the environment by php.Load"),
    "std/php/core.executionDeadline": ("ProcReset", "time_limit", "cleared by php.Load (SetExecutionDeadline(0))"),
    "std/php/core.executionLimitSec": ("ProcReset", "time_limit", "same"),
    "std/php/stream.nextStreamContextID": ("ProcSticky", None, "counter behind stream_context_create(): the id is not printable from a script today ((int)$ctx is 1 for every context)"),
    "std/php.errorReportingLevel": ("ProcSticky", None, "written by error_reporting($level) - which declares no parameter, so the assignment is never reached today (error_reporting(0); echo error_reporting(); prints 32767 in one script); the error_reporting polluter/observer pair stays in the table (expected: no difference) so that a repair of the function shows the leak"),
    # HTTP / CLI application frameworks: one application per process by design (routes and commands are registered
    # while the single application object is constructed); outside the anchors of C20
    "std/cli/annotation.cliScanningDirs": ("config", None, "re-entrancy guard of the CLI application scanner"),
    "std/cli/annotation.registeredCliExitClasses": ("ProcSticky", None, "CLI framework registry: one application per process"),
    "std/cli/annotation.registeredCommands": ("ProcSticky", None, "CLI framework registry: one application per process"),
    "std/net/annotation.scanningDirs": ("config", None, "re-entrancy guard of the HTTP application scanner"),
    "std/net/annotation.registeredExitClasses": ("ProcSticky", None, "HTTP framework registry: one application per process"),
    "std/net/annotation.pendingRoutes": ("ProcSticky", None, "HTTP framework registry, drained by RegisterPendingRoutes"),
    "std/net/annotation.pendingControllers": ("ProcSticky", None, "HTTP framework registry, drained by RegisterPendingRoutes"),
    "std/net/annotation.controllerMiddlewares": ("ProcSticky", None, "HTTP framework registry, drained by RegisterPendingRoutes"),
    "std/container.registeringEngine": ("ProcSticky", None, "container framework: engine being populated"),
    "std/container.defaultEngine": ("ProcSticky", None, "container framework singleton"),
    "std/container.defaultInstance": ("ProcSticky", None, "container framework singleton"),
    "std/container.metaByVM": ("PerVM-keyed", None, "keyed by the VM's address"),
    "std/database.globalManager": ("ProcSticky", None, "database connection pool: process-wide by design"),
    "std/net/http.requestAttrBags": ("PerVM-keyed", None, "keyed by *http.Request, deleted when the request ends (C11)"),
    "std/net/http.requestFormatterSlots": ("PerVM-keyed", None, "keyed by *http.Request, deleted when the request ends (C11)"),
}
_REGEXP_TYPES = ("*regexp.Regexp",)


def site_key(s):
    return "%s:%s:%s" % (s["file"], s["func"], s["expr"])


# ---------------------------------------------------------------------------- main
def main(ck):
    rng = ck.rng
    quick = ck.tier != "thorough"
    repo = vcheck.REPO
    ck.trusted += [
        "Go maps modelled as association lists read through a lookup function; `range m` = iteration over an arbitrary permutation of the key set (the quantified `order`)",
        "strings.EqualFold modelled on ASCII names (equality after folding A-Z); sort.Strings modelled as insertion sort on the byte-wise order",
        "state-cell table (checks/C20.py CELLS): which script-reachable state is per-VM / reset by protocol / sticky — hand-written, validated by the (A;B) runs",
        "harness/cmd/c20, harness/cmd/c20walk (Go), checks/C20.py (generators, Coq term printer)",
        "whole-program determinism beyond the modelled sites is searched by repetition, not proved",
    ]
    ck.prove()
    binary, out = ck.go_build("c20")
    walker, wout = ck.go_build("c20walk", tags=None)
    if binary is None or walker is None:
        ck.broken.append("harness-build")
        ck.finish(evaluations=0, distinct_nontrivial=0, rule="harness did not build")
    origami, oout = ck.build_origami()
    if origami is None:
        ck.broken.append("origami-build")
        ck.finish(evaluations=0, distinct_nontrivial=0, rule="interpreter did not build")

    replay = None
    if ck.replay:
        replay = json.load(open(ck.replay))
        replay = replay.get("case")
    evaluations = 0
    traces = 0
    nontriv = 0

    def want(kind):
        return replay is None or replay.get("kind") == kind

    # ================================================================= om
    om_cases = []
    if replay and replay.get("kind") == "om":
        om_cases = [replay]
    elif replay is None:
        pool = om_pool()
        maxlen = 3 if quick else 4
        tail = [["range", -1], ["len"]]
        for n in range(0, maxlen + 1):
            for seq in itertools.product(pool, repeat=n):
                om_cases.append({"kind": "om", "ops": list(seq) + tail})
        for _ in range(1500 if quick else 20000):
            n = rng.randint(1, 25)
            om_cases.append({"kind": "om", "ops": [om_rand_op(rng) for _ in range(n)] + tail + [["idx", rng.randint(0, 4)]]})
    if om_cases:
        outs, rc, err = run_engine(binary, om_cases)
        if len(outs) != len(om_cases):
            ck.log("om: engine returned %d/%d rc=%s %s" % (len(outs), len(om_cases), rc, err[-1500:]))
            ck.broken.append("harness-run:om")
        else:
            terms, idx = [], []
            for i, (c, o) in enumerate(zip(om_cases, outs)):
                if o.get("panic") or o.get("err"):
                    ck.violation("om:panic", {"case": c, "impl_out": o, "clause": "OrderedMap operation panicked"})
                    continue
                terms.append("(%s, %s)" % (coq_list(coq_om_op(x) for x in c["ops"]), coq_list(coq_om_res(r) for r in o["res"])))
                idx.append(i)
            bad = ck.eval_cases("om", HEADER, terms, "check_om", shard=1200)
            if ck.replay:
                for c, o in zip(om_cases, outs):
                    ops = coq_list(coq_om_op(x) for x in c["ops"])
                    ck.log("replay om ops: %s" % json.dumps(c["ops"]))
                    ck.log("implementation: %s" % json.dumps(o.get("res")))
                    ck.log("model:          %s" % ck.eval_print(HEADER, "snd (om_run %s om_new)" % ops))
                    ck.log("spec:           %s" % ck.eval_print(HEADER, "snd (a_run (map to_sop %s) [])" % ops))
            evaluations += len(om_cases)
            traces += len(terms)
            seen = set()
            for c in om_cases:
                k = json.dumps(c["ops"])
                if k in seen:
                    continue
                seen.add(k)
                kinds = [x[0] for x in c["ops"][:-2]]
                if "set" in kinds and len(kinds) >= 2:
                    nontriv += 1
            for j, cls in sorted(bad.items(), key=lambda kv: len(om_cases[idx[kv[0]]]["ops"])):
                c, o = om_cases[idx[j]], outs[idx[j]]
                key = "om:clauses=%s" % "".join(map(str, cls))
                if 2 not in cls:
                    ck.broken.append("correspondence:C20.om")
                ck.violation(key, {"case": c, "impl_out": o,
                                   "clause": ["model-vs-impl" if x == 1 else "refines_alist / range_is_insertion_order (impl)" for x in cls]})
            ck.cov["om_cases"] = len(om_cases)
            ck.cov["om_exhaustive_len"] = 3 if quick else 4
            ck.samples.append(om_cases[len(om_cases) // 2])

    # ================================================================= find
    find_cases = []
    if replay and replay.get("kind") == "find":
        find_cases = [replay]
    elif replay is None:
        for _ in range(220 if quick else 2500):
            ks = rng.sample(NAME_POOL, rng.randint(1, 8))
            name = rng.choice(NAME_POOL + LOOKUP_EXTRA)
            find_cases.append({"kind": "find", "keys": ks, "name": name, "reps": 160})
        # all 2- and 3-subsets of the Foo family, every spelling looked up
        fam = ["Foo", "FOO", "foo", "fOO"]
        for r in (2, 3, 4):
            for ks in itertools.permutations(fam, r):
                if list(ks) != sorted(ks) and r > 2:
                    continue
                for name in fam + ["FoO"]:
                    find_cases.append({"kind": "find", "keys": list(ks), "name": name, "reps": 160})
    if find_cases:
        outs, rc, err = run_engine(binary, find_cases)
        if len(outs) != len(find_cases):
            ck.log("find: engine returned %d/%d rc=%s %s" % (len(outs), len(find_cases), rc, err[-1500:]))
            ck.broken.append("harness-run:find")
        else:
            terms, idx = [], []
            for i, (c, o) in enumerate(zip(find_cases, outs)):
                if o.get("panic") or o.get("err"):
                    ck.violation("find:error", {"case": c, "impl_out": o, "clause": "lookup failed"})
                    continue
                found = [None if f == "N" else f[2:] for f in o["found"]]
                terms.append("(%s, %s, %s)" % (coq_slist(c["keys"]), cs(c["name"]),
                                               coq_list(coq_option(None if f is None else cs(f)) for f in found)))
                idx.append(i)
            bad = ck.eval_cases("find", HEADER, terms, "check_find", shard=400)
            if ck.replay:
                for c, o in zip(find_cases, outs):
                    ck.log("replay find: keys=%s name=%s" % (c["keys"], c["name"]))
                    ck.log("implementation (distinct answers of %d lookups): %s" % (c.get("reps", 0), o.get("found")))
                    ck.log("model / spec (find_ci, order independent): %s" % ck.eval_print(HEADER, "find_ci %s %s" % (coq_slist(c["keys"]), cs(c["name"]))))
            evaluations += len(find_cases)
            traces += len(terms)
            coll = 0
            for c in find_cases:
                low = [k.lower() for k in c["keys"]]
                if len(set(low)) < len(low) and c["name"] not in c["keys"] and c["name"].lower() in low:
                    coll += 1
            nontriv += coll
            ck.cov["find_cases"] = len(find_cases)
            ck.cov["find_cases_with_casefold_collision_and_inexact_name"] = coll
            for j, cls in sorted(bad.items(), key=lambda kv: len(find_cases[idx[kv[0]]]["keys"])):
                c, o = find_cases[idx[j]], outs[idx[j]]
                key = "find:clauses=%s" % "".join(map(str, cls))
                if 3 not in cls and 2 not in cls:
                    ck.broken.append("correspondence:C20.find")
                ck.violation(key, {"case": c, "impl_out": o,
                                   "clause": {1: "find_ci model-vs-impl", 2: "find_ci_exact/find_ci_least (impl)",
                                              3: "lookup_oracle_independent (impl gave more than one answer)"}.get(cls[-1])})
            ck.samples.append(find_cases[0])

    # ================================================================= generated classes
    cls_cases = []
    if replay and replay.get("kind") == "classes":
        cls_cases = [replay]
    elif replay is None:
        for _ in range(70 if quick else 600):
            cls_cases.append({"kind": "classes", "levels": gen_hierarchy(rng, rng.randint(1, 3))})
    reps_vm = 6 if quick else 20
    if cls_cases:
        progs = [{"kind": "prog", "src": php_hierarchy(c["levels"]), "file": "c20cls.php", "reps": reps_vm} for c in cls_cases]
        progs.append({"kind": "reflect", "reps": 60})
        outs, rc, err = run_engine(binary, progs)
        if len(outs) != len(progs):
            ck.log("classes: engine returned %d/%d rc=%s %s" % (len(outs), len(progs), rc, err[-1500:]))
            ck.broken.append("harness-run:classes")
        else:
            iterms, iidx, mterms, midx = [], [], [], []
            for ci, (c, o) in enumerate(zip(cls_cases, outs)):
                lv = c["levels"]
                obs_i = {}
                obs_m = {}
                okrun = True
                for r in o.get("runs", []):
                    if r["outcome"] != "ok":
                        okrun = False
                    for lab, pl in parse_lines(r["out"]).items():
                        tgt = obs_i if lab.startswith("I:") else obs_m if lab.startswith("M:") else None
                        if tgt is None:
                            continue
                        for p in pl:
                            try:
                                v = json.loads(p)
                            except ValueError:
                                v = ["<unparsed>"]
                            if v not in tgt.setdefault(lab, []):
                                tgt[lab].append(v)
                if not okrun or not obs_i:
                    ck.violation("classes:run-failed", {"case": c, "impl_out": o, "clause": "generated class program did not run"})
                    continue
                for i in range(len(lv)):
                    impl = obs_i.get("I:%d" % i, [])
                    iterms.append("(%s, %s, %s)" % (coq_clevel(lv[i]), coq_list(coq_clevel(a) for a in lv[i + 1:]),
                                                   coq_list(coq_slist(e) for e in impl)))
                    iidx.append((ci, i))
                    names = list(lv[i]["methods"]) + (["__construct"] if lv[i]["ctor"] else [])
                    hasc = any(a["ctor"] for a in lv[i:])
                    implm = obs_m.get("M:%d" % i, [])
                    mterms.append("(%s, %s, %s)" % (coq_slist(names), coq_bool(hasc), coq_list(coq_slist(e) for e in implm)))
                    midx.append((ci, i))
            ro = outs[-1]
            if ro.get("panic") or ro.get("err") or not ro.get("methods"):
                ck.violation("reflect:error", {"case": {"kind": "reflect"}, "impl_out": ro, "clause": "ReflectClass listing failed"})
            else:
                wnames = ["Juniper", "Apple", "Iris", "Banana", "Hazel", "Cherry", "Grape", "Damson", "Fig", "Elder"]
                mterms.append("(%s, false, %s)" % (coq_slist(wnames), coq_list(coq_slist(e) for e in ro["methods"])))
                midx.append((-1, 0))
            badi = ck.eval_cases("inst", HEADER, iterms, "check_inst", shard=300)
            badm = ck.eval_cases("meth", HEADER, mterms, "check_meth", shard=300)
            evaluations += len(iterms) + len(mterms)
            traces += len(iterms) + len(mterms)
            nontriv += sum(1 for c in cls_cases for l in c["levels"] if len(l["props"]) >= 2 or len(l["methods"]) >= 2)
            ck.cov["class_hierarchies"] = len(cls_cases)
            ck.cov["inst_cases"] = len(iterms)
            ck.cov["method_list_cases"] = len(mterms)
            ck.cov["fresh_vm_repetitions"] = reps_vm
            for j, cl in sorted(badi.items()):
                ci, i = iidx[j]
                key = "inst:clauses=%s" % "".join(map(str, cl))
                if 3 not in cl and 2 not in cl:
                    ck.broken.append("correspondence:C20.inst")
                ck.violation(key, {"case": cls_cases[ci], "level": i, "impl_out": outs[ci],
                                   "clause": "instantiate_enumeration / instantiate_declaration_order; clauses %s (1 model, 2 declaration order, 3 not deterministic)" % cl})
            for j, cl in sorted(badm.items()):
                ci, i = midx[j]
                key = ("meth:clauses=%s" if ci >= 0 else "reflect:clauses=%s") % "".join(map(str, cl))
                if 3 not in cl:
                    ck.broken.append("correspondence:C20.meth")
                ck.violation(key, {"case": cls_cases[ci] if ci >= 0 else {"kind": "reflect"}, "level": i,
                                   "impl_out": outs[ci] if ci >= 0 else ro,
                                   "clause": "get_methods_oracle_independent; clauses %s (1 model, 3 not deterministic)" % cl})
            ck.samples.append({"kind": "classes", "levels": cls_cases[0]["levels"]})

    # ================================================================= script-level stores
    sc_cases = []
    if replay and replay.get("kind") == "script":
        sc_cases = [replay]
    elif replay is None:
        for _ in range(160 if quick else 2000):
            kind = rng.choice(["array", "array", "object"])
            sc_cases.append({"kind": "script", "store": kind, "ops": gen_script_ops(rng, kind)})
    if sc_cases:
        group = 20
        progs = []
        for g in range(0, len(sc_cases), group):
            src = "<?php\n" + "\n".join(php_script_ops(c["store"], c["ops"], "S:%d" % (g + i))
                                        for i, c in enumerate(sc_cases[g:g + group])) + "\n"
            progs.append({"kind": "prog", "src": src, "file": "c20s.php", "reps": 2})
        outs, rc, err = run_engine(binary, progs)
        if len(outs) != len(progs):
            ck.broken.append("harness-run:script")
        else:
            obs = {}
            for o in outs:
                for r in o.get("runs", []):
                    for lab, pl in parse_lines(r["out"]).items():
                        for p in pl:
                            obs.setdefault(lab, set()).add(p)
            terms, idx = [], []
            for i, c in enumerate(sc_cases):
                got = sorted(obs.get("S:%d" % i, []))
                if len(got) != 1:
                    ck.violation("script:%s:nondeterministic" % c["store"], {"case": c, "impl_out": got, "clause": "range_is_insertion_order (script level): not exactly one enumeration"})
                    continue
                try:
                    pairs = json.loads(got[0])
                    ops = [coq_om_op(o) for o in c["ops"]] + ["ORange None"]
                    res = ["RUnit"] * len(c["ops"]) + ["RList %s" % coq_list(coq_kv(p) for p in pairs)]
                    terms.append("(%s, %s)" % (coq_list(ops), coq_list(res)))
                    idx.append(i)
                except (ValueError, TypeError):
                    ck.violation("script:%s:unparsed" % c["store"], {"case": c, "impl_out": got, "clause": "enumeration not printable"})
            bad = ck.eval_cases("script", HEADER, terms, "check_om", shard=400)
            evaluations += len(sc_cases)
            traces += len(terms)
            nontriv += sum(1 for c in sc_cases if len(c["ops"]) >= 3)
            ck.cov["script_store_cases"] = len(sc_cases)
            for j, cl in sorted(bad.items(), key=lambda kv: len(sc_cases[idx[kv[0]]]["ops"])):
                c = sc_cases[idx[j]]
                ck.violation("script:%s:order" % c["store"], {"case": c, "impl_out": sorted(obs.get("S:%d" % idx[j], [])),
                                                             "clause": "range_is_insertion_order at script level (string-keyed array / object)"})

    # ================================================================= probe programs (search)
    nprog = (14 if quick else 120)
    probe_cases = []
    if replay and replay.get("kind") == "probe":
        probe_cases = [replay]
    elif replay is None:
        for _ in range(nprog):
            src, labs, exp = gen_probe_program(rng, 18)
            probe_cases.append({"kind": "probe", "src": src, "labels": labs, "expect": exp})
    nproc = 3 if quick else 8
    probes_seen = {}
    probes_thrown = {}
    if probe_cases:
        progs = [{"kind": "prog", "src": c["src"], "file": "c20p.php", "reps": reps_vm} for c in probe_cases]
        outs, rc, err = run_engine(binary, progs)
        if len(outs) != len(progs):
            ck.log("probe: engine returned %d/%d rc=%s %s" % (len(outs), len(progs), rc, err[-1500:]))
            ck.broken.append("harness-run:probe")
        else:
            pdir = os.path.join(ck.bdir, "probe")
            os.makedirs(pdir, exist_ok=True)
            for pi, (c, o) in enumerate(zip(probe_cases, outs)):
                variants = {}          # label -> set of payloads
                runs = [(r["outcome"], r["out"]) for r in o.get("runs", [])]
                # fresh processes
                path = os.path.join(pdir, "p%d.php" % pi)
                open(path, "w").write(c["src"])
                for _ in range(nproc):
                    rcode, so, se = run_proc(origami, path, repo)
                    runs.append(("proc:%s" % rcode, so))
                    variants.setdefault("@stderr", set()).add(se)
                    variants.setdefault("@exit", set()).add(str(rcode))
                for oc, text in runs:
                    pl = parse_lines(text)
                    for lab in c["labels"]:
                        variants.setdefault(lab, set()).add(json.dumps(pl.get(lab)))
                evaluations += len(runs)
                for lab, vs in variants.items():
                    probes_seen[lab] = probes_seen.get(lab, 0) + 1
                    want = (c.get("expect") or {}).get(lab)
                    got1 = json.loads(next(iter(vs))) if (len(vs) == 1 and not lab.startswith("@")) else None
                    if len(vs) == 1 and want is not None and got1 and got1[0].startswith("THROWN:"):
                        probes_thrown[lab] = got1[0]
                        continue
                    if len(vs) == 1 and want is not None and got1 != [want]:
                        ck.violation("order:%s" % lab, {"case": {"kind": "probe", "src": c["src"], "labels": [lab], "expect": {lab: want}},
                                                        "impl_out": sorted(vs)[:2], "want": want,
                                                        "clause": "entries are enumerated in insertion order (probe %s)" % lab})
                    if len(vs) > 1:
                        ck.violation("nondet:%s" % lab, {"case": {"kind": "probe", "src": c["src"], "labels": [lab] if not lab.startswith("@") else c["labels"]},
                                                         "impl_out": sorted(vs)[:4],
                                                         "clause": "same program, same inputs: byte-identical output (probe line %s differs between runs)" % lab})
            nontriv += len(probe_cases)
            ck.cov["probe_programs"] = len(probe_cases)
            ck.cov["probe_runs_per_program"] = "%d fresh VMs + %d fresh processes" % (reps_vm, nproc)
            ck.cov["probe_label_frequency"] = probes_seen
            ck.cov["probes_that_threw (deterministically; not an order observation)"] = probes_thrown

    # ================================================================= site programs
    site_cases = []
    if replay and replay.get("kind") == "site":
        site_cases = [replay]
    elif replay is None:
        site_cases = site_programs()
    nsite = 4 if quick else 12
    sorted_terms, sorted_idx = [], []
    if site_cases:
        sdir = os.path.join(ck.bdir, "site")
        os.makedirs(sdir, exist_ok=True)
        for c in site_cases:
            runs = []
            if c["how"] == "proc":
                path = os.path.join(sdir, c["file"])
                open(path, "w").write(c["src"])
                for _ in range(nsite):
                    rcode, so, se = run_proc(origami, path, repo)
                    runs.append((str(rcode), so, se))
            else:
                req = {"kind": c["how"], "src": c["src"], "reps": nsite}
                for k in ("query", "form", "headers"):
                    if k in c:
                        req[k] = c[k]
                outs, rc, err = run_engine(binary, [req], cwd=ck.bdir)
                if len(outs) != 1 or outs[0].get("err"):
                    ck.log("site %s: engine rc=%s %s %s" % (c["name"], rc, outs, err[-800:]))
                    ck.broken.append("harness-run:site")
                    continue
                for r in outs[0].get("runs", []):
                    runs += [(r["outcome"], r["out"], "")] * r.get("n", 1)
            evaluations += len(runs)
            nontriv += 1
            distinct = sorted(set(runs))
            if ck.replay:
                ck.log("replay site %s: %d runs, %d distinct observations\n%s" % (c["name"], len(runs), len(distinct), "\n".join(map(str, distinct[:3]))))
            if len(distinct) > 1:
                ck.violation("nondet:site:%s" % c["name"], {"case": c, "impl_out": [list(d) for d in distinct[:4]],
                                                           "clause": "same program, same inputs: byte-identical output, error and exit status (%d runs gave %d different observations)" % (len(runs), len(distinct))})
                continue
            oc, so, se = distinct[0]
            wrong = None
            if c.get("expect_out") is not None and so != c["expect_out"]:
                wrong = c["expect_out"]
            if c.get("expect_contains") and c["expect_contains"] not in so:
                wrong = c["expect_contains"]
            if c.get("expect_in_stderr_or_out") and c["expect_in_stderr_or_out"] not in (so + se):
                wrong = c["expect_in_stderr_or_out"]
            if wrong is not None:
                ck.violation("order:site:%s" % c["name"], {"case": c, "impl_out": [oc, so[-1500:], se[-1500:]], "want": wrong,
                                                         "clause": "sorted_range / insertion order: the site must enumerate in the stated order"})
            for keys, pref, observed in _site_lists(c["name"], so, se):
                sorted_terms.append("(%s, %s, %s)" % (coq_slist(keys), coq_slist(pref), coq_slist(observed)))
                sorted_idx.append((c, observed))
        sbad = ck.eval_cases("sorted", HEADER, sorted_terms, "check_sorted", shard=400)
        traces += len(sorted_terms)
        evaluations += len(sorted_terms)
        for j, cl in sorted(sbad.items()):
            c, observed = sorted_idx[j]
            ck.violation("order:site-model:%s" % c["name"], {"case": c, "impl_out": observed,
                                                           "clause": "sorted_range / preferred_then_sorted: the model and the real site disagree on the order produced"})
        ck.cov["site_programs"] = [c["name"] for c in site_cases]
        ck.cov["site_program_runs_each"] = nsite

    # ================================================================= corpus (fresh processes)
    if replay is None or (replay and replay.get("kind") == "corpus"):
        if replay:
            files, excluded = [replay["file"]], 0
        else:
            files, excluded = corpus_files(repo)
        nrep = 3 if quick else 8
        t0 = time.time()
        from concurrent.futures import ThreadPoolExecutor
        jobs = [(f, i) for f in files for i in range(nrep)]
        with ThreadPoolExecutor(max_workers=max(2, min(12, vcheck.NCPU))) as ex:
            results = list(ex.map(lambda j: run_proc(origami, j[0], repo), jobs))
        byfile = {}
        for (f, i), r in zip(jobs, results):
            byfile.setdefault(f, []).append(r)
        varying = []
        for f, rs in sorted(byfile.items()):
            if any(r[0] == "timeout" for r in rs):
                continue
            if len(set(rs)) > 1:
                varying.append(f)
                ck.violation("corpus:%s" % f, {"case": {"kind": "corpus", "file": f},
                                               "impl_out": [list(map(str, r))[:2] for r in sorted(set(rs), key=str)[:3]],
                                               "clause": "same corpus file run %d times in fresh processes: output / stderr / exit status differ" % nrep})
        evaluations += len(jobs)
        ck.cov["corpus_files"] = len(files)
        ck.cov["corpus_files_excluded_as_time_or_io_dependent"] = excluded
        ck.cov["corpus_runs_per_file"] = nrep
        ck.cov["corpus_wall_s"] = round(time.time() - t0, 1)
        nontriv += len(files)

    # ================================================================= (A;B) vs (B)
    pair_cases = []
    incfile = os.path.join(ck.bdir, "c20inc.php")
    open(incfile, "w").write("<?php function c20inc() { return 1; }\n")
    if replay and replay.get("kind") == "pair":
        pair_cases = [replay]
    elif replay is None:
        for (pl, pa, wcell) in POLLUTERS:
            for obs_entry in OBSERVERS:
                ol, ob, rcell = obs_entry[:3]
                slow = len(obs_entry) > 3
                rcells = rcell if isinstance(rcell, list) else [rcell]
                if wcell in rcells or (rng.random() < (0.25 if quick else 1.0) and not (slow and quick)):
                    pair_cases.append({"kind": "pair", "pl": pl, "ol": ol, "wcell": wcell, "rcell": rcells,
                                       "a": "<?php " + pa.replace("%INC%", incfile), "b": "<?php " + ob.replace("%INC%", incfile)})
        # generated probe programs as A and as B
        # (B must be deterministic on its own: probes with a recorded nondet finding are left out)
        det = [p for p in PROBES if ("nondet:" + p[0]) not in ck.known]
        for _ in range(6 if quick else 60):
            a, _l, _e = gen_probe_program(rng, 10)
            b, _l, _e = gen_probe_program(rng, 10, det)
            pair_cases.append({"kind": "pair", "pl": "probe-program", "ol": "probe-program", "wcell": "-", "rcell": ["-"], "a": a, "b": b})
    if pair_cases:
        outs, rc, err = run_engine(binary, [{"kind": "pair", "a": c["a"], "b": c["b"]} for c in pair_cases], cwd=ck.bdir)
        if len(outs) != len(pair_cases):
            ck.log("pair: engine returned %d/%d rc=%s %s" % (len(outs), len(pair_cases), rc, err[-1500:]))
            ck.broken.append("harness-run:pair")
        else:
            table = coq_list("(%s, %s)" % (cs(k), v) for k, v in sorted(CELLS.items()))
            terms, idx = [], []
            for i, (c, o) in enumerate(zip(pair_cases, outs)):
                if o.get("err") or not o.get("alone") or not o.get("after"):
                    ck.violation("pair:error", {"case": c, "impl_out": o, "clause": "child process failed"})
                    continue
                for side in ("alone", "after"):
                    if o[side].get("raw"):
                        o[side]["raw"] = re.sub(r"c20-b-\d+\.php", "c20-b.php", o[side]["raw"])
                leak = o["alone"] != o["after"]
                if c["wcell"] == "-":
                    # generated programs: no abstract script; the clause itself is the oracle
                    evaluations += 1
                    if leak:
                        ck.violation("leak:probe-program", {"case": c, "impl_out": o, "clause": "(A;B) vs (B): B's output differs"})
                    continue
                a = "[AWrite %s 1]" % cs(c["wcell"])
                rcs = c["rcell"] if isinstance(c["rcell"], list) else [c["rcell"]]
                b = coq_list("ARead %s" % cs(r) for r in rcs)
                terms.append("(%s, %s, %s, %s)" % (table, a, b, coq_bool(leak)))
                idx.append(i)
            bad = ck.eval_cases("pair", HEADER, terms, "check_leak", shard=400)
            if ck.replay:
                for c, o in zip(pair_cases, outs):
                    ck.log("replay pair: A = %s | B = %s" % (c["a"], c["b"]))
                    ck.log("implementation: B alone -> %s ; B after A -> %s" % (json.dumps(o.get("alone")), json.dumps(o.get("after"))))
                    ck.log("model: cell written %s (%s), cells read %s; spec: B must print the same" % (c.get("wcell"), CELLS.get(c.get("wcell")), c.get("rcell")))
            evaluations += len(terms)
            traces += len(terms)
            nontriv += sum(1 for c in pair_cases if c["wcell"] in c["rcell"])
            ck.cov["pair_cases"] = len(pair_cases)
            ck.cov["pair_cases_same_cell"] = sum(1 for c in pair_cases if c["wcell"] in c["rcell"])
            for j, cl in sorted(bad.items()):
                c, o = pair_cases[idx[j]], outs[idx[j]]
                if 1 in cl:
                    # the cell table mispredicts: either a new leak (2 also set) or a cell that stopped leaking
                    key = "leak-table:%s->%s:%s" % (c["pl"], c["ol"], "leaks" if 2 in cl else "no-longer-leaks")
                    if 2 not in cl:
                        ck.broken.append("correspondence:C20.cells:%s" % c["wcell"])
                    ck.violation(key, {"case": c, "impl_out": o,
                                       "clause": "no_leak: state-cell table says %s is %s but B %s" % (
                                           c["wcell"], CELLS.get(c["wcell"]), "could tell" if 2 in cl else "could not tell")})
                else:
                    ck.violation("leak:%s" % c["wcell"], {"case": c, "impl_out": o,
                                                         "clause": "a program on a fresh VM behaves the same whether or not others ran before (sticky_leaks_refuted instance)"})

    # ================================================================= site inventory
    if replay is None:
        p = subprocess.run([walker, repo, "./runtime", "./node", "./data", "./parser", "./std/..."], stdout=subprocess.PIPE, stderr=subprocess.PIPE,
                           text=True, env=vcheck.go_env(), timeout=600)
        sites, pvars = [], []
        for l in p.stdout.splitlines():
            try:
                j = json.loads(l)
            except ValueError:
                continue
            (pvars if j.get("kind") == "var" else sites).append(j)
        inv, gaps = [], []
        for s in sites:
            k = site_key(s)
            cls = SITE_CLASS.get(k)
            if cls is None and s.get("sorted_after"):
                cls = ("order-insensitive", "collect then sort (detected syntactically)")
            if cls is None:
                cls = ("unclassified", "new site: coverage gap")
                gaps.append(k)
            inv.append({"site": k, "line": s["line"], "class": cls[0], "why": cls[1]})
        if not sites:
            ck.notes.append("site walker produced no output: " + p.stderr[-500:])
            ck.broken.append("harness-run:walker")
        ck.cov["map_range_sites_packages"] = "runtime node data parser std/... (go list -deps + go/types)"
        ck.cov["map_range_sites"] = inv
        ck.cov["map_range_sites_by_class"] = {c: sum(1 for x in inv if x["class"] == c)
                                             for c in ("modelled", "order-insensitive", "unmodelled", "unclassified")}
        ck.cov["map_range_sites_unclassified"] = gaps
        present = {site_key(s) for s in sites}
        missing = [k for k, v in SITE_CLASS.items() if v[0] == "modelled" and k not in present]
        if missing:
            ck.notes.append("modelled map-range sites no longer present in the source (model may be stale): %s" % missing)
            ck.cov["modelled_sites_missing"] = missing
        stale = sorted(k for k in SITE_CLASS if k not in present)
        ck.cov["classified_sites_no_longer_in_the_source"] = stale
        if gaps:
            # a new range-over-map statement is a potential order dependence nobody has looked at
            ck.violation("site:unclassified:%s" % gaps[0], {"case": {"kind": "site-inventory", "sites": gaps},
                                                            "clause": "every `for ... range <map>` of runtime/node/data/parser/std must be classified (modelled, order-insensitive with a reason, or unmodelled with a reason)"})

        # ---- package-level variables written outside init(): the process-level state a fresh VM could inherit
        vinv, vgaps = [], []
        for v in pvars:
            if v["type"] in _REGEXP_TYPES:
                continue        # method calls on a compiled regexp do not change it
            k = "%s.%s" % (v["pkg"].replace("github.com/php-any/origami/", ""), v["name"])
            cls = VAR_CLASS.get(k)
            if cls is None:
                vgaps.append(k)
                cls = ("unclassified", None, "new package-level variable written at run time")
            elif cls[1] is not None and cls[1] not in CELLS:
                ck.notes.append("VAR_CLASS[%s] names an unknown cell %s" % (k, cls[1]))
                ck.broken.append("check-table:VAR_CLASS")
            elif cls[1] is not None and cls[0] in ("ProcReset", "ProcSticky") and CELLS[cls[1]] != cls[0] and k != "node.includeOnceCache":
                ck.notes.append("VAR_CLASS[%s] says %s but its cell %s is %s" % (k, cls[0], cls[1], CELLS[cls[1]]))
                ck.broken.append("check-table:VAR_CLASS")
            vinv.append({"var": k, "at": "%s:%d" % (v["file"], v["line"]), "type": v["type"][:60], "scope": cls[0], "cell": cls[1], "why": cls[2],
                         "written_by": sorted(set(w["func"] for w in v["writes"]))[:8]})
        ck.cov["package_vars_written_at_run_time"] = vinv
        ck.cov["package_vars_by_scope"] = {c: sum(1 for x in vinv if x["scope"] == c)
                                           for c in ("PerVM-keyed", "ProcReset", "ProcSticky", "config", "unclassified")}
        ck.cov["package_vars_with_a_polluter_observer_pair"] = sum(1 for x in vinv if x["cell"])
        if vgaps:
            ck.violation("state:unclassified:%s" % vgaps[0], {"case": {"kind": "var-inventory", "vars": vgaps},
                                                             "clause": "every package-level variable written outside init() must be classified (scope + the state cell whose polluter/observer pair exercises it)"})

    ck.finish(level="proof", evaluations=evaluations, distinct_nontrivial=nontriv,
              rule="om: all sequences up to the stated length over a 13-op pool + seeded sequences of 1..25 ops with collision-biased keys; "
                   "find: seeded key sets from a case-colliding name pool, 160 lookups each; classes: seeded hierarchies of depth 1..3; "
                   "script: seeded set/unset sequences on string-keyed arrays and stdClass objects; probes: seeded programs of 18 labelled probe lines; "
                   "corpus: every .php under tests/ and examples/ that does not mention time/random/io; pairs: every polluter x observer on the same cell plus a seeded sample of the others. "
                   "non-trivial = distinct om sequence with a Set and >= 2 ops; find case with a case-fold collision and an inexact name; class level with >= 2 members; script case with >= 3 ops; each probe program; each corpus file; same-cell pair",
              traces=traces)
